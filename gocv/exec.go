package main

// Symbolic execution of go/ssa function bodies into verification conditions.

import (
	"fmt"
	"go/constant"
	"go/token"
	"go/types"
	"sort"
	"strings"

	"golang.org/x/tools/go/ssa"
)

type Fact struct {
	T       string
	At      int  // visible to obligations with NFacts > At
	FromObl bool // an assertion that was checked and is assumed afterwards (not used by reachability covers)
}

type Obl struct {
	Name   string
	Kind   string // post, pre, inv, safety, frame, lockset, monitor, lemma, cover, canary
	Props  []string
	Guard  string
	Goal   string
	NFacts int
	Pos    string
	Fn     string
	Text   string // the contract text or a description
	Cover  bool   // expected SAT (reachability / non-vacuity)
	// results
	Status  string // discharged, failed, unknown, error
	Solver  string
	Time    float64
	Model   string
	Output  string
	SmtFile string
	noSplit bool
	Decided bool // decided by the generator itself (structural obligation): not sent to a solver
	Parts  []string // independent conjuncts of Goal (one per return site): each is discharged by its own query
	IsPart bool
	OptionalCover bool // call-site cover: unsat is only an error if the call site itself is reachable
	PreGuard string
	Candidate bool // counterexample came from the weakened (quantifier-free hypotheses) query
}

// Place is a storage location for a non-struct value.
type Place struct {
	comp  string
	keys  []string
	typ   types.Type
	local bool
	// slice element: keys = [arr, off+idx]; reads go through g_at(array, off, idx) so that triggers never contain arithmetic
	elemOff, elemIdx string
}

// Val is the symbolic value of an SSA value.
type Val struct {
	t     string
	tuple []Val
	place *Place        // pointer to a known non-struct location
	fn    *ssa.Function // statically known function value
	binds []Val         // closure bindings
	typ   types.Type
	callGuard string // for call results: the path condition under which the call happened
}

type deferred struct {
	instr *ssa.Defer
	flag  string // condition under which it was pushed
	args  []Val
	fnv   Val
}

type Frame struct {
	fn      *ssa.Function
	env     map[ssa.Value]Val
	defers  []deferred
	depth   int
	id      int
	parent  *Frame
	contract *FuncContract // contract of fn if it is the unit's top function
	calls   map[string]int // callee name -> count (for ret(callee #k))
	callRes map[string][]Val
	callG   map[string]string // path condition of the k-th call to a callee (key callee#k)
	callArgs map[string]map[string]Val // arguments of the k-th call to a callee under contract, by parameter name
}

type State struct {
	guard string
	heap  map[string]string
	base  string
}

func (s *State) clone() *State {
	h := make(map[string]string, len(s.heap))
	for k, v := range s.heap {
		h[k] = v
	}
	return &State{guard: s.guard, heap: h, base: s.base}
}

type Unit struct {
	u        *Universe
	prog     *Prog
	specs    *Specs
	fn       *ssa.Function
	contract *FuncContract
	facts    []Fact
	obls     []*Obl
	entry    *State
	compSort map[string]string
	compKind map[string]string // "field:pkg.T.f", "elem", "cell", "map", "ghost", "local", "next"
	layers   map[string][]string
	layerN   int
	frameN   int
	outside  string // reason the function left the supported subset
	notes    map[string]bool
	assumed  map[string]bool // assumed/trusted contracts used
	safetyN  map[string]int
	maxDepth int
	fnVals   map[string]*ssa.Function // term -> function
	closures map[string]Val
	curFrame *Frame
	callFrame *Frame // frame of the call being executed (lock lookups through pointer fields)
	leakN     int    // formatting-sink questions generated so far (leak sweep)
	mode     string // "verify"
	topProps []string
	wantSafety bool
	lockProps []string
	mods []modEntry
	compVolatileType map[string]bool
	verBound map[string]string
	acquireSnap *State
	lastAcquireSnap *State
	topRets []retRec
	nextOverride string
	wantCallCovers bool
	curCallArgs []ssa.Value
	setofMemo map[string]string
	pendingClosure *ssa.Function
	pendingBinds []Val
	elemAxiom bool
	preOnly bool // executing a `go` statement: a callee under contract is only checked for its precondition
	selfRef string // identity of the function value when a closure is verified standalone
	modsDone bool
	oblNames map[string]int
	exitState *State
	exitRets  []Val
}

func (un *Unit) note(s string) { un.notes[s] = true }

func (un *Unit) addFact(t string) {
	if t == "true" || t == "" {
		return
	}
	un.facts = append(un.facts, Fact{T: t, At: len(un.facts)})
}

func (un *Unit) addFactAt(t string, at int) {
	if t == "true" || t == "" {
		return
	}
	un.facts = append(un.facts, Fact{T: t, At: at})
}

func (un *Unit) assume(st *State, t string) {
	un.addFact(implies(st.guard, t))
}

func (un *Unit) posOf(p token.Pos) string {
	if !p.IsValid() {
		return ""
	}
	pp := un.prog.fset.Position(p)
	return fmt.Sprintf("%s:%d", strings.TrimPrefix(pp.Filename, repoRoot()+"/"), pp.Line)
}

func (un *Unit) oblige(st *State, kind, name string, props []string, goal string, pos token.Pos, text string) *Obl {
	un.oblNames[name]++
	if n := un.oblNames[name]; n > 1 {
		name = fmt.Sprintf("%s~%d", name, n)
	}
	o := &Obl{Name: name, Kind: kind, Props: props, Guard: st.guard, Goal: goal, NFacts: len(un.facts), Pos: un.posOf(pos), Fn: funcKey(un.fn), Text: text}
	un.obls = append(un.obls, o)
	// an assertion that has been checked may be used as a lemma afterwards
	if goal != "false" {
		if t := implies(st.guard, goal); t != "true" {
			un.facts = append(un.facts, Fact{T: t, At: len(un.facts), FromObl: true})
		}
	}
	return o
}

// safety obligation with a stable name: <fn>/safety/<kind>@<desc>[#n]
func (un *Unit) safety(st *State, fr *Frame, kind, desc string, goal string, pos token.Pos) {
	if goal == "true" {
		return
	}
	if !un.wantSafety {
		// still usable as path fact (Go would have panicked otherwise)
		un.assume(st, goal)
		return
	}
	base := fmt.Sprintf("%s/safety/%s@%s", funcKey(un.fn), kind, desc)
	if fr.fn != un.fn {
		base = fmt.Sprintf("%s/safety/%s@%s>%s", funcKey(un.fn), kind, shortFn(fr.fn), desc)
	}
	un.safetyN[base]++
	name := base
	if n := un.safetyN[base]; n > 1 {
		name = fmt.Sprintf("%s#%d", base, n)
	}
	var props []string
	if un.contract != nil {
		props = un.contract.Safety
	}
	un.oblige(st, "safety", name, props, goal, pos, kind+" "+desc)
}

func shortFn(fn *ssa.Function) string {
	k := funcKey(fn)
	if i := strings.Index(k, "."); i >= 0 {
		return k[i+1:]
	}
	return k
}

// ---------- heap components ----------

func (un *Unit) comp(name, sort, kind string) string {
	if _, ok := un.compSort[name]; !ok {
		un.compSort[name] = sort
		un.compKind[name] = kind
	}
	return name
}

func (un *Unit) versionName(comp, base string) string {
	return "|" + comp + "@" + base + "|"
}

func (un *Unit) get(st *State, comp string) string {
	if v, ok := st.heap[comp]; ok {
		return v
	}
	n := un.versionName(comp, st.base)
	if !un.u.declared[n] {
		un.u.declare(n, un.compSort[comp])
		un.layers[st.base] = append(un.layers[st.base], comp)
	}
	return n
}

func (un *Unit) set(st *State, comp, v string) {
	if len(v) > 160 && comp != nextComp {
		// name long update chains so that terms (and queries) stay small
		n := un.u.freshConst(comp+"@s", un.compSort[comp])
		un.addFact(eq(n, v))
		v = n
	}
	st.heap[comp] = v
	if comp != nextComp && un.compKind[comp] != "local" {
		if _, ok := un.verBound[v]; !ok {
			un.verBound[v] = un.next(st)
		}
	}
}

func (un *Unit) havocComp(st *State, comp string) string {
	v := un.u.freshConst(comp+"@h", un.compSort[comp])
	un.set(st, comp, v)
	return v
}

func (un *Unit) fieldComp(structT types.Type, i int) (comp string, ftyp types.Type) {
	st := structT.Underlying().(*types.Struct)
	f := st.Field(i)
	name := "H_" + sanitize(typeKey(structT)) + "." + f.Name()
	un.comp(name, arraySort("Int", un.u.sortOf(f.Type())), "field:"+typeKey(structT)+"."+f.Name())
	if nm, ok := specialIntType(f.Type()); ok && (strings.HasPrefix(nm, "sync/atomic.") || nm == "sync.Once") {
		un.compVolatileType[name] = true
	}
	return name, f.Type()
}

func (un *Unit) elemComp(elem types.Type) string {
	s := un.u.sortOf(elem)
	name := "E_" + sanitize(s)
	un.comp(name, arraySort("Int", arraySort("Int", s)), "elem")
	return name
}

// isVolatile: state that other goroutines may change at any time (atomics, sync.Once, fields declared volatile).
func (un *Unit) isVolatile(comp string) bool {
	if strings.HasPrefix(comp, "C_sync.atomic.") || comp == "C_sync.Once" {
		return true
	}
	kind := un.compKind[comp]
	if strings.HasPrefix(kind, "field:") {
		if un.specs.Volatile[strings.TrimPrefix(kind, "field:")] {
			return true
		}
		if vt, ok := un.compVolatileType[comp]; ok {
			return vt
		}
	}
	return false
}

// havocVolatile: an effectful callee (or another goroutine meanwhile) may have changed volatile state.
func (un *Unit) havocVolatile(st *State) {
	for c := range un.compSort {
		if un.isVolatile(c) {
			if _, touched := st.heap[c]; touched || un.u.declared[un.versionName(c, st.base)] {
				un.havocComp(st, c)
			}
		}
	}
}

func (un *Unit) cellComp(elem types.Type) string {
	s := un.u.sortOf(elem)
	name := "C_" + sanitize(s)
	if nm, ok := specialIntType(elem); ok {
		name = "C_" + sanitize(nm)
	}
	un.comp(name, arraySort("Int", s), "cell")
	return name
}

func (un *Unit) mapComps(m *types.Map) (dom, val, ln string) {
	ks, vs := un.u.sortOf(m.Key()), un.u.sortOf(m.Elem())
	base := sanitize(ks + "_" + vs)
	dom = un.comp("Md_"+base, arraySort("Int", arraySort(ks, "Bool")), "map")
	val = un.comp("Mv_"+base, arraySort("Int", arraySort(ks, vs)), "map")
	ln = un.comp("Ml_"+base, arraySort("Int", "Int"), "map")
	return
}

const nextComp = "$next"

func (un *Unit) next(st *State) string {
	if un.nextOverride != "" {
		return un.nextOverride
	}
	un.comp(nextComp, "Int", "next")
	return un.get(st, nextComp)
}

// boundOf: every reference stored in the current version of comp was allocated before this frontier
// (the frontier at the time that version came into being).
func (un *Unit) boundOf(st *State, comp string) string {
	v := un.get(st, comp)
	if b, ok := un.verBound[v]; ok {
		return b
	}
	if v == un.versionName(comp, st.base) {
		return un.get(&State{heap: map[string]string{}, base: st.base}, un.comp(nextComp, "Int", "next"))
	}
	return un.next(st)
}

// allocRef returns a fresh reference, distinct from everything allocated so far.
func (un *Unit) allocRef(st *State, hint string) string {
	r := un.u.freshConst("new_"+hint, "Int")
	n := un.next(st)
	un.addFact(and(eq(r, n), "(> "+r+" 0)"))
	n2 := un.u.freshConst("next", "Int")
	un.addFact(eq(n2, "(+ "+n+" 1)"))
	un.set(st, nextComp, n2)
	return r
}

// bumpNext models "the callee may have allocated".
func (un *Unit) bumpNext(st *State) {
	n := un.next(st)
	n2 := un.u.freshConst("next", "Int")
	un.addFact("(>= " + n2 + " " + n + ")")
	un.set(st, nextComp, n2)
}

// sub-object reference for an embedded struct field or an array/slice element of struct type.
func (un *Unit) subRef(base string, structT types.Type, field int) string {
	un.u.declareFun("g_sub", []string{"Int", "Int"}, "Int")
	un.u.declareFun("g_sub_base", []string{"Int"}, "Int")
	un.u.declareFun("g_sub_idx", []string{"Int"}, "Int")
	un.u.declareFun("g_kind", []string{"Int"}, "Int")
	id := un.fieldUID(structT, field)
	t := fmt.Sprintf("(g_sub %s %d)", base, id)
	un.addFact(and(eq("(g_sub_base "+t+")", base), eq("(g_sub_idx "+t+")", fmt.Sprint(id)), "(< "+t+" 0)", eq("(g_kind "+t+")", "1")))
	return t
}

func (un *Unit) elemRef(arr, idx string) string {
	un.u.declareFun("g_elem", []string{"Int", "Int"}, "Int")
	un.u.declareFun("g_elem_arr", []string{"Int"}, "Int")
	un.u.declareFun("g_elem_idx", []string{"Int"}, "Int")
	un.u.declareFun("g_kind", []string{"Int"}, "Int")
	t := fmt.Sprintf("(g_elem %s %s)", arr, idx)
	if strings.Contains(arr, "q_") || strings.Contains(idx, "q_") {
		// the term mentions a bound variable (it is evaluated under a quantifier): the defining facts are stated once,
		// universally, instead of for this term
		if !un.elemAxiom {
			un.elemAxiom = true
			un.u.usesQuant = true
			un.addFact("(forall ((ea!a Int) (ea!i Int)) (! (and (= (g_elem_arr (g_elem ea!a ea!i)) ea!a) (= (g_elem_idx (g_elem ea!a ea!i)) ea!i) (< (g_elem ea!a ea!i) 0) (= (g_kind (g_elem ea!a ea!i)) 2)) :pattern ((g_elem ea!a ea!i))))")
		}
		return t
	}
	un.addFact(and(eq("(g_elem_arr "+t+")", arr), eq("(g_elem_idx "+t+")", idx), "(< "+t+" 0)", eq("(g_kind "+t+")", "2")))
	return t
}

var fieldUIDs = map[string]int{}

func (un *Unit) fieldUID(structT types.Type, field int) int {
	k := fmt.Sprintf("%s#%d", typeKey(structT), field)
	if id, ok := fieldUIDs[k]; ok {
		return id
	}
	id := len(fieldUIDs) + 1
	fieldUIDs[k] = id
	return id
}

func isStructType(t types.Type) bool {
	if _, ok := specialIntType(t); ok {
		return false
	}
	_, ok := t.Underlying().(*types.Struct)
	return ok
}

// ---------- loads and stores ----------

func (un *Unit) loadPlace(st *State, p *Place) string {
	if p.elemOff != "" && len(p.keys) == 2 {
		return un.gat(sel(un.get(st, p.comp), p.keys[0]), p.elemOff, p.elemIdx, un.u.sortOf(p.typ))
	}
	return sel(un.get(st, p.comp), p.keys...)
}

// gat: element i of a slice window starting at off in array a, as an application g_at(a, off, i) that is
// axiomatised to equal (select a (+ off i)). Quantified facts about slices are stated over g_at, so that their
// triggers bind the index as a whole (solvers normalise arithmetic inside select indices, which defeats matching).
func (un *Unit) gat(a, off, i, elemSort string) string {
	if un.u.bv {
		return "(select " + a + " (bvadd " + off + " " + i + "))"
	}
	name := "g_at_" + sanitize(elemSort)
	if !un.u.declared[name] {
		un.u.declareFun(name, []string{arraySort("Int", elemSort), "Int", "Int"}, elemSort)
		un.u.usesQuant = true
		un.facts = append(un.facts, Fact{T: fmt.Sprintf("(forall ((ga (Array Int %s)) (go Int) (gi Int)) (! (= (%s ga go gi) (select ga (+ go gi))) :pattern ((%s ga go gi))))", elemSort, name, name), At: -1})
	}
	return "(" + name + " " + a + " " + off + " " + i + ")"
}

func (un *Unit) storePlace(st *State, p *Place, v string) {
	if len(p.keys) == 0 {
		un.set(st, p.comp, v)
		return
	}
	un.set(st, p.comp, sto(un.get(st, p.comp), v, p.keys...))
}

// loadStruct assembles the value of the struct object at ref.
func (un *Unit) loadStruct(st *State, ref string, t types.Type) string {
	stt := t.Underlying().(*types.Struct)
	dt := un.u.sortOf(t)
	if stt.NumFields() == 0 {
		return "mk_" + dt
	}
	var fs []string
	for i := 0; i < stt.NumFields(); i++ {
		ft := stt.Field(i).Type()
		if isStructType(ft) {
			fs = append(fs, un.loadStruct(st, un.subRef(ref, t, i), ft))
		} else if at, ok := ft.Underlying().(*types.Array); ok && isStructType(at.Elem()) {
			un.outside = "array of structs inside struct"
			fs = append(fs, un.u.freshConst("arr", un.u.sortOf(ft)))
		} else {
			c, _ := un.fieldComp(t, i)
			fs = append(fs, sel(un.get(st, c), ref))
		}
	}
	return "(mk_" + dt + " " + strings.Join(fs, " ") + ")"
}

func (un *Unit) storeStruct(st *State, ref string, t types.Type, v string) {
	stt := t.Underlying().(*types.Struct)
	dt := un.u.sortOf(t)
	for i := 0; i < stt.NumFields(); i++ {
		ft := stt.Field(i).Type()
		fv := "(" + un.u.fieldSel(dt, i) + " " + v + ")"
		if isStructType(ft) {
			un.storeStruct(st, un.subRef(ref, t, i), ft, fv)
		} else {
			c, _ := un.fieldComp(t, i)
			un.set(st, c, sto(un.get(st, c), fv, ref))
		}
	}
}

// zero value of a type
func (un *Unit) zero(t types.Type) string {
	t = types.Unalias(t)
	if nm, ok := specialIntType(t); ok {
		if nm == "time.Time" {
			un.u.declare("g_time_zero", "Int")
			return "g_time_zero"
		}
		return "0"
	}
	if _, ok := t.(*types.TypeParam); ok {
		n := "g_zero_" + un.u.sortOf(t)
		un.u.declare(n, un.u.sortOf(t))
		return n
	}
	switch ut := t.Underlying().(type) {
	case *types.Basic:
		switch {
		case ut.Info()&types.IsBoolean != 0:
			return "false"
		case ut.Info()&types.IsInteger != 0:
			return un.intConst(0, t)
		case ut.Info()&types.IsString != 0:
			return "\"\""
		case ut.Info()&types.IsFloat != 0:
			return "0.0"
		}
		return "0"
	case *types.Pointer, *types.Map, *types.Chan, *types.Signature:
		return "0"
	case *types.Slice:
		return "(mk_slice 0 0 0 0)"
	case *types.Interface:
		return "(mk_iface 0 0)"
	case *types.Struct:
		dt := un.u.sortOf(t)
		if ut.NumFields() == 0 {
			return "mk_" + dt
		}
		var fs []string
		for i := 0; i < ut.NumFields(); i++ {
			fs = append(fs, un.zero(ut.Field(i).Type()))
		}
		return "(mk_" + dt + " " + strings.Join(fs, " ") + ")"
	case *types.Array:
		return fmt.Sprintf("((as const %s) %s)", un.u.sortOf(t), un.zero(ut.Elem()))
	}
	return "0"
}

func (un *Unit) intConst(n int64, t types.Type) string {
	if un.u.bv {
		w := intWidth(t)
		var v uint64 = uint64(n)
		if w < 64 {
			v &= (1 << uint(w)) - 1
		}
		return fmt.Sprintf("(_ bv%d %d)", v, w)
	}
	return intLit(n)
}

// typeFacts: range and well-formedness assumptions for a value of Go type t read from the environment.
func (un *Unit) typeFacts(st *State, v string, t types.Type) string {
	t = types.Unalias(t)
	if _, ok := specialIntType(t); ok {
		return "true"
	}
	if _, ok := t.(*types.TypeParam); ok {
		return "true"
	}
	switch ut := t.Underlying().(type) {
	case *types.Basic:
		if ut.Info()&types.IsInteger != 0 && !un.u.bv {
			w := intWidth(t)
			if isUnsigned(t) {
				if w < 64 {
					return fmt.Sprintf("(and (<= 0 %s) (<= %s %d))", v, v, (uint64(1)<<uint(w))-1)
				}
				return "(<= 0 " + v + ")"
			}
			if w < 64 {
				return fmt.Sprintf("(and (<= (- %d) %s) (<= %s %d))", uint64(1)<<uint(w-1), v, v, (uint64(1)<<uint(w-1))-1)
			}
			return fmt.Sprintf("(and (<= (- 9223372036854775808) %s) (<= %s 9223372036854775807))", v, v)
		}
	case *types.Pointer, *types.Map, *types.Chan:
		return "(< " + v + " " + un.next(st) + ")"
	case *types.Slice:
		z := "0"
		le := "<="
		if un.u.bv {
			return "true"
		}
		return and("("+le+" "+z+" (s_off "+v+"))", "("+le+" "+z+" (s_len "+v+"))", "("+le+" (s_len "+v+") (s_cap "+v+"))",
			"(< (s_arr "+v+") "+un.next(st)+")", "(<= 0 (s_arr "+v+"))",
			implies(eq("(s_arr "+v+")", "0"), and(eq("(s_cap "+v+")", "0"))))
	case *types.Interface:
		return and("(< (i_val "+v+") "+un.next(st)+")", "(>= (i_tag "+v+") 0)", implies(eq("(i_tag "+v+")", "0"), eq("(i_val "+v+")", "0")))
	case *types.Struct:
		dt := un.u.sortOf(t)
		var fs []string
		for i := 0; i < ut.NumFields(); i++ {
			fs = append(fs, un.typeFacts(st, "("+un.u.fieldSel(dt, i)+" "+v+")", ut.Field(i).Type()))
		}
		return and(fs...)
	}
	return "true"
}

// ---------- values ----------

func (un *Unit) constVal(c *ssa.Const) Val {
	t := c.Type()
	if c.Value == nil {
		return Val{t: un.zero(t), typ: t}
	}
	tu := types.Unalias(t)
	if tp, ok := tu.(*types.TypeParam); ok {
		_ = tp
		return Val{t: un.zero(t), typ: t}
	}
	switch ut := tu.Underlying().(type) {
	case *types.Basic:
		switch {
		case ut.Info()&types.IsBoolean != 0:
			if constant.BoolVal(c.Value) {
				return Val{t: "true", typ: t}
			}
			return Val{t: "false", typ: t}
		case ut.Info()&types.IsInteger != 0:
			if un.u.bv {
				if v, ok := constant.Uint64Val(constant.ToInt(c.Value)); ok {
					w := intWidth(t)
					if w < 64 {
						v &= (1 << uint(w)) - 1
					}
					return Val{t: fmt.Sprintf("(_ bv%d %d)", v, w), typ: t}
				}
				v, _ := constant.Int64Val(constant.ToInt(c.Value))
				return Val{t: un.intConst(v, t), typ: t}
			}
			s := constant.ToInt(c.Value).ExactString()
			if strings.HasPrefix(s, "-") {
				s = "(- " + s[1:] + ")"
			}
			return Val{t: s, typ: t}
		case ut.Info()&types.IsString != 0:
			return Val{t: strLit(constant.StringVal(c.Value)), typ: t}
		case ut.Info()&types.IsFloat != 0:
			f, _ := constant.Float64Val(c.Value)
			s := fmt.Sprintf("%f", f)
			if f < 0 {
				s = fmt.Sprintf("(- %f)", -f)
			}
			return Val{t: s, typ: t}
		}
	}
	return Val{t: un.zero(t), typ: t}
}

func (un *Unit) fnConst(fn *ssa.Function) string {
	n := "g_fn_" + sanitize(funcKey(fn))
	if fn.Parent() != nil || fn.Origin() != nil {
		n = "g_fn_" + sanitize(funcKey(fn)) + "_" + sanitize(fn.Name())
	}
	n = "|" + n + "|"
	if !un.u.declared[n] {
		un.u.declare(n, "Int")
		un.addFact("(< " + n + " 0)")
	}
	un.fnVals[n] = fn
	return n
}

func (un *Unit) val(fr *Frame, v ssa.Value) Val {
	switch v := v.(type) {
	case *ssa.Const:
		return un.constVal(v)
	case *ssa.Function:
		return Val{t: un.fnConst(v), fn: v, typ: v.Type()}
	case *ssa.Global:
		// address of a package-level variable
		n := "|g_glob_" + sanitize(pkgKey(v.Pkg.Pkg)+"."+v.Name()) + "|"
		if !un.u.declared[n] {
			un.u.declare(n, "Int")
			un.addFact("(< " + n + " 0)")
		}
		et := v.Type().(*types.Pointer).Elem()
		if isStructType(et) {
			return Val{t: n, typ: v.Type()}
		}
		return Val{t: n, typ: v.Type(), place: &Place{comp: un.cellComp(et), keys: []string{n}, typ: et}}
	case *ssa.Builtin:
		return Val{t: "0", typ: v.Type()}
	}
	if val, ok := fr.env[v]; ok {
		return val
	}
	// free variables of a closure that is verified standalone, parameters: bound at frame creation
	un.outside = fmt.Sprintf("unbound SSA value %s (%T) in %s", v.Name(), v, fr.fn.Name())
	return Val{t: un.u.freshConst("unbound", un.u.sortOf(v.Type())), typ: v.Type()}
}

func (un *Unit) bind(fr *Frame, v ssa.Value, val Val) {
	if val.typ == nil {
		val.typ = v.Type()
	}
	fr.env[v] = val
}

// placeOf returns the location a pointer-to-non-struct value designates.
func (un *Unit) placeOf(st *State, pv Val, elem types.Type) *Place {
	if pv.place != nil {
		return pv.place
	}
	return &Place{comp: un.cellComp(elem), keys: []string{pv.t}, typ: elem}
}

// ---------- CFG scheduling with loop cuts ----------

type loopInfo struct {
	header  *ssa.BasicBlock
	body    map[*ssa.BasicBlock]bool
	ordinal int // 1-based, by source position of the header
	pre     *State
	layer   string
	cutIdx  int
	backs   []*State
	exits   []*pendingEdge
	left    int // blocks not yet processed
	parent  *loopInfo
	invs    []*Clause
}

type pendingEdge struct {
	from, to *ssa.BasicBlock
	st       *State
	loops    []*loopInfo // loops this edge exits, innermost first (remaining)
}

func findLoops(fn *ssa.Function) []*loopInfo {
	byHeader := map[*ssa.BasicBlock]*loopInfo{}
	var loops []*loopInfo
	for _, b := range fn.Blocks {
		for _, s := range b.Succs {
			if s.Dominates(b) { // back-edge b -> s
				li := byHeader[s]
				if li == nil {
					li = &loopInfo{header: s, body: map[*ssa.BasicBlock]bool{s: true}}
					byHeader[s] = li
					loops = append(loops, li)
				}
				// add nodes that reach b without passing s
				stack := []*ssa.BasicBlock{b}
				for len(stack) > 0 {
					n := stack[len(stack)-1]
					stack = stack[:len(stack)-1]
					if li.body[n] {
						continue
					}
					li.body[n] = true
					for _, p := range n.Preds {
						stack = append(stack, p)
					}
				}
			}
		}
	}
	sort.Slice(loops, func(i, j int) bool { return loops[i].header.Index < loops[j].header.Index })
	// ordinal by source position of header's first positioned instruction; fall back to block index
	type hp struct {
		li  *loopInfo
		pos token.Pos
	}
	var hps []hp
	for _, li := range loops {
		p := token.NoPos
		for _, in := range li.header.Instrs {
			if in.Pos().IsValid() {
				p = in.Pos()
				break
			}
		}
		if !p.IsValid() {
			for b := range li.body {
				for _, in := range b.Instrs {
					if in.Pos().IsValid() && (!p.IsValid() || in.Pos() < p) {
						p = in.Pos()
					}
				}
			}
		}
		hps = append(hps, hp{li, p})
	}
	sort.SliceStable(hps, func(i, j int) bool { return hps[i].pos < hps[j].pos })
	for i, h := range hps {
		h.li.ordinal = i + 1
	}
	// parents: smallest enclosing loop
	for _, a := range loops {
		for _, b := range loops {
			if a != b && b.body[a.header] && len(b.body) > len(a.body) {
				if a.parent == nil || len(b.body) < len(a.parent.body) {
					a.parent = b
				}
			}
		}
	}
	return loops
}

type retRec struct {
	st   *State
	vals []Val
}

func (un *Unit) mergeStates(sts []*State) *State {
	if len(sts) == 1 {
		return sts[0].clone()
	}
	base := sts[0].base
	mixed := false
	for _, s := range sts {
		if s.base != base {
			mixed = true
		}
	}
	out := &State{heap: map[string]string{}, base: base}
	var gs []string
	for _, s := range sts {
		gs = append(gs, s.guard)
	}
	g := or(gs...)
	if len(g) > 60 {
		n := un.u.freshConst("reach", "Bool")
		un.addFact(eq(n, g))
		g = n
	}
	out.guard = g
	if mixed {
		// states from different havoc layers: join every component known so far explicitly in a fresh layer
		un.layerN++
		out.base = fmt.Sprintf("J%d", un.layerN)
		for c := range un.compSort {
			for _, s := range sts {
				if _, ok := s.heap[c]; !ok {
					s.heap[c] = un.get(s, c)
				}
			}
		}
	}
	comps := map[string]bool{}
	for _, s := range sts {
		for c := range s.heap {
			comps[c] = true
		}
	}
	for _, c := range sortedKeys(comps) {
		vals := make([]string, len(sts))
		same := true
		for i, s := range sts {
			vals[i] = un.get(s, c)
			if vals[i] != vals[0] {
				same = false
			}
		}
		if same {
			out.heap[c] = vals[0]
			continue
		}
		t := vals[len(sts)-1]
		for i := len(sts) - 2; i >= 0; i-- {
			t = ite(sts[i].guard, vals[i], t)
		}
		n := un.u.freshConst(c+"@m", un.compSort[c])
		un.addFact(eq(n, t))
		out.heap[c] = n
	}
	return out
}

func (un *Unit) mergeVals(sts []*State, vals []Val, t types.Type) Val {
	if len(vals) == 1 {
		return vals[0]
	}
	same := true
	for _, v := range vals {
		if v.t != vals[0].t || v.place != vals[0].place || v.fn != vals[0].fn {
			same = false
		}
	}
	if same {
		return vals[0]
	}
	if vals[0].tuple != nil {
		out := Val{typ: t}
		tt := t.(*types.Tuple)
		for i := range vals[0].tuple {
			var col []Val
			for _, v := range vals {
				col = append(col, v.tuple[i])
			}
			out.tuple = append(out.tuple, un.mergeVals(sts, col, tt.At(i).Type()))
		}
		return out
	}
	for _, v := range vals {
		if v.place != nil {
			un.outside = "phi of pointers to distinct non-struct locations"
		}
	}
	term := vals[len(vals)-1].t
	for i := len(vals) - 2; i >= 0; i-- {
		term = ite(sts[i].guard, vals[i].t, term)
	}
	if len(term) > 80 {
		n := un.u.freshConst("phi", un.u.sortOf(t))
		un.addFact(eq(n, term))
		term = n
	}
	out := Val{t: term, typ: t}
	// keep static function identity if all agree
	allFn := true
	for _, v := range vals {
		if v.fn != vals[0].fn {
			allFn = false
		}
	}
	if allFn {
		out.fn, out.binds = vals[0].fn, vals[0].binds
	}
	return out
}

// execFunc runs the body of fr.fn from state st. It returns the merged exit state and results.
func (un *Unit) execFunc(fr *Frame, st *State) ([]Val, *State) {
	fn := fr.fn
	if fn.Blocks == nil {
		un.outside = "no body for " + fn.String()
		return nil, st
	}
	loops := findLoops(fn)
	headerLoop := map[*ssa.BasicBlock]*loopInfo{}
	for _, li := range loops {
		headerLoop[li.header] = li
		li.left = len(li.body)
		if fr.contract != nil {
			for _, cl := range fr.contract.Clauses {
				if cl.Kind == "loopinv" && cl.Loop == li.ordinal {
					li.invs = append(li.invs, cl)
				}
			}
		}
	}
	innermost := func(b *ssa.BasicBlock) *loopInfo {
		var best *loopInfo
		for _, li := range loops {
			if li.body[b] && (best == nil || len(li.body) < len(best.body)) {
				best = li
			}
		}
		return best
	}
	// incoming released edges per block
	incoming := map[*ssa.BasicBlock][]*pendingEdge{}
	resolved := map[*ssa.BasicBlock]int{} // number of non-back-edge preds accounted for
	needed := map[*ssa.BasicBlock]int{}
	for _, b := range fn.Blocks {
		if b == fn.Recover {
			continue
		}
		n := 0
		for _, p := range b.Preds {
			if b.Dominates(p) {
				continue // back-edge
			}
			n++
		}
		needed[b] = n
	}
	done := map[*ssa.BasicBlock]bool{}
	var rets []retRec

	var release func(e *pendingEdge)
	var finalize func(li *loopInfo)
	accountEdge := func(to *ssa.BasicBlock) { resolved[to]++ }

	release = func(e *pendingEdge) {
		if len(e.loops) > 0 {
			li := e.loops[0]
			li.exits = append(li.exits, e)
			return
		}
		if e.st != nil {
			incoming[e.to] = append(incoming[e.to], e)
		}
		accountEdge(e.to)
	}

	blockDone := func(b *ssa.BasicBlock) {
		done[b] = true
		for _, li := range loops {
			if li.body[b] {
				li.left--
			}
		}
		// finalize loops innermost first
		for {
			var fin *loopInfo
			for _, li := range loops {
				if li.left == 0 && li.layer != "done" && (fin == nil || len(li.body) < len(fin.body)) {
					fin = li
				}
			}
			if fin == nil {
				break
			}
			finalize(fin)
		}
	}

	finalize = func(li *loopInfo) {
		layer := li.layer
		li.layer = "done"
		if li.pre == nil {
			// loop never reached
			for _, e := range li.exits {
				e.loops = e.loops[1:]
				release(e)
			}
			return
		}
		// modified set
		mod := map[string]bool{}
		for _, bs := range li.backs {
			for c, v := range bs.heap {
				if v != un.versionName(c, layer) {
					mod[c] = true
				}
			}
		}
		for _, e := range li.exits {
			if e.st == nil {
				continue
			}
			for c, v := range e.st.heap {
				if v != un.versionName(c, layer) && e.st.base == layer {
					// a comp changed on an exit path only is not "modified by the loop" for the
					// invariant, but the exit state keeps its own value; nothing to do
					_ = v
				}
			}
		}
		// frame facts for unmodified comps materialised in this layer
		for i := 0; i < len(un.layers[layer]); i++ { // un.layers may grow while we iterate (pre.get materialises)
			c := un.layers[layer][i]
			if !mod[c] {
				un.addFactAt(eq(un.versionName(c, layer), un.get(li.pre, c)), li.cutIdx)
			}
		}
		// loop frame invariant: locations outside the function's modifies set keep their entry values
		_, noFrame := map[string]string{}["x"]
		if un.contract != nil {
			_, noFrame = un.contract.Opts["no-frame"]
		}
		if un.contract != nil && !noFrame {
			for _, c := range sortedKeys(mod) {
				hv := un.versionName(c, layer)
				if !un.u.declared[hv] {
					un.u.declare(hv, un.compSort[c])
				}
				f := un.frameFormula(c, hv)
				if f == "" {
					continue
				}
				un.addFactAt(f, li.cutIdx)
				if g := un.frameFormula(c, un.get(li.pre, c)); g != "" {
					un.oblige(li.pre, "frame", fmt.Sprintf("%s/loop%d/frame-entry:%s", funcKey(fr.fn), li.ordinal, c), nil, g, li.header.Instrs[0].Pos(), "loop frame invariant on entry: "+c)
				}
				for _, bs := range li.backs {
					if g := un.frameFormula(c, un.get(bs, c)); g != "" {
						un.oblige(bs, "frame", fmt.Sprintf("%s/loop%d/frame-preserved:%s", funcKey(fr.fn), li.ordinal, c), nil, g, li.header.Instrs[0].Pos(), "loop frame invariant preserved: "+c)
					}
				}
			}
		}
		// rewrite exit states back into the enclosing layer
		for _, e := range li.exits {
			if e.st != nil && e.st.base == layer {
				ns := &State{guard: e.st.guard, heap: map[string]string{}, base: li.pre.base}
				for c, v := range li.pre.heap {
					ns.heap[c] = v
				}
				for c := range mod {
					ns.heap[c] = un.versionName(c, layer)
					if !un.u.declared[ns.heap[c]] {
						un.u.declare(ns.heap[c], un.compSort[c])
					}
				}
				for c, v := range e.st.heap {
					if mod[c] || v != un.versionName(c, layer) {
						ns.heap[c] = v
					}
				}
				e.st = ns
			}
			e.loops = e.loops[1:]
			release(e)
		}
	}

	// emit an edge from b to succ with state es
	emit := func(b, succ *ssa.BasicBlock, es *State) {
		if succ.Dominates(b) {
			// back-edge to loop header succ
			li := headerLoop[succ]
			if es != nil && li != nil {
				un.checkLoopInv(fr, li, b, es, false)
				li.backs = append(li.backs, es)
			}
			return
		}
		e := &pendingEdge{from: b, to: succ, st: es}
		// loops exited: those containing b but not succ, innermost first
		var ex []*loopInfo
		for _, li := range loops {
			if li.body[b] && !li.body[succ] {
				ex = append(ex, li)
			}
		}
		sort.Slice(ex, func(i, j int) bool { return len(ex[i].body) < len(ex[j].body) })
		e.loops = ex
		release(e)
	}

	entry := fn.Blocks[0]
	incoming[entry] = []*pendingEdge{{to: entry, st: st}}

	for {
		// pick a ready block: prefer blocks inside the innermost unfinished loop (lowest index otherwise)
		var pick *ssa.BasicBlock
		for _, b := range fn.Blocks {
			if b == fn.Recover || done[b] {
				continue
			}
			if resolved[b] >= needed[b] {
				if pick == nil {
					pick = b
				}
			}
		}
		if pick == nil {
			break
		}
		b := pick
		ins := incoming[b]
		if len(ins) == 0 {
			// unreachable
			for _, s := range b.Succs {
				emit(b, s, nil)
			}
			blockDone(b)
			continue
		}
		var sts []*State
		for _, e := range ins {
			sts = append(sts, e.st)
		}
		cur := un.mergeStates(sts)
		// phis
		li := headerLoop[b]
		if li != nil {
			// bind phis to entry values for the invariant check on entry
			for _, in := range b.Instrs {
				phi, ok := in.(*ssa.Phi)
				if !ok {
					break
				}
				var vals []Val
				for _, e := range ins {
					vals = append(vals, un.phiOperand(fr, phi, e.from, b))
				}
				un.bind(fr, phi, un.mergeVals(sts, vals, phi.Type()))
			}
			li.pre = cur.clone()
			un.checkLoopInvEntry(fr, li, cur)
			// cut: new layer, havoc phis, assume invariant
			un.layerN++
			li.layer = fmt.Sprintf("L%d", un.layerN)
			li.cutIdx = len(un.facts)
			un.addFact("true") // placeholder so that cutIdx is a real index
			un.facts = append(un.facts, Fact{T: "true", At: len(un.facts)})
			cur = &State{guard: cur.guard, heap: map[string]string{}, base: li.layer}
			// next only grows
			un.addFact("(>= " + un.next(cur) + " " + un.next(li.pre) + ")")
			for _, in := range b.Instrs {
				phi, ok := in.(*ssa.Phi)
				if !ok {
					break
				}
				c := un.u.freshConst(fr.fn.Name()+"."+phiName(phi), un.u.sortOf(phi.Type()))
				un.bind(fr, phi, Val{t: c, typ: phi.Type()})
				un.assume(cur, un.typeFacts(cur, c, phi.Type()))
			}
			un.assumeLoopInv(fr, li, cur)
		} else {
			for _, in := range b.Instrs {
				phi, ok := in.(*ssa.Phi)
				if !ok {
					break
				}
				var vals []Val
				for _, e := range ins {
					vals = append(vals, un.phiOperand(fr, phi, e.from, b))
				}
				un.bind(fr, phi, un.mergeVals(sts, vals, phi.Type()))
			}
		}
		_ = innermost
		// instructions
		alive := true
		for _, in := range b.Instrs {
			if _, ok := in.(*ssa.Phi); ok {
				continue
			}
			switch in := in.(type) {
			case *ssa.If:
				c := un.val(fr, in.Cond).t
				s1 := cur.clone()
				s1.guard = and(cur.guard, c)
				s2 := cur.clone()
				s2.guard = and(cur.guard, not(c))
				if s1.guard == "false" {
					s1 = nil
				}
				if s2.guard == "false" {
					s2 = nil
				}
				emit(b, b.Succs[0], s1)
				emit(b, b.Succs[1], s2)
				alive = false
			case *ssa.Jump:
				emit(b, b.Succs[0], cur)
				alive = false
			case *ssa.Return:
				var vs []Val
				for _, r := range in.Results {
					vs = append(vs, un.val(fr, r))
				}
				rets = append(rets, retRec{cur, vs})
				alive = false
			case *ssa.Panic:
				un.execPanic(fr, cur, in)
				alive = false
			default:
				un.execInstr(fr, cur, in)
				if cur.guard == "false" {
					alive = false
				}
			}
			if !alive {
				break
			}
			if un.outside != "" {
				break
			}
		}
		if alive && un.outside == "" {
			// block without terminator cannot happen
		}
		if un.outside != "" {
			return nil, st
		}
		// if we broke out early because the path died, still account successors
		if cur.guard == "false" {
			for _, s := range b.Succs {
				_ = s
			}
		}
		blockDone(b)
	}
	if len(rets) == 0 {
		// function never returns normally
		dead := st.clone()
		dead.guard = "false"
		var zs []Val
		res := fn.Signature.Results()
		for i := 0; i < res.Len(); i++ {
			zs = append(zs, Val{t: un.zero(res.At(i).Type()), typ: res.At(i).Type()})
		}
		return zs, dead
	}
	if fr.parent == nil {
		un.topRets = rets
	}
	var sts []*State
	for _, r := range rets {
		sts = append(sts, r.st)
	}
	out := un.mergeStates(sts)
	var results []Val
	res := fn.Signature.Results()
	for i := 0; i < res.Len(); i++ {
		var col []Val
		for _, r := range rets {
			col = append(col, r.vals[i])
		}
		results = append(results, un.mergeVals(sts, col, res.At(i).Type()))
	}
	return results, out
}

func phiName(phi *ssa.Phi) string {
	if phi.Comment != "" {
		return phi.Comment
	}
	return phi.Name()
}

func (un *Unit) phiOperand(fr *Frame, phi *ssa.Phi, from, b *ssa.BasicBlock) Val {
	for i, p := range b.Preds {
		if p == from {
			return un.val(fr, phi.Edges[i])
		}
	}
	// entry pseudo-edge
	return un.val(fr, phi.Edges[0])
}
