package main

func cmdCheck(args []string) int { return 2 }
