package main

import (
	"encoding/json"
	"flag"
	"fmt"
	"os"
	"path/filepath"
	"sort"
	"strconv"
	"strings"
	"sync"
	"time"

	"golang.org/x/tools/go/ssa"
)

type unitRun struct {
	key    string
	module string
	un     *Unit
	obls   []*Obl // obligations that belong to the property
}

type lockEntry struct {
	Status string  `json:"status"`
	Solver string  `json:"solver,omitempty"`
	Time   float64 `json:"time_s,omitempty"`
}

type lockFile map[string]map[string]lockEntry // property -> obligation -> entry

func readLock() lockFile {
	lf := lockFile{}
	data, err := os.ReadFile(filepath.Join(verifRoot(), "obligations.lock.json"))
	if err == nil {
		json.Unmarshal(data, &lf)
	}
	return lf
}

type finding struct {
	Status     string `json:"status"` // known | fixed
	Property   string `json:"property"`
	Obligation string `json:"obligation"`
	What       string `json:"what"`
	Commit     string `json:"commit,omitempty"`
}

func readFindings() []finding {
	var out []finding
	data, err := os.ReadFile(filepath.Join(verifRoot(), "known_findings.jsonl"))
	if err != nil {
		return nil
	}
	for _, ln := range strings.Split(string(data), "\n") {
		ln = strings.TrimSpace(ln)
		if ln == "" || strings.HasPrefix(ln, "#") {
			continue
		}
		var f finding
		if json.Unmarshal([]byte(ln), &f) == nil {
			out = append(out, f)
		}
	}
	return out
}

func contractMentions(fc *FuncContract, prop string) bool {
	for _, f := range fc.Facets {
		if f == prop {
			return true
		}
	}
	for _, f := range fc.Safety {
		if f == prop {
			return true
		}
	}
	for _, cl := range fc.Clauses {
		for _, p := range cl.Props {
			if p == prop {
				return true
			}
		}
	}
	return false
}

func oblBelongs(o *Obl, fc *FuncContract, prop string) bool {
	if o.Kind == "cover" {
		return true
	}
	if len(o.Props) > 0 {
		for _, p := range o.Props {
			if p == prop {
				return true
			}
		}
		return false
	}
	// base obligations belong to every facet of the function
	if fc != nil {
		for _, f := range fc.Facets {
			if f == prop {
				return true
			}
		}
	}
	return false
}

// moduleMentions: cheap textual pre-filter so that modules without contracts for the property are not loaded.
func moduleMentions(m module, prop string) bool {
	found := false
	filepath.Walk(filepath.Join(repoRoot(), m.dir), func(path string, info os.FileInfo, err error) error {
		if err == nil && !info.IsDir() && info.Name() == "zz_contracts_verif.go" {
			if data, err := os.ReadFile(path); err == nil && strings.Contains(string(data), prop) {
				found = true
			}
		}
		return nil
	})
	return found
}

type checkResult struct {
	prop       string
	tier       string
	units      []*unitRun
	outside    []string
	loadErr    []string
	funcs      int
	wall       float64
	solver     *Solver
	assumed    map[string]bool
	notes      map[string]bool
	missingFns []string
	retried    int
}

func runProperty(prop, tier string, timeout int) *checkResult {
	res := &checkResult{prop: prop, tier: tier, assumed: map[string]bool{}, notes: map[string]bool{}}
	start := time.Now()
	work := filepath.Join(verifRoot(), ".work", prop)
	os.RemoveAll(work)
	res.solver = newSolver(work, timeout, 16, tier == "thorough")
	var names []string
	for n := range modules {
		names = append(names, n)
	}
	sort.Strings(names)
	var wg sync.WaitGroup
	for _, mn := range names {
		m := modules[mn]
		if !moduleMentions(m, prop) {
			continue
		}
		p, err := loadModule(m, []string{"./..."})
		if err != nil {
			res.loadErr = append(res.loadErr, err.Error())
			continue
		}
		specs, err := loadSpecs(p)
		if err != nil {
			res.loadErr = append(res.loadErr, err.Error())
			continue
		}
		funcs := findFuncs(p)
		var keys []string
		for k, fc := range specs.Funcs {
			if contractMentions(fc, prop) && !fc.Trusted {
				keys = append(keys, k)
			}
		}
		// interface contracts checked against declared implementations (refinement)
		for _, im := range specs.Impls {
			ifaceKey := im.Iface
			if !strings.Contains(ifaceKey, ".") {
				ifaceKey = im.Pkg + "." + ifaceKey
			}
			ty := im.Type
			star := strings.HasPrefix(ty, "*")
			ty = strings.TrimPrefix(ty, "*")
			tpkg := im.Pkg
			if i := strings.Index(ty, "."); i >= 0 {
				tpkg, ty = ty[:i], ty[i+1:]
			}
			for ik, ic := range specs.Ifaces {
				if !strings.HasPrefix(ik, ifaceKey+".") || !contractMentions(ic, prop) {
					continue
				}
				meth := strings.TrimPrefix(ik, ifaceKey+".")
				var mk string
				if star {
					mk = fmt.Sprintf("%s.(*%s).%s", tpkg, ty, meth)
				} else {
					mk = fmt.Sprintf("%s.(%s).%s", tpkg, ty, meth)
				}
				if funcs[mk] == nil {
					// promoted or value-receiver method
					alt := fmt.Sprintf("%s.(%s).%s", tpkg, ty, meth)
					if funcs[alt] != nil {
						mk = alt
					}
				}
				comb := &FuncContract{Key: mk, Pkg: ic.Pkg, Facets: ic.Facets, File: ic.File, Params: map[string]string{}, Opts: map[string]string{}, Safety: ic.Safety}
				comb.Names = append([]string{"this"}, ic.Names...)
				comb.ResNames = ic.ResNames
				comb.Clauses = append(comb.Clauses, ic.Clauses...)
				if own := specs.Funcs[mk]; own != nil {
					comb.Clauses = append(comb.Clauses, own.Clauses...)
					comb.Facets = append(comb.Facets, own.Facets...)
					comb.Safety = append(comb.Safety, own.Safety...)
					for k, v := range own.Params {
						comb.Params[k] = v
					}
					for k, v := range own.Opts {
						comb.Opts[k] = v
					}
					comb.Arith = own.Arith
				}
				// the refinement unit is separate from the method's own contract (which callers of the concrete
				// method use, with its own precise frame): same body, verified against the interface contract too
				if im.Separate {
					comb.implOf = mk
					specs.Funcs[mk+"@"+ifaceKey] = comb
				} else {
					specs.Funcs[mk] = comb
				}
			}
		}
		// closures / functions declared to implement a funcspec are verified against it as well
		for k, fc := range specs.Funcs {
			if fc.Impl == "" || fc.implMerged {
				continue
			}
			fs := specs.FuncSpecs[fc.Impl]
			if fs == nil {
				res.loadErr = append(res.loadErr, k+": unknown funcspec "+fc.Impl)
				continue
			}
			fc.implMerged = true
			fc.Names = fs.Names
			fc.ResNames = fs.ResNames
			fc.Clauses = append(append([]*Clause{}, fs.Clauses...), fc.Clauses...)
			fc.Facets = append(fc.Facets, fs.Facets...)
			for k, v := range fs.Opts {
				if _, has := fc.Opts[k]; !has {
					fc.Opts[k] = v
				}
			}
		}
		keys = keys[:0]
		for k, fc := range specs.Funcs {
			if contractMentions(fc, prop) && !fc.Trusted {
				keys = append(keys, k)
			}
		}
		sort.Strings(keys)
		for _, k := range keys {
			if onlyFilter != "" && !strings.Contains(k, onlyFilter) {
				continue
			}
			fc := specs.Funcs[k]
			fn := funcs[k]
			if fc.implOf != "" {
				fn = funcs[fc.implOf]
			}
			if fn == nil {
				if strings.HasPrefix(fc.File, repoRoot()) {
					res.missingFns = append(res.missingFns, k)
				}
				continue
			}
			un := verifyFunc(p, specs, fn, fc, UnitOpts{Safety: len(fc.Safety) > 0})
			if fc.implOf != "" {
				for _, o := range un.obls {
					if strings.HasPrefix(o.Name, fc.implOf+"/") {
						o.Name = k + o.Name[len(fc.implOf):]
					}
				}
			}
			ur := &unitRun{key: k, module: mn, un: un}
			res.units = append(res.units, ur)
			res.funcs++
			if un.outside != "" {
				res.outside = append(res.outside, k+": "+un.outside)
				continue
			}
			for _, o := range un.obls {
				if oblBelongs(o, fc, prop) {
					ur.obls = append(ur.obls, o)
				}
			}
			for a := range un.assumed {
				res.assumed[a] = true
			}
			for n := range un.notes {
				res.notes[n] = true
			}
			wg.Add(1)
			go func(ur *unitRun) {
				defer wg.Done()
				res.solver.solveAll(ur.un, ur.obls)
			}(ur)
		}
		// wire shapes (structural obligations)
		for _, w := range specs.Wires {
			mine := false
			for _, pp := range w.Props {
				if pp == prop {
					mine = true
				}
			}
			if !mine || p.byName[w.Pkg] == nil || !p.isInitial(w.Pkg) {
				continue
			}
			un := verifyWire(p, specs, w)
			ur := &unitRun{key: "wire " + w.Pkg + "." + w.Type, module: mn, un: un}
			res.units = append(res.units, ur)
			ur.obls = un.obls
			wg.Add(1)
			go func(ur *unitRun) {
				defer wg.Done()
				res.solver.solveAll(ur.un, ur.obls)
			}(ur)
		}
		// lemmas
		for _, l := range specs.Lemmas {
			if l.Axiom {
				continue
			}
			mine := false
			for _, pp := range l.Props {
				if pp == prop {
					mine = true
				}
			}
			if !mine {
				continue
			}
			un := verifyLemma(p, specs, l)
			ur := &unitRun{key: "lemma " + l.Name, module: mn, un: un}
			res.units = append(res.units, ur)
			if un.outside != "" {
				res.outside = append(res.outside, ur.key+": "+un.outside)
				continue
			}
			ur.obls = un.obls
			for a := range un.assumed {
				res.assumed[a] = true
			}
			wg.Add(1)
			go func(ur *unitRun) {
				defer wg.Done()
				res.solver.solveAll(ur.un, ur.obls)
			}(ur)
		}
	}
	wg.Wait()
	// Second chance for everything left undecided: a solver that ran out of time while the machine was busy must not
	// turn into an alarm. The undecided obligations are solved again, few at a time, with three times the time limit.
	var again []*unitRun
	type job struct {
		ur *unitRun
		o  *Obl
	}
	var jobs []job
	knownOpen := map[string]bool{}
	for _, f := range readFindings() {
		if f.Status == "known" && f.Property == prop {
			knownOpen[f.Obligation] = true
		}
	}
	for _, ur := range res.units {
		for _, o := range ur.obls {
			if o.OptionalCover || knownOpen[o.Name] {
				continue
			}
			if o.Status == "unknown" || (o.Status == "failed" && o.Candidate) || (o.Cover && o.Status != "discharged") {
				jobs = append(jobs, job{ur, o})
			}
		}
	}
	_ = again
	if len(jobs) > 0 {
		res.retried = len(jobs)
		save := res.solver.timeout
		res.solver.timeout = 3 * save
		lim := make(chan struct{}, 4)
		var wg2 sync.WaitGroup
		for _, j := range jobs {
			wg2.Add(1)
			go func(j job) {
				defer wg2.Done()
				lim <- struct{}{}
				defer func() { <-lim }()
				prev := *j.o
				j.o.Status, j.o.Output, j.o.Model, j.o.Solver, j.o.Time, j.o.Candidate = "", "", "", "", 0, false
				res.solver.solve(j.ur.un, j.o)
				if j.o.Status != "discharged" && prev.Status == "failed" && j.o.Status != "failed" {
					// keep the candidate counterexample of the first pass
					j.o.Status, j.o.Output, j.o.Model, j.o.Solver, j.o.Candidate, j.o.SmtFile = prev.Status, prev.Output, prev.Model, prev.Solver, prev.Candidate, prev.SmtFile
				}
				j.o.Output += " [second pass, time limit x3]"
			}(j)
		}
		wg2.Wait()
		res.solver.timeout = save
	}
	res.wall = time.Since(start).Seconds()
	return res
}

func slug(s string) string {
	r := sanitize(s)
	r = strings.ReplaceAll(r, "|", "_")
	if len(r) > 150 {
		r = fmt.Sprintf("%s_%x", r[:130], hashStr(s))
	}
	return r
}

func writeReplay(prop string, o *Obl, reason string, smt string) (string, bool) {
	dir := filepath.Join(verifRoot(), "replays", prop)
	os.MkdirAll(dir, 0o755)
	path := filepath.Join(dir, slug(o.Name)+".json")
	model := o.Model
	if len(model) > 20000 {
		model = model[:20000] + "\n...(truncated)"
	}
	rec := map[string]any{
		"property": prop, "obligation": o.Name, "kind": o.Kind, "function": o.Fn, "position": o.Pos, "contract_text": o.Text,
		"outcome": o.Status, "solver": o.Solver, "solver_output": o.Output, "model": model, "reason": reason,
		"smt_query": smt, "replay_outcome": "no-failing-input-found", "candidate_model_only": o.Candidate,
	}
	reproduced := false
	// every scenario filed for this obligation is tried (at most four) until one fails on the real code
	var tried []string
	for i, rm := range findReplayTemplates(o.Name) {
		if i >= 4 {
			break
		}
		rm.model = o.Model
		ro := runReplay(rm, filepath.Join(verifRoot(), ".work", prop, "replay"))
		tried = append(tried, filepath.Base(rm.dir))
		rec["replay_scenario"] = rm.What
		rec["go_test_source"] = ro.Source
		rec["overlay"] = ro.Overlay
		rec["cmd"] = ro.Cmd
		rec["output"] = ro.Output
		if ro.Reproduced {
			rec["replay_outcome"] = "reproduced"
			reproduced = true
			break
		}
		rec["replay_outcome"] = "not-reproduced"
	}
	rec["replay_scenarios_tried"] = tried
	data, _ := json.MarshalIndent(rec, "", " ")
	os.WriteFile(path, data, 0o644)
	return path, reproduced
}

func violationLine(prop, path string, reproduced bool) string {
	if as := os.Getenv("GOCV_REPORT_AS"); as != "" {
		// run as a dependency of another property's check: its proof rests on this obligation
		prop = as
	}
	if reproduced {
		return fmt.Sprintf("VIOLATION property=%s replay=%s", prop, path)
	}
	return fmt.Sprintf("VIOLATION property=%s replay=%s no-failing-input-found", prop, path)
}

func cmdCheck(args []string) int {
	fs := flag.NewFlagSet("check", flag.ExitOnError)
	timeout := fs.Int("timeout", 0, "solver timeout (s); default 10 quick / 60 thorough")
	only := fs.String("only", "", "developer use: restrict to units whose key contains this text")
	verbose := fs.Bool("v", false, "list every obligation")
	doLock := fs.Bool("lock", false, "rewrite the property's section of obligations.lock.json from this run (developer use only)")
	fs.Parse(args)
	rest := fs.Args()
	if len(rest) < 1 {
		fmt.Fprintln(os.Stderr, "usage: gocv check <property> [quick|thorough]")
		return 2
	}
	prop := rest[0]
	tier := "quick"
	if len(rest) > 1 {
		tier = rest[1]
	}
	if t := os.Getenv("VERIF_TIER"); t != "" && len(rest) < 2 {
		tier = t
	}
	seed := 0
	if s := os.Getenv("VERIF_SEED"); s != "" {
		seed, _ = strconv.Atoi(s)
	}
	to := *timeout
	if to == 0 {
		to = 10
		if tier == "thorough" {
			to = 60
		}
	}
	onlyFilter = *only
	if onlyFilter == "" && os.Getenv("GOCV_KEEP_REPLAYS") == "" {
		os.RemoveAll(filepath.Join(verifRoot(), "replays", prop))
	}
	res := runProperty(prop, tier, to)
	if *verbose {
		for _, ur := range res.units {
			for _, o := range ur.obls {
				fmt.Printf("  %-11s %-10s %5.2fs %s\n", o.Status, o.Solver, o.Time, o.Name)
			}
			for n := range ur.un.notes {
				fmt.Printf("     note[%s]: %s\n", ur.key, n)
			}
		}
	}
	lock := readLock()
	findings := readFindings()
	known := map[string]finding{}
	for _, f := range findings {
		if f.Status == "known" && f.Property == prop {
			known[f.Obligation] = f
		}
	}
	toolError := false
	for _, e := range res.loadErr {
		fmt.Println("gocv: LOAD ERROR:", e)
		toolError = true
	}
	expected := lock[prop]
	seen := map[string]bool{}
	var total, discharged, covers, coversOK int
	var violations []string
	var knownHit []string
	var undecided []string
	var samples []any
	newLock := map[string]lockEntry{}
	callCovers := map[string]string{}
	var unreachableReturns []string
	leakSites := 0
	for _, ur := range res.units {
		for _, o := range ur.obls {
			seen[o.Name] = true
			if o.Kind == "cover" && o.OptionalCover {
				callCovers[o.Name] = o.Status
				continue
			}
			if o.Kind == "leak" {
				// a MUST question of the leak sweep: "discharged" means the slice handed to a formatting call is key material
				// on every path that reaches the call - a violation if the call is reachable at all; anything else is silence
				leakSites++
				if o.Status == "discharged" && callCovers[o.Name+"@reach"] == "discharged" {
					smt, _ := os.ReadFile(o.SmtFile)
					path, rep := writeReplay(prop, o, "plaintext key material is handed to a formatting call (log line / error text): the contracts prove the slice is key material on every path reaching the call", string(smt))
					violations = append(violations, violationLine(prop, path, rep))
					fmt.Printf("FAILED %s  key material reaches a formatting call  at %s\n   %s\n", o.Name, o.Pos, o.Text)
					total++
				}
				continue
			}
			if o.Kind == "cover" {
				covers++
				switch o.Status {
				case "discharged":
					coversOK++
				case "failed":
					if strings.Contains(o.Name, "/cover:return") {
						// a single unreachable return site: dead code, or contracts that contradict each other along that
						// path. Reported, and required to be absent on the unchanged tree (tools/regen.sh), but an edit that
						// creates dead code must not turn the check into a tool error.
						fmt.Printf("gocv: note: return site unreachable: %s\n", o.Name)
						unreachableReturns = append(unreachableReturns, o.Name)
						break
					}
					// unsat: the function's preconditions / assumed contracts are contradictory, every proof of it is vacuous
					fmt.Printf("gocv: TOOL ERROR vacuity guard failed: %s (%s)\n", o.Name, o.Output)
					toolError = true
				default:
					fmt.Printf("gocv: note: vacuity guard undecided: %s (%s)\n", o.Name, o.Output)
				}
				newLock[o.Name] = lockEntry{Status: o.Status, Solver: o.Solver, Time: o.Time}
				continue
			}
			if o.Status == "error" {
				fmt.Printf("gocv: TOOL ERROR %s: %s\n", o.Name, o.Output)
				toolError = true
				continue
			}
			if kf, ok := known[o.Name]; ok {
				if o.Status != "discharged" {
					knownHit = append(knownHit, fmt.Sprintf("KNOWN-FINDING: property=%s %s [%s]", prop, kf.What, o.Name))
					continue
				}
				// a listed finding that now discharges: fine, count it normally
			}
			total++
			newLock[o.Name] = lockEntry{Status: o.Status, Solver: o.Solver, Time: o.Time}
			if len(samples) < 6 {
				samples = append(samples, map[string]any{"obligation": o.Name, "kind": o.Kind, "contract": o.Text, "status": o.Status, "solver": o.Solver, "time_s": o.Time, "smt_bytes": fileSize(o.SmtFile)})
			}
			if o.Status == "discharged" {
				discharged++
				continue
			}
			_, wasLocked := expected[o.Name]
			smt, _ := os.ReadFile(o.SmtFile)
			switch {
			case o.Status == "failed" && !(o.Candidate && o.Kind == "safety" && !wasLocked):
				path, rep := writeReplay(prop, o, "solver returned a counterexample (sat) for the negated obligation", string(smt))
				violations = append(violations, violationLine(prop, path, rep))
				fmt.Printf("FAILED %s  %s: sat (%.2f s)  at %s\n   contract: %s\n", o.Name, o.Solver, o.Time, o.Pos, o.Text)
			case wasLocked || o.Kind != "safety":
				path, rep := writeReplay(prop, o, "obligation no longer proved: "+o.Output, string(smt))
				violations = append(violations, violationLine(prop, path, rep))
				fmt.Printf("FAILED %s  undischarged (%s)  at %s\n   contract: %s\n", o.Name, o.Output, o.Pos, o.Text)
			default:
				// a new safety obligation that is merely undischarged raises no alarm - unless a scenario for it
				// replays as a failure on the real code
				if rm := findReplayTemplate(o.Name); rm != nil {
					path, rep := writeReplay(prop, o, "new safety obligation undischarged: "+o.Output, string(smt))
					if rep {
						violations = append(violations, violationLine(prop, path, true))
						fmt.Printf("FAILED %s  undischarged (%s), reproduced by replay  at %s\n", o.Name, o.Output, o.Pos)
						break
					}
				}
				undecided = append(undecided, o.Name+": "+o.Output)
				total--
			}
		}
	}
	// call-site vacuity guards: reachable before the call, contradictory after it
	ccChecked, ccOK := 0, 0
	for name, st := range callCovers {
		if !strings.HasSuffix(name, "@after") {
			continue
		}
		ccChecked++
		before := callCovers[strings.TrimSuffix(name, "@after")+"@before"]
		if st == "failed" && before == "discharged" {
			fmt.Printf("gocv: TOOL ERROR vacuity guard failed: %s: the assumed contract contradicts the call site's context\n", strings.TrimSuffix(name, "@after"))
			toolError = true
		} else {
			ccOK++
		}
	}
	_ = ccOK
	// obligations that used to be proved but are no longer generated
	for name := range expected {
		if onlyFilter != "" {
			break
		}
		if seen[name] || strings.HasSuffix(name, "/cover:exit-reachable") {
			continue
		}
		if _, ok := known[name]; ok {
			continue
		}
		// Only obligations that come from a contract clause (postconditions, loop invariants, lemmas) are required to
		// persist: safety, lockset, lock, monitor, call-site and frame obligations exist per program point, and their
		// number and ordinals legitimately change when the code is edited (they are still checked when generated).
		if !(strings.Contains(name, "/post:") || strings.Contains(name, "/inv-") || strings.HasPrefix(name, "lemma/")) {
			continue
		}
		o := &Obl{Name: name, Kind: "missing", Status: "missing", Output: "obligation in obligations.lock.json was not generated by this run (function gone, left the supported subset, or contract no longer binds)"}
		reason := o.Output
		for _, out := range res.outside {
			if strings.HasPrefix(name, strings.SplitN(out, ":", 2)[0]+"/") {
				reason += "; " + out
			}
		}
		path, rep := writeReplay(prop, o, reason, "")
		violations = append(violations, violationLine(prop, path, rep))
		fmt.Printf("FAILED %s  not generated: %s\n", name, reason)
		total++
	}
	for _, out := range res.outside {
		fmt.Println("OUTSIDE-REACH function=" + out)
	}
	for _, m := range res.missingFns {
		fmt.Println("OUTSIDE-REACH function=" + m + ": contract orphaned (no such function in the tree)")
	}
	if len(res.solver.disagreements) > 0 {
		toolError = true
	}
	fmt.Printf("gocv: property %s (%s): %d functions under contract, %d obligations: %d discharged (%s — %.1f s solver time), %d failed, %d known findings, %d undecided new safety obligations; covers sat %d/%d; wall %.1f s\n",
		prop, tier, res.funcs, total, discharged, backendSummary(res.solver.byBackend), res.solver.totalSecs, len(violations), len(knownHit), len(undecided), coversOK, covers, res.wall)
	for _, k := range knownHit {
		fmt.Println(k)
	}
	for _, v := range violations {
		fmt.Println(v)
	}
	if *doLock {
		lock[prop] = newLock
		data, _ := json.MarshalIndent(lock, "", " ")
		os.WriteFile(filepath.Join(verifRoot(), "obligations.lock.json"), data, 0o644)
		fmt.Println("gocv: lock file section rewritten for", prop)
	}
	// evidence
	var assumptions []string
	for a := range res.assumed {
		assumptions = append(assumptions, a)
	}
	for n := range res.notes {
		assumptions = append(assumptions, "note: "+n)
	}
	assumptions = append(assumptions, standingAssumptions...)
	sort.Strings(assumptions)
	var fnames []string
	for _, ur := range res.units {
		fnames = append(fnames, ur.key)
	}
	var trusted []string
	for a := range res.assumed {
		trusted = append(trusted, a)
	}
	sort.Strings(trusted)
	trusted = append([]string{"gocv VC generator and contract parser (unverified; guarded by the must-fail corpus)", "go/packages + go/ssa (x/tools v0.29.0)", "z3 4.8.12, z3 5.1.0, cvc5 1.0"}, trusted...)
	ev := map[string]any{
		"property_id": prop, "tier": tier, "seed": seed, "level": "proof",
		"coverage": map[string]any{
			"obligations": total, "discharged": discharged,
			"checker_cmd":               fmt.Sprintf("./check %s %s", prop, tier),
			"trusted_base":              trusted,
			"functions_under_contract":  fnames,
			"by_backend":                res.solver.byBackend,
			"solver_time_s":             round2(res.solver.totalSecs),
			"samples":                   samples,
			"covers_sat":                fmt.Sprintf("%d/%d", coversOK, covers),
			"unreachable_return_sites":  unreachableReturns,
			"outside_reach":             res.outside,
			"known_findings":            knownHit,
			"undecided_new_safety":      undecided,
			"format_sinks_examined":     leakSites,
			"bounded":                   []string{},
			"solver_timeout_s":          to,
			"also_runs_checks":          depsOf(prop),
			"second_pass_obligations":   res.retried,
			"all_solvers_must_agree":    tier == "thorough",
			"explanation":               "weakest-precondition VCs generated from the go/ssa form of /repo's working tree against //@ contracts; one SMT query per named obligation, raced on z3 4.8.12, z3 5.1.0, cvc5 1.0 (two configurations)",
		},
		"assumptions": assumptions,
		"wall_s":      round2(res.wall),
		"violations":  len(violations),
	}
	evDir := filepath.Join(verifRoot(), "evidence")
	if d := os.Getenv("GOCV_EVIDENCE_DIR"); d != "" {
		evDir = d // developer runs against seeded changes / scratch copies must not overwrite the committed evidence
	} else if os.Getenv("GOCV_REPO") != "" {
		evDir = filepath.Join(verifRoot(), ".work", "evidence-scratch")
	}
	os.MkdirAll(evDir, 0o755)
	data, _ := json.MarshalIndent(ev, "", " ")
	os.WriteFile(filepath.Join(evDir, prop+".json"), data, 0o644)
	if toolError {
		return 2
	}
	if len(violations) > 0 {
		return 1
	}
	if total == 0 {
		fmt.Println("gocv: TOOL ERROR no obligations generated for", prop)
		return 2
	}
	return 0
}

var onlyFilter string

var standingAssumptions = []string{
	"goroutine interleavings are not modelled (sequential contracts; lock discipline obligations stand in, monitor/ownership soundness is a trusted meta-theorem)",
	"machine integers are mathematical integers in arith-int functions (no overflow obligations); arith-bv functions are exact",
	"bodies of functions outside /repo are replaced by assumed contracts or havoc; reflection, unsafe, cgo/syscalls, finalizers/GC timing, OOM are not modelled",
	"no unsafe aliasing between opaque pointers and struct fields; sequentially consistent sync/atomic",
	"go/appencryption builds against /repo/go/securememory (its go.work pulls in cmd/example, whose replace directive applies to the workspace); server/go builds against the module-cache copies appencryption@v0.7.1 and securememory@v0.1.6, so what is proved about /repo/go/appencryption reaches the sidecar only as assumed interface contracts",
}

func backendSummary(m map[string]int) string {
	var ks []string
	for k := range m {
		ks = append(ks, k)
	}
	sort.Strings(ks)
	var parts []string
	for _, k := range ks {
		parts = append(parts, fmt.Sprintf("%s %d", k, m[k]))
	}
	return strings.Join(parts, ", ")
}

func round2(f float64) float64 { return float64(int(f*100+0.5)) / 100 }

func fileSize(p string) int64 {
	if fi, err := os.Stat(p); err == nil {
		return fi.Size()
	}
	return 0
}

var _ = ssa.BuilderMode(0)

// depsOf: the checks ./check <prop> runs after the property's own obligations (deps.json): violations found there are
// reported as violations of prop.
func depsOf(prop string) []string {
	data, err := os.ReadFile(filepath.Join(verifRoot(), "deps.json"))
	if err != nil {
		return []string{}
	}
	var m map[string]any
	if json.Unmarshal(data, &m) != nil {
		return []string{}
	}
	out := []string{}
	if l, ok := m[prop].([]any); ok {
		for _, x := range l {
			if s, ok := x.(string); ok {
				out = append(out, s)
			}
		}
	}
	return out
}
