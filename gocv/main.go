package main

import (
	"flag"
	"fmt"
	"os"
	"path/filepath"
	"sort"
	"strings"

	"golang.org/x/tools/go/ssa"
	"golang.org/x/tools/go/ssa/ssautil"
)

func verifRoot() string {
	if r := os.Getenv("GOCV_VERIF"); r != "" {
		return r
	}
	return "/verif"
}

func loadSpecs(p *Prog) (*Specs, error) {
	sp := newSpecs()
	// every contract file of the module, whatever packages were loaded with syntax
	var ds []string
	filepath.Walk(filepath.Join(repoRoot(), p.mod.dir), func(path string, info os.FileInfo, err error) error {
		if err == nil && !info.IsDir() && info.Name() == "zz_contracts_verif.go" {
			ds = append(ds, filepath.Dir(path))
		}
		return nil
	})
	sort.Strings(ds)
	for _, d := range ds {
		if err := sp.loadDir(d, "zz_contracts_verif.go"); err != nil {
			return nil, err
		}
	}
	// package aliases declared by contract files: directory -> import path
	for _, pk := range p.pkgs {
		if len(pk.GoFiles) == 0 {
			continue
		}
		if a, ok := dirAliases[filepath.Dir(pk.GoFiles[0])]; ok {
			pkgAliases[pk.PkgPath] = a
		}
	}
	for _, sp2 := range p.ssaPkgs {
		if sp2 != nil {
			p.byName[pkgKey(sp2.Pkg)] = sp2
		}
	}
	p.byKey = nil
	if err := sp.loadDir(filepath.Join(verifRoot(), "contracts", "assumed"), "*.spec"); err != nil {
		return nil, err
	}
	return sp, nil
}

// findFuncs maps contract keys to SSA functions (including generic origins and closures).
func findFuncs(p *Prog) map[string]*ssa.Function {
	out := p.allFuncs()
	for fn := range ssautil.AllFunctions(p.prog) {
		f := fn
		if f.Origin() != nil {
			f = f.Origin()
		}
		if f.Blocks == nil || f.Synthetic != "" {
			continue
		}
		if !p.isRepoFunc(f) {
			continue
		}
		k := funcKey(f)
		if _, ok := out[k]; !ok {
			out[k] = f
		}
	}
	return out
}

func cmdUnit(args []string) int {
	fs := flag.NewFlagSet("unit", flag.ExitOnError)
	safety := fs.Bool("safety", false, "generate safety obligations")
	timeout := fs.Int("timeout", 10, "solver timeout (s)")
	dump := fs.Bool("dump", false, "print SMT of failed obligations")
	pat := fs.String("pkgs", "./...", "package patterns (comma separated)")
	fs.Parse(args)
	rest := fs.Args()
	if len(rest) < 2 {
		fmt.Fprintln(os.Stderr, "usage: gocv unit [flags] <module> <funcKey>...")
		return 2
	}
	m, ok := modules[rest[0]]
	if !ok {
		fmt.Fprintln(os.Stderr, "unknown module", rest[0])
		return 2
	}
	p, err := loadModule(m, strings.Split(*pat, ","))
	if err != nil {
		fmt.Fprintln(os.Stderr, err)
		return 2
	}
	specs, err := loadSpecs(p)
	if err != nil {
		fmt.Fprintln(os.Stderr, err)
		return 2
	}
	funcs := findFuncs(p)
	sv := newSolver(filepath.Join(verifRoot(), ".work", "unit"), *timeout, 16, false)
	rc := 0
	for _, key := range rest[1:] {
		fn := funcs[key]
		if fn == nil {
			fmt.Println("no such function:", key)
			var near []string
			for k := range funcs {
				if strings.Contains(k, strings.TrimLeft(key[strings.LastIndex(key, ".")+1:], "()*")) {
					near = append(near, k)
				}
			}
			sort.Strings(near)
			fmt.Println("  candidates:", near)
			rc = 2
			continue
		}
		fc := specs.Funcs[key]
		un := verifyFunc(p, specs, fn, fc, UnitOpts{Safety: *safety})
		if un.outside != "" {
			fmt.Printf("OUTSIDE-REACH function=%s reason=%s\n", key, un.outside)
			for n := range un.notes {
				fmt.Println("  note:", n)
			}
			rc = 2
			continue
		}
		sv.solveAll(un, un.obls)
		for _, o := range un.obls {
			fmt.Printf("%-11s %-8s %5.2fs %s  [%s] %s\n", o.Status, o.Solver, o.Time, o.Name, strings.Join(o.Props, ","), o.Pos)
			if o.Status != "discharged" {
				rc = 1
				fmt.Printf("    %s\n    smt: %s\n", firstLines(o.Output, 2), o.SmtFile)
				if *dump {
					fmt.Println(un.smtFor(o, true))
				}
			}
		}
		for n := range un.notes {
			fmt.Println("  note:", n)
		}
	}
	return rc
}

func main() {
	if len(os.Args) < 2 {
		fmt.Fprintln(os.Stderr, "usage: gocv unit|check|lock|selftest ...")
		os.Exit(2)
	}
	switch os.Args[1] {
	case "unit":
		os.Exit(cmdUnit(os.Args[2:]))
	case "check":
		os.Exit(cmdCheck(os.Args[2:]))
	case "funcs":
		os.Exit(cmdFuncs(os.Args[2:]))
	case "addnames":
		os.Exit(cmdAddNames(os.Args[2:]))
	case "replay":
		os.Exit(cmdReplay(os.Args[2:]))
	default:
		fmt.Fprintln(os.Stderr, "unknown command", os.Args[1])
		os.Exit(2)
	}
}
