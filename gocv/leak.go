package main

import (
	"fmt"
	"go/token"
	"go/types"
	"regexp"
	"strconv"

	"golang.org/x/tools/go/ssa"
)

// Formatting sinks: functions that turn their variadic arguments into text (log lines, error texts). The leak sweep
// (property C03: no plaintext key material in a log line or error text) looks at every argument packed for such a
// call: a byte slice handed over directly, or a field of a struct (pointer) handed over. For each such slice it
// generates a *must* question - "is this slice known to be key material (ghost plain / keyof) on every path that
// reaches the call?" - next to a reachability cover. Only "yes, and the call is reachable" is a violation: a byte slice
// the contracts say nothing about (ciphertext, ids) raises no alarm.
var formatSinks = map[string]bool{
	"fmt.Sprintf": true, "fmt.Errorf": true, "fmt.Sprint": true, "fmt.Sprintln": true, "fmt.Fprintf": true, "fmt.Printf": true,
	"fmt.Println": true, "fmt.Print": true, "fmt.Fprint": true, "fmt.Fprintln": true,
	"github.com/pkg/errors.Errorf": true, "github.com/pkg/errors.Wrapf": true, "github.com/pkg/errors.WithMessagef": true,
	"github.com/godaddy/asherah/go/appencryption/pkg/log.Debugf":  true,
	"github.com/godaddy/asherah/go/securememory/log.Debugf":      true,
	"(github.com/godaddy/asherah/go/appencryption/pkg/log.Interface).Debugf": true,
}

var mkIfaceRE = regexp.MustCompile(`^\(mk_iface (\d+) (.+)\)$`)

var leakGoal Expr

func (un *Unit) leakSweep(fr *Frame, st *State, full string, pos token.Pos) {
	if !formatSinks[full] || len(un.curCallArgs) == 0 {
		return
	}
	if g, ok := un.specs.Ghosts["plain"]; !ok || !g.Field {
		return
	}
	sl, ok := un.curCallArgs[len(un.curCallArgs)-1].(*ssa.Slice)
	if !ok {
		return
	}
	al, ok := sl.X.(*ssa.Alloc)
	if !ok || al.Referrers() == nil {
		return
	}
	if leakGoal == nil {
		e, err := parseExpr("plain(arr(b))")
		if err != nil {
			return
		}
		leakGoal = e
	}
	byteSlice := types.NewSlice(types.Typ[types.Byte])
	n := 0
	emit := func(desc, slice string) {
		n++
		un.leakN++
		name := fmt.Sprintf("%s/leak/%s#%d@%s", funcKey(un.fn), sinkName(full), un.leakN, desc)
		sc := &Scope{un: un, vars: map[string]SV{"b": {t: slice, typ: byteSlice}}, cur: st, old: st, pkg: un.pkgOf(fr.fn), fr: fr}
		goal, _ := un.evalSpec(leakGoal, sc)
		if sc.failed != nil {
			return
		}
		nonEmpty := "(> (s_len " + slice + ") 0)"
		un.obls = append(un.obls, &Obl{Name: name + "@reach", Kind: "cover", Guard: "true", Goal: and(st.guard, nonEmpty), NFacts: len(un.facts), Fn: funcKey(un.fn), Cover: true, OptionalCover: true,
			Text: "the formatting call is reachable with a non-empty slice"})
		un.obls = append(un.obls, &Obl{Name: name, Kind: "leak", Props: []string{"C03"}, Guard: and(st.guard, nonEmpty), Goal: goal, NFacts: len(un.facts), Pos: un.posOf(pos), Fn: funcKey(un.fn),
			Text: "MUST question: the byte slice " + desc + " passed to " + sinkName(full) + " is key material (plain / keyof) on every path reaching the call"})
	}
	var fields func(desc string, t types.Type, get func(i int) string, depth int)
	fields = func(desc string, t types.Type, get func(i int) string, depth int) {
		stt, ok := t.Underlying().(*types.Struct)
		if !ok || depth > 2 {
			return
		}
		for i := 0; i < stt.NumFields(); i++ {
			ft := stt.Field(i).Type()
			if s, ok := ft.Underlying().(*types.Slice); ok && isByte(s.Elem()) {
				emit(desc+"."+stt.Field(i).Name(), get(i))
			}
		}
	}
	for _, ref := range *al.Referrers() {
		ia, ok := ref.(*ssa.IndexAddr)
		if !ok || ia.Referrers() == nil {
			continue
		}
		idx := "?"
		if c, ok := ia.Index.(*ssa.Const); ok {
			idx = c.Value.ExactString()
		}
		for _, r2 := range *ia.Referrers() {
			sto, ok := r2.(*ssa.Store)
			if !ok {
				continue
			}
			v := un.val(fr, sto.Val)
			m := mkIfaceRE.FindStringSubmatch(v.t)
			if m == nil {
				continue
			}
			tag, _ := strconv.Atoi(m[1])
			payload := m[2]
			t := typeTagTypes[tag]
			if t == nil {
				continue
			}
			desc := "arg" + idx
			switch tt := t.Underlying().(type) {
			case *types.Slice:
				if isByte(tt.Elem()) {
					emit(desc, sel(un.get(st, un.boxComp(t)), payload))
				}
			case *types.Pointer:
				if isStructType(tt.Elem()) && flatOrNested(tt.Elem()) {
					et := tt.Elem()
					fields(desc, et, func(i int) string {
						c, _ := un.fieldComp(et, i)
						return sel(un.get(st, c), payload)
					}, 1)
				}
			case *types.Struct:
				boxed := sel(un.get(st, un.boxComp(t)), payload)
				dt := un.u.sortOf(t)
				fields(desc, t, func(i int) string { return "(" + un.u.fieldSel(dt, i) + " " + boxed + ")" }, 1)
			}
		}
	}
	_ = n
}

func flatOrNested(t types.Type) bool { return true }

// sinkName: pkg.Func of a formatting function given by its full path
func sinkName(full string) string {
	for i := len(full) - 1; i >= 0; i-- {
		if full[i] == '/' {
			return full[i+1:]
		}
	}
	return full
}
