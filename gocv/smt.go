package main

// SMT-side vocabulary: sorts for Go types, heap components, term helpers.

import (
	"fmt"
	"go/types"
	"sort"
	"strings"
)

// Universe holds declarations shared by all obligations of one unit (function under verification).
type Universe struct {
	prog      *Prog
	decls     []string // in order
	declared  map[string]bool
	dtDecls   []string // datatype declarations, in dependency order
	dtSeen    map[string]bool
	structOf  map[string]*types.Struct // datatype sort -> struct
	structNm  map[string]string        // datatype sort -> printable Go name
	fresh     int
	bv        bool // arith bv mode
	usesStr   bool
	usesQuant bool
	tparams   map[string]bool
}

func newUniverse(p *Prog) *Universe {
	return &Universe{prog: p, declared: map[string]bool{}, dtSeen: map[string]bool{}, structOf: map[string]*types.Struct{},
		structNm: map[string]string{}, tparams: map[string]bool{}}
}

func (u *Universe) declare(name, sort string) {
	if u.declared[name] {
		return
	}
	u.declared[name] = true
	u.decls = append(u.decls, fmt.Sprintf("(declare-const %s %s)", name, sort))
}

func (u *Universe) declareFun(name string, args []string, res string) {
	if u.declared[name] {
		return
	}
	u.declared[name] = true
	u.decls = append(u.decls, fmt.Sprintf("(declare-fun %s (%s) %s)", name, strings.Join(args, " "), res))
}

func (u *Universe) declareRaw(key, text string) {
	if u.declared[key] {
		return
	}
	u.declared[key] = true
	u.decls = append(u.decls, text)
}

func (u *Universe) freshName(prefix string) string {
	u.fresh++
	return fmt.Sprintf("%s!%d", sanitize(prefix), u.fresh)
}

func (u *Universe) freshConst(prefix, sort string) string {
	n := "|" + u.freshName(prefix) + "|"
	u.declare(n, sort)
	return n
}

func sanitize(s string) string {
	var sb strings.Builder
	for _, c := range s {
		switch {
		case c >= 'a' && c <= 'z', c >= 'A' && c <= 'Z', c >= '0' && c <= '9', c == '_', c == '.', c == '$', c == '@', c == '#', c == '-', c == '!':
			sb.WriteRune(c)
		case c == '*':
			sb.WriteString("ptr_")
		case c == '[':
			sb.WriteString("_L")
		case c == ']':
			sb.WriteString("R_")
		case c == '/':
			sb.WriteString(".")
		default:
			sb.WriteRune('_')
		}
	}
	return sb.String()
}

// special named types modelled as integers
func specialIntType(t types.Type) (string, bool) {
	n, ok := types.Unalias(t).(*types.Named)
	if !ok || n.Obj().Pkg() == nil {
		return "", false
	}
	full := n.Obj().Pkg().Path() + "." + n.Obj().Name()
	switch full {
	case "sync.Mutex", "sync.RWMutex", "sync.Once", "sync.WaitGroup", "sync.Cond",
		"sync/atomic.Int64", "sync/atomic.Int32", "sync/atomic.Uint32", "sync/atomic.Uint64", "sync/atomic.Bool",
		"time.Time":
		return full, true
	}
	return "", false
}

func (u *Universe) intSort(t types.Type) string {
	if !u.bv {
		return "Int"
	}
	return fmt.Sprintf("(_ BitVec %d)", intWidth(t))
}

func intWidth(t types.Type) int {
	if b, ok := t.Underlying().(*types.Basic); ok {
		switch b.Kind() {
		case types.Int8, types.Uint8:
			return 8
		case types.Int16, types.Uint16:
			return 16
		case types.Int32, types.Uint32:
			return 32
		default:
			return 64
		}
	}
	return 64
}

func isUnsigned(t types.Type) bool {
	if b, ok := t.Underlying().(*types.Basic); ok {
		return b.Info()&types.IsUnsigned != 0
	}
	return false
}

func isInteger(t types.Type) bool {
	if b, ok := t.Underlying().(*types.Basic); ok {
		return b.Info()&types.IsInteger != 0
	}
	return false
}

// sortOf maps a Go type to an SMT sort.
func (u *Universe) sortOf(t types.Type) string {
	t = types.Unalias(t)
	if _, ok := specialIntType(t); ok {
		return "Int"
	}
	if tp, ok := t.(*types.TypeParam); ok {
		name := "TP_" + sanitize(tp.Obj().Name())
		if !u.tparams[name] {
			u.tparams[name] = true
			u.dtDecls = append(u.dtDecls, fmt.Sprintf("(declare-sort %s 0)", name))
		}
		return name
	}
	switch ut := t.Underlying().(type) {
	case *types.Basic:
		switch {
		case ut.Info()&types.IsBoolean != 0:
			return "Bool"
		case ut.Info()&types.IsInteger != 0:
			return u.intSort(t)
		case ut.Info()&types.IsString != 0:
			u.usesStr = true
			return "String"
		case ut.Info()&types.IsFloat != 0:
			return "Real"
		case ut.Kind() == types.UnsafePointer:
			return "Int"
		case ut.Kind() == types.UntypedNil:
			return "Int"
		}
		return "Int"
	case *types.Pointer, *types.Map, *types.Chan, *types.Signature:
		return "Int"
	case *types.Slice:
		return "g_Slice"
	case *types.Interface:
		return "g_Iface"
	case *types.Array:
		return fmt.Sprintf("(Array Int %s)", u.sortOf(ut.Elem()))
	case *types.Struct:
		return u.structSort(t, ut)
	case *types.Tuple:
		return "g_Tuple"
	}
	return "Int"
}

func typeName(t types.Type) string {
	t = types.Unalias(t)
	switch tt := t.(type) {
	case *types.Named:
		n := tt.Obj().Name()
		if tt.Obj().Pkg() != nil {
			n = pkgKey(tt.Obj().Pkg()) + "." + n
		}
		if ta := tt.TypeArgs(); ta != nil && ta.Len() > 0 {
			var as []string
			for i := 0; i < ta.Len(); i++ {
				as = append(as, typeName(ta.At(i)))
			}
			n += "[" + strings.Join(as, ",") + "]"
		}
		return n
	case *types.Pointer:
		return "*" + typeName(tt.Elem())
	case *types.Slice:
		return "[]" + typeName(tt.Elem())
	case *types.TypeParam:
		return tt.Obj().Name()
	}
	return t.String()
}

func (u *Universe) structSort(t types.Type, st *types.Struct) string {
	name := "S_" + sanitize(typeName(t))
	if _, isNamed := types.Unalias(t).(*types.Named); !isNamed {
		name = "S_anon_" + sanitize(st.String())
	}
	if u.dtSeen[name] {
		return name
	}
	u.dtSeen[name] = true
	u.structOf[name] = st
	u.structNm[name] = typeName(t)
	var fields []string
	for i := 0; i < st.NumFields(); i++ {
		f := st.Field(i)
		fields = append(fields, fmt.Sprintf("(%s %s)", u.fieldSel(name, i), u.sortOf(f.Type())))
	}
	if len(fields) == 0 {
		u.dtDecls = append(u.dtDecls, fmt.Sprintf("(declare-datatypes ((%s 0)) (((mk_%s))))", name, name))
	} else {
		u.dtDecls = append(u.dtDecls, fmt.Sprintf("(declare-datatypes ((%s 0)) (((mk_%s %s))))", name, name, strings.Join(fields, " ")))
	}
	return name
}

func (u *Universe) fieldSel(dt string, i int) string {
	return fmt.Sprintf("%s_f%d", dt, i)
}

// typeKey is a stable, printable key for a struct type used in heap component names.
func typeKey(t types.Type) string {
	t = types.Unalias(t)
	if n, ok := t.(*types.Named); ok {
		if n.Origin() != nil {
			n = n.Origin()
		}
		if n.Obj().Pkg() != nil {
			return pkgKey(n.Obj().Pkg()) + "." + n.Obj().Name()
		}
		return n.Obj().Name()
	}
	return sanitize(t.String())
}

func arraySort(idx, elem string) string { return fmt.Sprintf("(Array %s %s)", idx, elem) }

// prelude declarations common to every query
func (u *Universe) prelude() string {
	var sb strings.Builder
	sb.WriteString("(declare-datatypes ((g_Slice 0)) (((mk_slice (s_arr Int) (s_off Int) (s_len Int) (s_cap Int)))))\n")
	sb.WriteString("(declare-datatypes ((g_Iface 0)) (((mk_iface (i_tag Int) (i_val Int)))))\n")
	sb.WriteString("(declare-sort g_Tuple 0)\n")
	for _, d := range u.dtDecls {
		sb.WriteString(d + "\n")
	}
	return sb.String()
}

// ---- term helpers ----

func and(xs ...string) string {
	var ys []string
	for _, x := range xs {
		if x == "true" || x == "" {
			continue
		}
		if x == "false" {
			return "false"
		}
		ys = append(ys, x)
	}
	switch len(ys) {
	case 0:
		return "true"
	case 1:
		return ys[0]
	}
	return "(and " + strings.Join(ys, " ") + ")"
}

func or(xs ...string) string {
	var ys []string
	for _, x := range xs {
		if x == "false" || x == "" {
			continue
		}
		if x == "true" {
			return "true"
		}
		ys = append(ys, x)
	}
	switch len(ys) {
	case 0:
		return "false"
	case 1:
		return ys[0]
	}
	return "(or " + strings.Join(ys, " ") + ")"
}

func not(x string) string {
	switch x {
	case "true":
		return "false"
	case "false":
		return "true"
	}
	if strings.HasPrefix(x, "(not ") && strings.HasSuffix(x, ")") && balanced(x[5:len(x)-1]) {
		return x[5 : len(x)-1]
	}
	return "(not " + x + ")"
}

func balanced(s string) bool {
	d := 0
	inBar := false
	for i := 0; i < len(s); i++ {
		switch s[i] {
		case '|':
			inBar = !inBar
		case '(':
			if !inBar {
				d++
			}
		case ')':
			if !inBar {
				d--
				if d < 0 {
					return false
				}
			}
		}
	}
	return d == 0
}

func implies(a, b string) string {
	if a == "true" {
		return b
	}
	if b == "true" || a == "false" {
		return "true"
	}
	return "(=> " + a + " " + b + ")"
}

func eq(a, b string) string {
	if a == b {
		return "true"
	}
	return "(= " + a + " " + b + ")"
}

func ite(c, a, b string) string {
	if c == "true" || a == b {
		return a
	}
	if c == "false" {
		return b
	}
	return "(ite " + c + " " + a + " " + b + ")"
}

// splitTop3 splits "(op a b c)" into its three top-level arguments (for op = store).
func splitStore(t string) (a, i, v string, ok bool) {
	if !strings.HasPrefix(t, "(store ") || !strings.HasSuffix(t, ")") {
		return
	}
	body := t[len("(store ") : len(t)-1]
	var parts []string
	d, start, inBar, inStr := 0, 0, false, false
	for k := 0; k < len(body); k++ {
		c := body[k]
		switch {
		case inStr:
			if c == '"' {
				inStr = false
			}
		case inBar:
			if c == '|' {
				inBar = false
			}
		case c == '"':
			inStr = true
		case c == '|':
			inBar = true
		case c == '(':
			d++
		case c == ')':
			d--
		case c == ' ' && d == 0:
			parts = append(parts, body[start:k])
			start = k + 1
		}
	}
	parts = append(parts, body[start:])
	if len(parts) != 3 {
		return
	}
	return parts[0], parts[1], parts[2], true
}

func sel(a string, idx ...string) string {
	for _, i := range idx {
		// select(store(a, i, v), i) = v
		if sa, si, sv, ok := splitStore(a); ok && si == i {
			_ = sa
			a = sv
			continue
		}
		a = "(select " + a + " " + i + ")"
	}
	return a
}

// store nested: store(a, i1, store(select(a,i1), i2, v))
func sto(a string, v string, idx ...string) string {
	if len(idx) == 1 {
		return "(store " + a + " " + idx[0] + " " + v + ")"
	}
	inner := sto(sel(a, idx[0]), v, idx[1:]...)
	return "(store " + a + " " + idx[0] + " " + inner + ")"
}

func intLit(n int64) string {
	if n < 0 {
		return fmt.Sprintf("(- %d)", -n)
	}
	return fmt.Sprintf("%d", n)
}

func strLit(s string) string {
	var sb strings.Builder
	sb.WriteByte('"')
	for i := 0; i < len(s); i++ {
		c := s[i]
		switch {
		case c == '"':
			sb.WriteString("\"\"")
		case c == '\\':
			sb.WriteString("\\u{5c}")
		case c >= 32 && c < 127:
			sb.WriteByte(c)
		default:
			sb.WriteString(fmt.Sprintf("\\u{%x}", c))
		}
	}
	sb.WriteByte('"')
	return sb.String()
}

func sortedKeys[V any](m map[string]V) []string {
	ks := make([]string, 0, len(m))
	for k := range m {
		ks = append(ks, k)
	}
	sort.Strings(ks)
	return ks
}
