package main

import (
	"fmt"
	"go/constant"
	"go/token"
	"go/types"
	"strings"

	"golang.org/x/tools/go/ssa"
)

var effectFreePkgs = map[string]bool{
	"fmt": true, "strconv": true, "strings": true, "errors": true, "math": true, "math/bits": true, "context": true,
	"runtime": true, "unicode/utf8": true, "unicode": true, "github.com/rcrowley/go-metrics": true, "time": true,
	"github.com/pkg/errors": true, "bytes": true, "sort": true, "encoding/base64": true, "encoding/hex": true,
	"github.com/godaddy/asherah/go/appencryption/pkg/log": true, "github.com/godaddy/asherah/go/securememory/log": true,
	"log": true, "os": true, "runtime/debug": true, "github.com/aws/aws-sdk-go-v2/feature/dynamodb/expression": true, "github.com/aws/aws-sdk-go/service/dynamodb/expression": true, "io": true, "reflect": true, "regexp": true, "encoding/json": true, "hash/fnv": true,
}

func pkgPathOfFunc(fn *ssa.Function) string {
	if fn.Pkg != nil {
		return fn.Pkg.Pkg.Path()
	}
	if fn.Signature.Recv() != nil {
		if n := namedOf(fn.Signature.Recv().Type()); n != nil && n.Obj().Pkg() != nil {
			return n.Obj().Pkg().Path()
		}
	}
	if fn.Object() != nil && fn.Object().Pkg() != nil {
		return fn.Object().Pkg().Path()
	}
	return ""
}

// fullHavoc forgets everything about the heap (except optimised locals and the allocation frontier's monotonicity).
func (un *Unit) fullHavoc(st *State, why string) {
	un.note("full heap havoc: " + why)
	old := st.clone()
	un.layerN++
	st.base = fmt.Sprintf("K%d", un.layerN)
	nh := map[string]string{}
	for c, v := range st.heap {
		if un.compKind[c] == "local" {
			nh[c] = v
		}
	}
	st.heap = nh
	un.addFact("(>= " + un.next(st) + " " + un.next(old) + ")")
	// immutable fields and fields guarded by a lock that is held keep their values
	for c, kind := range un.compKind {
		if strings.HasPrefix(kind, "field:") && un.specs.Immutable[strings.TrimPrefix(kind, "field:")] {
			if _, touched := old.heap[c]; touched || un.u.declared[un.versionName(c, old.base)] {
				st.heap[c] = un.get(old, c)
			}
		}
	}
}

func (un *Unit) havocResults(st *State, sig *types.Signature, hint string) Val {
	res := sig.Results()
	var vs []Val
	for i := 0; i < res.Len(); i++ {
		t := res.At(i).Type()
		c := un.u.freshConst(hint+".r"+fmt.Sprint(i), un.u.sortOf(t))
		un.assume(st, un.typeFacts(st, c, t))
		vs = append(vs, Val{t: c, typ: t})
	}
	switch len(vs) {
	case 0:
		return Val{t: "0"}
	case 1:
		return vs[0]
	}
	return Val{tuple: vs}
}

// havocSliceArgs: contents of slices handed to an unknown callee may have been overwritten.
func (un *Unit) havocSliceArgs(st *State, args []Val, types_ []types.Type) {
	for i, a := range args {
		if i >= len(types_) {
			break
		}
		if sl, ok := types_[i].Underlying().(*types.Slice); ok {
			ec := un.elemComp(sl.Elem())
			fresh := un.u.freshConst("havoc_elems", arraySort("Int", un.u.sortOf(sl.Elem())))
			un.set(st, ec, sto(un.get(st, ec), fresh, "(s_arr "+a.t+")"))
		}
	}
}

func argTypes(c *ssa.CallCommon) []types.Type {
	var ts []types.Type
	for _, a := range c.Args {
		ts = append(ts, a.Type())
	}
	return ts
}

func (un *Unit) execCall(fr *Frame, st *State, c *ssa.CallCommon, instr ssa.Instruction, pos token.Pos) Val {
	var args []Val
	for _, a := range c.Args {
		args = append(args, un.val(fr, a))
	}
	sig := c.Signature()
	if b, ok := c.Value.(*ssa.Builtin); ok {
		return un.execBuiltin(fr, st, b, c, args, pos)
	}
	if c.IsInvoke() {
		recv := un.val(fr, c.Value)
		un.safety(st, fr, "nil-invoke", c.Method.Name(), not(eq("(i_tag "+recv.t+")", "0")), pos)
		return un.invoke(fr, st, recv, c.Value.Type(), c.Method, args, argTypes(c), pos)
	}
	un.curCallArgs = c.Args
	un.callFrame = fr
	if callee := c.StaticCallee(); callee != nil {
		var binds []Val
		if mc, ok := c.Value.(*ssa.MakeClosure); ok {
			for _, b := range mc.Bindings {
				binds = append(binds, un.val(fr, b))
			}
		}
		return un.callStatic(fr, st, callee, binds, args, argTypes(c), pos)
	}
	// dynamic function value
	fv := un.val(fr, c.Value)
	if fv.fn != nil {
		return un.callStatic(fr, st, fv.fn, fv.binds, args, argTypes(c), pos)
	}
	if cl, ok := un.closures[fv.t]; ok && cl.fn != nil {
		return un.callStatic(fr, st, cl.fn, cl.binds, args, argTypes(c), pos)
	}
	// a function-typed parameter of an enclosing (inlining) frame that has a funcspec: same function value
	for f := fr.parent; f != nil; f = f.parent {
		if f.contract == nil {
			continue
		}
		for _, p := range f.fn.Params {
			fsName, has := f.contract.Params[p.Name()]
			if !has || f.env[p].t != fv.t {
				continue
			}
			if fs := un.specs.FuncSpecs[fsName]; fs != nil {
				un.safety(st, fr, "nil-func", p.Name(), not(eq(fv.t, "0")), pos)
				names := append([]string{"this"}, sigNames(sig, fs)...)
				all := append([]Val{{t: fv.t, typ: sig}}, args...)
				return un.applyContract(fr, st, fs, names, sig, all, p.Name(), pos)
			}
		}
	}
	// a function loaded from a package-level variable that a `funcvar` declaration ties to a funcspec
	if ld, ok := c.Value.(*ssa.UnOp); ok && ld.Op == token.MUL {
		if g, ok := ld.X.(*ssa.Global); ok && g.Pkg != nil {
			if fsName, ok := un.specs.FuncVars[pkgKey(g.Pkg.Pkg)+"."+g.Name()]; ok {
				fs := un.specs.FuncSpecs[fsName]
				if fs == nil {
					un.outside = "unknown funcspec " + fsName
					return un.havocResults(st, sig, "call")
				}
				names := append([]string{"this"}, sigNames(sig, fs)...)
				all := append([]Val{{t: fv.t, typ: sig}}, args...)
				return un.applyContract(fr, st, fs, names, sig, all, g.Name(), pos)
			}
		}
	}
	// a function loaded from a struct field that a `funcfield` declaration ties to a funcspec
	if ld, ok := c.Value.(*ssa.UnOp); ok && ld.Op == token.MUL {
		if fa, ok := ld.X.(*ssa.FieldAddr); ok {
			if pt, ok := fa.X.Type().Underlying().(*types.Pointer); ok {
				if n := namedOf(pt.Elem()); n != nil && n.Obj().Pkg() != nil {
					fname := pt.Elem().Underlying().(*types.Struct).Field(fa.Field).Name()
					if fsName, ok := un.specs.FuncFields[pkgKey(n.Obj().Pkg())+"."+n.Obj().Name()+"."+fname]; ok {
						fs := un.specs.FuncSpecs[fsName]
						if fs == nil {
							un.outside = "unknown funcspec " + fsName
							return un.havocResults(st, sig, "call")
						}
						un.safety(st, fr, "nil-func", fname, not(eq(fv.t, "0")), pos)
						names := append([]string{"this"}, sigNames(sig, fs)...)
						all := append([]Val{{t: fv.t, typ: sig}}, args...)
						return un.applyContract(fr, st, fs, names, sig, all, fname, pos)
					}
				}
			}
		}
	}
	// function-typed parameter with a funcspec
	if p, ok := c.Value.(*ssa.Parameter); ok && fr.contract != nil {
		if fsName, ok := fr.contract.Params[p.Name()]; ok {
			fs := un.specs.FuncSpecs[fsName]
			if fs == nil {
				un.outside = "unknown funcspec " + fsName
				return un.havocResults(st, sig, "call")
			}
			un.safety(st, fr, "nil-func", p.Name(), not(eq(fv.t, "0")), pos)
			names := append([]string{"this"}, sigNames(sig, fs)...)
			all := append([]Val{{t: fv.t, typ: sig}}, args...)
			return un.applyContract(fr, st, fs, names, sig, all, p.Name(), pos)
		}
	}
	// a captured function variable of a closure, tied to a funcspec by `param <name> <funcspec>` in the closure's contract
	fvr, isFV := c.Value.(*ssa.FreeVar)
	if ld, ok := c.Value.(*ssa.UnOp); ok && ld.Op == token.MUL {
		// captured by reference: the closure loads the function from the captured cell
		fvr, isFV = ld.X.(*ssa.FreeVar)
	}
	if isFV && fr.contract != nil {
		if fsName, ok := fr.contract.Params[fvr.Name()]; ok {
			fs := un.specs.FuncSpecs[fsName]
			if fs == nil {
				un.outside = "unknown funcspec " + fsName
				return un.havocResults(st, sig, "call")
			}
			un.safety(st, fr, "nil-func", fvr.Name(), not(eq(fv.t, "0")), pos)
			names := append([]string{"this"}, sigNames(sig, fs)...)
			all := append([]Val{{t: fv.t, typ: sig}}, args...)
			return un.applyContract(fr, st, fs, names, sig, all, fvr.Name(), pos)
		}
	}
	if p, ok := c.Value.(*ssa.Parameter); ok {
		un.safety(st, fr, "nil-func", p.Name(), not(eq(fv.t, "0")), pos)
	} else {
		un.safety(st, fr, "nil-func", "funcvalue", not(eq(fv.t, "0")), pos)
	}
	un.fullHavoc(st, "call of unknown function value in "+funcKey(fr.fn))
	un.havocSliceArgs(st, args, argTypes(c))
	return un.havocResults(st, sig, "dyncall")
}

func sigNames(sig *types.Signature, fc *FuncContract) []string {
	if fc != nil && len(fc.Names) > 0 {
		return fc.Names
	}
	var ns []string
	for i := 0; i < sig.Params().Len(); i++ {
		n := sig.Params().At(i).Name()
		if n == "" || n == "_" {
			n = fmt.Sprintf("arg%d", i)
		}
		ns = append(ns, n)
	}
	return ns
}

func ifaceMethodKey(recvT types.Type, m *types.Func) (string, string) {
	// declared interface of the method (handles embedded interfaces)
	if sig, ok := m.Type().(*types.Signature); ok && sig.Recv() != nil {
		if n, ok := types.Unalias(sig.Recv().Type()).(*types.Named); ok && n.Obj().Pkg() != nil {
			return pkgKey(n.Obj().Pkg()) + "." + n.Obj().Name() + "." + m.Name(), n.Obj().Pkg().Path()
		}
	}
	if n, ok := types.Unalias(recvT).(*types.Named); ok && n.Obj().Pkg() != nil {
		return pkgKey(n.Obj().Pkg()) + "." + n.Obj().Name() + "." + m.Name(), n.Obj().Pkg().Path()
	}
	return "?." + m.Name(), ""
}

func (un *Unit) lookupIface(recvT types.Type, m *types.Func) (*FuncContract, string, string) {
	// an instantiation-specific contract first: pkg.Iface[args].Method
	if n, ok := types.Unalias(recvT).(*types.Named); ok && n.TypeArgs() != nil && n.TypeArgs().Len() > 0 && n.Obj().Pkg() != nil {
		k := typeName(n) + "." + m.Name()
		if fc, ok := un.specs.Ifaces[k]; ok {
			return fc, k, n.Obj().Pkg().Path()
		}
	}
	key, path := ifaceMethodKey(recvT, m)
	if fc, ok := un.specs.Ifaces[key]; ok {
		return fc, key, path
	}
	// try the static receiver type's own name (e.g. keyCacher.GetOrLoad when the method comes from an embedded interface)
	if n, ok := types.Unalias(recvT).(*types.Named); ok && n.Obj().Pkg() != nil {
		k2 := pkgKey(n.Obj().Pkg()) + "." + n.Obj().Name() + "." + m.Name()
		if fc, ok := un.specs.Ifaces[k2]; ok {
			return fc, k2, n.Obj().Pkg().Path()
		}
		if path == "" {
			path = n.Obj().Pkg().Path()
		}
	}
	return nil, key, path
}

// devirtualize: when the receiver's dynamic type is syntactically known, call the concrete in-repo method.
func (un *Unit) devirtualize(fr *Frame, st *State, recv Val, m *types.Func, args []Val, ats []types.Type, pos token.Pos) (Val, bool) {
	t := recv.t
	if !strings.HasPrefix(t, "(mk_iface ") {
		return Val{}, false
	}
	rest := strings.TrimSuffix(strings.TrimPrefix(t, "(mk_iface "), ")")
	sp := strings.Index(rest, " ")
	if sp < 0 {
		return Val{}, false
	}
	var tag int
	if _, err := fmt.Sscanf(rest[:sp], "%d", &tag); err != nil || tag == 0 {
		return Val{}, false
	}
	ct, ok := typeTagTypes[tag]
	if !ok {
		return Val{}, false
	}
	payload := rest[sp+1:]
	fn := un.prog.methodFor(ct, m)
	if fn == nil || (fn.Blocks == nil && un.lookupFuncContract(fn) == nil) {
		return Val{}, false
	}
	if !un.prog.isRepoFunc(fn) && un.lookupFuncContract(fn) == nil {
		return Val{}, false
	}
	var rv Val
	switch ct.Underlying().(type) {
	case *types.Pointer, *types.Map, *types.Chan:
		rv = Val{t: payload, typ: ct}
	case *types.Signature:
		rv = Val{t: payload, typ: ct, fn: recv.fn, binds: recv.binds}
	default:
		rv = Val{t: sel2(un.get(st, un.boxComp(ct)), payload), typ: ct}
	}
	all := append([]Val{rv}, args...)
	allT := append([]types.Type{ct}, ats...)
	return un.callStatic(fr, st, fn, nil, all, allT, pos), true
}

func sel2(a, i string) string { return "(select " + a + " " + i + ")" }

func (un *Unit) invoke(fr *Frame, st *State, recv Val, recvT types.Type, m *types.Func, args []Val, ats []types.Type, pos token.Pos) Val {
	sig := m.Type().(*types.Signature)
	if v, ok := un.devirtualize(fr, st, recv, m, args, ats, pos); ok {
		return v
	}
	if v, ok := un.devirtClosed(fr, st, recv, recvT, m, args, ats, pos); ok {
		return v
	}
	fc, key, path := un.lookupIface(recvT, m)
	if fc != nil {
		names := append([]string{"this"}, sigNames(sig, fc)...)
		if len(fc.Names) > 0 {
			names = append([]string{"this"}, fc.Names...)
		}
		all := append([]Val{recv}, args...)
		recv.typ = recvT
		all[0] = recv
		return un.applyContract(fr, st, fc, names, sig, all, key, pos)
	}
	if (m.Name() == "Error" || m.Name() == "String") && sig.Params().Len() == 0 && sig.Results().Len() == 1 {
		un.assumed["error.Error() / Stringer.String() methods are effect-free observers"] = true
		return un.havocResults(st, sig, m.Name())
	}
	if recv.fn != nil {
		// interface wrapping a known function value (e.g. a func type with methods): find the method
		un.note("invoke on statically known func-typed receiver resolved")
	}
	if effectFreePkgs[path] {
		un.note("interface call " + key + " treated as effect-free (allow-listed package), results havoc'd")
		un.havocSliceArgs(st, args, ats)
		return un.havocResults(st, sig, m.Name())
	}
	un.fullHavoc(st, "interface call without contract: "+key)
	un.havocSliceArgs(st, args, ats)
	return un.havocResults(st, sig, m.Name())
}

func (un *Unit) lookupFuncContract(fn *ssa.Function) *FuncContract {
	return un.specs.Funcs[funcKey(fn)]
}

func (un *Unit) callStatic(fr *Frame, st *State, callee *ssa.Function, binds []Val, args []Val, ats []types.Type, pos token.Pos) Val {
	sig := callee.Signature
	full := callee.String()
	if callee.Origin() != nil {
		full = callee.Origin().String()
	}
	un.leakSweep(fr, st, full, pos)
	if v, ok := un.modelCall(fr, st, callee, full, args, ats, pos); ok {
		return v
	}
	fc := un.lookupFuncContract(callee)
	if fc != nil && !un.preOnly {
		if _, noFrame := fc.Opts["no-frame"]; noFrame {
			// an entry-point contract without a checked frame is never assumed at call sites
			fc = nil
		}
	}
	if fc != nil && !fc.Inline {
		names := paramNames(callee, sig, fc)
		if fc.Trusted || !un.prog.isRepoFunc(callee) {
			un.assumed[funcKey(callee)] = true
		}
		// a closure under contract: its captured variables are in scope of its contract
		un.pendingClosure, un.pendingBinds = callee, binds
		v := un.applyContract(fr, st, fc, names, sig, args, funcKey(callee), pos)
		un.pendingClosure, un.pendingBinds = nil, nil
		return v
	}
	if callee.Blocks != nil && un.prog.isRepoFunc(callee) && fr.depth < un.maxDepth && !un.onStack(fr, callee) {
		return un.inline(fr, st, callee, binds, args)
	}
	path := pkgPathOfFunc(callee)
	if effectFreePkgs[path] {
		un.note("call " + funcKey(callee) + " treated as effect-free (allow-listed package), results havoc'd")
		un.havocSliceArgs(st, args, ats)
		return un.havocResults(st, sig, callee.Name())
	}
	un.fullHavoc(st, "call without contract: "+funcKey(callee))
	un.havocSliceArgs(st, args, ats)
	return un.havocResults(st, sig, callee.Name())
}

// onStack: true recursion guard; a function may be re-entered through a callback (WithKeyFunc inside WithKeyFunc), so up to
// three activations are allowed.
func (un *Unit) onStack(fr *Frame, fn *ssa.Function) bool {
	n := 0
	for f := fr; f != nil; f = f.parent {
		if f.fn == fn {
			n++
		}
	}
	return n >= 3
}

func paramNames(fn *ssa.Function, sig *types.Signature, fc *FuncContract) []string {
	if fc != nil && len(fc.Names) > 0 {
		return fc.Names
	}
	var ns []string
	if len(fn.Params) > 0 {
		for i, p := range fn.Params {
			n := p.Name()
			if n == "" || n == "_" {
				n = fmt.Sprintf("arg%d", i)
			}
			ns = append(ns, n)
		}
		return ns
	}
	if sig.Recv() != nil {
		n := sig.Recv().Name()
		if n == "" || n == "_" {
			n = "this"
		}
		ns = append(ns, n)
	}
	return append(ns, sigNames(sig, nil)...)
}

func (un *Unit) newFrame(fn *ssa.Function, parent *Frame) *Frame {
	un.frameN++
	d := 0
	if parent != nil {
		d = parent.depth + 1
	}
	return &Frame{fn: fn, env: map[ssa.Value]Val{}, depth: d, id: un.frameN, parent: parent, calls: map[string]int{}, callRes: map[string][]Val{}, callG: map[string]string{}, callArgs: map[string]map[string]Val{}}
}

func (un *Unit) inline(fr *Frame, st *State, callee *ssa.Function, binds []Val, args []Val) Val {
	nf := un.newFrame(callee, fr)
	for i, p := range callee.Params {
		if i < len(args) {
			a := args[i]
			a.typ = p.Type()
			nf.env[p] = a
		}
	}
	for i, fv := range callee.FreeVars {
		if i < len(binds) {
			nf.env[fv] = binds[i]
		}
	}
	// a contract marked inline may still carry loop invariants for the inlined body
	if fc := un.lookupFuncContract(callee); fc != nil {
		nf.contract = fc
	}
	pre := st.clone()
	var inlFC *FuncContract
	if nf.contract != nil && !nf.contract.Inline && callee != un.fn {
		// a callee whose contract is not applied at call sites (`opt no-frame`: its body is executed in place): what it
		// requires is still this caller's duty
		sc := un.scopeFor(nf, st, st, nil)
		for _, cl := range nf.contract.Clauses {
			if cl.Kind != "requires" {
				continue
			}
			t, _ := un.evalSpec(cl.E, sc)
			name := un.uniqueName(fmt.Sprintf("%s/call-pre/%s:%s", funcKey(un.fn), shortKey(funcKey(callee)), labelOr(cl.Label, "requires")))
			un.oblige(st, "pre", name, cl.Props, t, callee.Pos(), cl.Text)
		}
	}
	if nf.contract != nil && nf.contract.Inline && callee != un.fn {
		inlFC = nf.contract
		// the inlined callee's own (separately proved) contract: its requires are this caller's duty ...
		sc := un.scopeFor(nf, st, st, nil)
		for _, cl := range inlFC.Clauses {
			if cl.Kind != "requires" {
				continue
			}
			t, _ := un.evalSpec(cl.E, sc)
			name := un.uniqueName(fmt.Sprintf("%s/call-pre/%s:%s", funcKey(un.fn), shortKey(funcKey(callee)), labelOr(cl.Label, "requires")))
			un.oblige(st, "pre", name, cl.Props, t, callee.Pos(), cl.Text)
		}
	}
	callG := st.guard
	rets, out := un.execFunc(nf, st)
	if un.outside != "" {
		return Val{t: "0"}
	}
	// execFunc returns a new state object; copy back into st
	st.guard, st.heap, st.base = out.guard, out.heap, out.base
	un.recordInlined(fr, callee, rets, args, callG)
	if inlFC != nil {
		// ... and its ensures, proved for the callee as a unit, are available here as lemmas about this very execution
		sc := un.scopeFor(nf, st, pre, rets)
		for _, cl := range inlFC.Clauses {
			if cl.Kind != "ensures" || cl.Ghost {
				continue
			}
			t, _ := un.evalSpec(cl.E, sc)
			un.assume(st, t)
		}
	}
	switch len(rets) {
	case 0:
		return Val{t: "0"}
	case 1:
		return rets[0]
	}
	return Val{tuple: rets}
}

// recordInlined makes the results and arguments of an inlined call (a callee without a contract, or with a no-frame
// contract that is executed in place) available to ret()/retis()/arg() in the enclosing frames, just as applyContract
// does for calls replaced by their contract. Only named functions are recorded; closures have no stable name.
func (un *Unit) recordInlined(fr *Frame, callee *ssa.Function, rets []Val, args []Val, g string) {
	if callee.Parent() != nil || callee.Signature == nil {
		return
	}
	calleeKey := funcKey(callee)
	last := calleeKey
	if i := strings.LastIndex(calleeKey, "."); i >= 0 {
		last = calleeKey[i+1:]
	}
	rvals := make([]Val, len(rets))
	for i := range rets {
		rvals[i] = rets[i]
		rvals[i].callGuard = g
		if i < callee.Signature.Results().Len() {
			rvals[i].typ = callee.Signature.Results().At(i).Type()
		}
	}
	argRec := map[string]Val{}
	for i, p := range callee.Params {
		if i < len(args) {
			a := args[i]
			a.callGuard = g
			a.typ = p.Type()
			argRec[p.Name()] = a
		}
	}
	if len(callee.Params) == 0 && callee.Signature.Recv() == nil {
		// a function without a built body (standard library): parameter names from the signature
		ps := callee.Signature.Params()
		for i := 0; i < ps.Len() && i < len(args); i++ {
			a := args[i]
			a.callGuard = g
			a.typ = ps.At(i).Type()
			argRec[ps.At(i).Name()] = a
		}
	}
	for f := fr; f != nil; f = f.parent {
		f.calls[calleeKey]++
		o := f.calls[calleeKey]
		f.callRes[fmt.Sprintf("%s#%d", shortKey(calleeKey), o)] = rvals
		f.callRes[fmt.Sprintf("%s#%d", last, o)] = rvals
		f.callArgs[fmt.Sprintf("%s#%d", shortKey(calleeKey), o)] = argRec
		f.callArgs[fmt.Sprintf("%s#%d", last, o)] = argRec
		f.callG[fmt.Sprintf("%s#%d", shortKey(calleeKey), o)] = g
		f.callG[fmt.Sprintf("%s#%d", last, o)] = g
	}
}

func (un *Unit) runDefers(fr *Frame, st *State, in *ssa.RunDefers) {
	for i := len(fr.defers) - 1; i >= 0; i-- {
		d := fr.defers[i]
		if d.instr.Block().Dominates(in.Block()) {
			un.execDeferred(fr, st, d)
			continue
		}
		// conditional: run under flag, skip otherwise
		run := st.clone()
		run.guard = and(st.guard, d.flag)
		skip := st.clone()
		skip.guard = and(st.guard, not(d.flag))
		un.execDeferred(fr, run, d)
		m := un.mergeStates([]*State{run, skip})
		st.guard, st.heap, st.base = m.guard, m.heap, m.base
	}
}

func (un *Unit) execDeferred(fr *Frame, st *State, d deferred) {
	c := &d.instr.Call
	pos := d.instr.Pos()
	if b, ok := c.Value.(*ssa.Builtin); ok {
		un.execBuiltin(fr, st, b, c, d.args, pos)
		return
	}
	if c.IsInvoke() {
		un.safety(st, fr, "nil-invoke", c.Method.Name(), not(eq("(i_tag "+d.fnv.t+")", "0")), pos)
		un.invoke(fr, st, d.fnv, c.Value.Type(), c.Method, d.args, argTypes(c), pos)
		return
	}
	// a deferred Unlock of a lock reached through a pointer field is recognised by its SSA argument, like a direct one
	un.curCallArgs = c.Args
	un.callFrame = fr
	if callee := c.StaticCallee(); callee != nil {
		var binds []Val
		if d.fnv.binds != nil {
			binds = d.fnv.binds
		}
		un.callStatic(fr, st, callee, binds, d.args, argTypes(c), pos)
		return
	}
	if d.fnv.fn != nil {
		un.callStatic(fr, st, d.fnv.fn, d.fnv.binds, d.args, argTypes(c), pos)
		return
	}
	un.fullHavoc(st, "deferred call of unknown function value")
}

func (un *Unit) execBuiltin(fr *Frame, st *State, b *ssa.Builtin, c *ssa.CallCommon, args []Val, pos token.Pos) Val {
	switch b.Name() {
	case "len":
		switch t := c.Args[0].Type().Underlying().(type) {
		case *types.Slice:
			return Val{t: "(s_len " + args[0].t + ")"}
		case *types.Basic:
			return Val{t: "(str.len " + args[0].t + ")"}
		case *types.Map:
			d, _, l := un.mapComps(t)
			// a map of length zero has no keys (the converse, key present => length >= 1, is added at lookups)
			if args[0].t != "0" {
				qk := "qk!" + fmt.Sprint(un.u.fresh)
				un.u.fresh++
				un.u.usesQuant = true
				un.addFact(fmt.Sprintf("(=> (= %s 0) (forall ((%s %s)) (not (select %s %s))))", sel(un.get(st, l), args[0].t), qk, un.u.sortOf(t.Key()), sel(un.get(st, d), args[0].t), qk))
			}
			return Val{t: ite(eq(args[0].t, "0"), "0", sel(un.get(st, l), args[0].t))}
		case *types.Array:
			return Val{t: intLit(t.Len())}
		case *types.Chan:
			r := un.u.freshConst("chanlen", "Int")
			un.addFact("(>= " + r + " 0)")
			return Val{t: r}
		case *types.Pointer:
			if at, ok := t.Elem().Underlying().(*types.Array); ok {
				return Val{t: intLit(at.Len())}
			}
		}
	case "cap":
		switch t := c.Args[0].Type().Underlying().(type) {
		case *types.Slice:
			return Val{t: "(s_cap " + args[0].t + ")"}
		case *types.Array:
			return Val{t: intLit(t.Len())}
		}
	case "append":
		return un.execAppend(fr, st, c, args, pos)
	case "copy":
		return un.execCopy(fr, st, c, args)
	case "delete":
		mt := c.Args[0].Type().Underlying().(*types.Map)
		d, _, l := un.mapComps(mt)
		m, k := args[0].t, args[1].t
		had := and(not(eq(m, "0")), sel(un.get(st, d), m, k))
		un.set(st, l, sto(un.get(st, l), ite(had, "(- "+sel(un.get(st, l), m)+" 1)", sel(un.get(st, l), m)), m))
		un.set(st, d, sto(un.get(st, d), "false", m, k))
		return Val{t: "0"}
	case "ssa:wrapnilchk":
		un.safety(st, fr, "nil-deref", "wrapnilchk", not(eq(args[0].t, "0")), pos)
		return args[0]
	case "print", "println":
		return Val{t: "0"}
	case "min", "max":
		op := "<="
		if b.Name() == "max" {
			op = ">="
		}
		r := args[0].t
		for _, a := range args[1:] {
			r = ite("("+op+" "+r+" "+a.t+")", r, a.t)
		}
		return Val{t: r}
	case "close":
		un.execCloseChan(fr, st, c, args[0], pos)
		return Val{t: "0"}
	case "clear":
	}
	un.outside = "builtin " + b.Name()
	return Val{t: "0"}
}

func (un *Unit) execAppend(fr *Frame, st *State, c *ssa.CallCommon, args []Val, pos token.Pos) Val {
	st0 := c.Args[0].Type().Underlying().(*types.Slice)
	et := st0.Elem()
	a, b := args[0].t, args[1].t
	if isStructType(et) && flatStruct(et) {
		return un.execAppendStructs(st, et, a, b)
	}
	if isStructType(et) {
		// slices of structs with nested struct fields: the result is modelled abstractly - a fresh backing array of the
		// right length whose elements are unconstrained (their contents are not copied in the model)
		arr2 := un.allocRef(st, "append")
		newLen := "(+ (s_len " + a + ") (s_len " + b + "))"
		cap2 := un.u.freshConst("newcap", "Int")
		un.addFact("(>= " + cap2 + " " + newLen + ")")
		un.note("append on a slice of structs: element contents of the result are not tracked")
		return Val{t: "(mk_slice " + arr2 + " 0 " + newLen + " " + cap2 + ")"}
	}
	ec := un.elemComp(et)
	// b is a slice (append(a, b...)) — SSA always passes a slice as the second argument; a string for append([]byte, string...)
	var blen string
	bIsStr := false
	if bt, ok := c.Args[1].Type().Underlying().(*types.Basic); ok && bt.Info()&types.IsString != 0 {
		blen = "(str.len " + b + ")"
		bIsStr = true
	} else {
		blen = "(s_len " + b + ")"
	}
	newLen := "(+ (s_len " + a + ") " + blen + ")"
	fits := "(<= " + newLen + " (s_cap " + a + "))"
	// result: either in place (same array, grows into capacity) or a fresh array
	arr2 := un.allocRef(st, "append")
	res := un.u.freshConst("appended", "g_Slice")
	cap2 := un.u.freshConst("newcap", "Int")
	un.addFact("(>= " + cap2 + " " + newLen + ")")
	un.addFact(eq(res, ite(fits, "(mk_slice (s_arr "+a+") (s_off "+a+") "+newLen+" (s_cap "+a+"))", "(mk_slice "+arr2+" 0 "+newLen+" "+cap2+")")))
	// contents: result[i] = a[i] for i < len(a); result[len(a)+j] = b[j]
	old := un.get(st, ec)
	newArr := un.u.freshConst("elems", arraySort("Int", un.u.sortOf(et)))
	qi := "qi!" + fmt.Sprint(un.u.fresh)
	un.u.usesQuant = true
	srcA := sel(old, "(s_arr "+a+")")
	es := un.u.sortOf(et)
	var srcB string
	if bIsStr {
		un.u.declareFun("g_str_bytes", []string{"String"}, arraySort("Int", "Int"))
		srcB = fmt.Sprintf("(select (g_str_bytes %s) (- %s (s_len %s)))", b, qi, a)
	} else {
		srcB = un.gat(sel(old, "(s_arr "+b+")"), "(s_off "+b+")", fmt.Sprintf("(- %s (s_len %s))", qi, a), es)
	}
	roff := "(s_off " + res + ")"
	newAt := un.gat(newArr, roff, qi, es)
	un.addFact(fmt.Sprintf("(forall ((%s Int)) (! (=> (and (<= 0 %s) (< %s (s_len %s))) (= %s %s)) :pattern (%s)))",
		qi, qi, qi, a, newAt, un.gat(srcA, "(s_off "+a+")", qi, es), newAt))
	un.addFact(fmt.Sprintf("(forall ((%s Int)) (! (=> (and (<= (s_len %s) %s) (< %s %s)) (= %s %s)) :pattern (%s)))",
		qi, a, qi, qi, newLen, newAt, srcB, newAt))
	// in-place case: elements outside [off+len(a), off+newLen) unchanged
	un.addFact(implies(fits, fmt.Sprintf("(forall ((%s Int)) (=> (or (< %s (+ (s_off %s) (s_len %s))) (>= %s (+ (s_off %s) %s))) (= (select %s %s) (select %s %s))))",
		qi, qi, a, a, qi, a, newLen, newArr, qi, srcA, qi)))
	un.set(st, ec, sto(old, newArr, "(s_arr "+res+")"))
	return Val{t: res}
}

// flatStruct: a struct type none of whose fields is itself a struct (its elements in a slice are addressed by one
// element reference per index, every field in its own heap component)
func flatStruct(t types.Type) bool {
	stt, ok := t.Underlying().(*types.Struct)
	if !ok {
		return false
	}
	for i := 0; i < stt.NumFields(); i++ {
		if isStructType(stt.Field(i).Type()) {
			return false
		}
	}
	return true
}

// execAppendStructs: append(a, b...) on slices of flat structs. As for scalar elements the result either grows in place
// (the new elements land in a's backing array, visible through every slice that shares it) or moves to a fresh array;
// every field of the elements is copied, everything else keeps its value.
func (un *Unit) execAppendStructs(st *State, et types.Type, a, b string) Val {
	newLen := "(+ (s_len " + a + ") (s_len " + b + "))"
	fits := "(<= " + newLen + " (s_cap " + a + "))"
	arr2 := un.allocRef(st, "append")
	res := un.u.freshConst("appended", "g_Slice")
	cap2 := un.u.freshConst("newcap", "Int")
	un.addFact("(>= " + cap2 + " " + newLen + ")")
	un.addFact(eq(res, ite(fits, "(mk_slice (s_arr "+a+") (s_off "+a+") "+newLen+" (s_cap "+a+"))", "(mk_slice "+arr2+" 0 "+newLen+" "+cap2+")")))
	stt := et.Underlying().(*types.Struct)
	un.u.usesQuant = true
	// append(s, x) passes a one-element slice over a fresh array: no quantified copy of b is needed then
	oneElem := strings.HasPrefix(b, "(mk_slice ") && strings.HasSuffix(b, " 0 1 1)")
	q := "q_ap!" + fmt.Sprint(un.u.fresh)
	un.u.fresh++
	r := "q_apr!" + fmt.Sprint(un.u.fresh)
	un.u.fresh++
	dst := un.elemRef("(s_arr "+res+")", "(+ (s_off "+res+") "+q+")")
	srcA := un.elemRef("(s_arr "+a+")", "(+ (s_off "+a+") "+q+")")
	srcB := un.elemRef("(s_arr "+b+")", "(+ (s_off "+b+") (- "+q+" (s_len "+a+")))")
	for i := 0; i < stt.NumFields(); i++ {
		c, _ := un.fieldComp(et, i)
		old := un.get(st, c)
		fresh := un.u.freshConst("app_"+stt.Field(i).Name(), un.compSort[c])
		un.addFact(fmt.Sprintf("(forall ((%s Int)) (! (=> (and (<= 0 %s) (< %s (s_len %s))) (= (select %s %s) (select %s %s))) :pattern ((select %s %s))))",
			q, q, q, a, fresh, dst, old, srcA, fresh, dst))
		if !oneElem {
			un.addFact(fmt.Sprintf("(forall ((%s Int)) (! (=> (and (<= (s_len %s) %s) (< %s %s)) (= (select %s %s) (select %s %s))) :pattern ((select %s %s))))",
				q, a, q, q, newLen, fresh, dst, old, srcB, fresh, dst))
		}
		// the common case append(s, x): the first appended element, stated without a quantifier
		first := un.elemRef("(s_arr "+res+")", "(+ (s_off "+res+") (s_len "+a+"))")
		firstSrc := un.elemRef("(s_arr "+b+")", "(s_off "+b+")")
		un.addFact(implies("(>= (s_len "+b+") 1)", eq(sel(fresh, first), sel(old, firstSrc))))
		// frame: a location that is not one of the written elements keeps its value (in the fresh-array case nothing
		// that existed before is written at all)
		written := fmt.Sprintf("(and (= (g_kind %s) 2) (= (g_elem_arr %s) (s_arr %s)) (or (not %s) (and (>= (g_elem_idx %s) (+ (s_off %s) (s_len %s))) (< (g_elem_idx %s) (+ (s_off %s) %s)))))",
			r, r, res, fits, r, res, a, r, res, newLen)
		un.addFact(fmt.Sprintf("(forall ((%s Int)) (! (=> (not %s) (= (select %s %s) (select %s %s))) :pattern ((select %s %s))))",
			r, written, fresh, r, old, r, fresh, r))
		un.set(st, c, fresh)
	}
	return Val{t: res}
}

func (un *Unit) execCopy(fr *Frame, st *State, c *ssa.CallCommon, args []Val) Val {
	dt := c.Args[0].Type().Underlying().(*types.Slice)
	ec := un.elemComp(dt.Elem())
	d, s := args[0].t, args[1].t
	var slen string
	isStr := false
	if bt, ok := c.Args[1].Type().Underlying().(*types.Basic); ok && bt.Info()&types.IsString != 0 {
		slen = "(str.len " + s + ")"
		isStr = true
	} else {
		slen = "(s_len " + s + ")"
	}
	n := un.u.freshConst("copied", "Int")
	un.addFact(eq(n, ite("(<= (s_len "+d+") "+slen+")", "(s_len "+d+")", slen)))
	old := un.get(st, ec)
	newArr := un.u.freshConst("elems", arraySort("Int", un.u.sortOf(dt.Elem())))
	qi := "qi!" + fmt.Sprint(un.u.fresh)
	un.u.usesQuant = true
	var src string
	if isStr {
		un.u.declareFun("g_str_bytes", []string{"String"}, arraySort("Int", "Int"))
		src = fmt.Sprintf("(select (g_str_bytes %s) (- %s (s_off %s)))", s, qi, d)
	} else {
		src = fmt.Sprintf("(select %s (+ (s_off %s) (- %s (s_off %s))))", sel(old, "(s_arr "+s+")"), s, qi, d)
	}
	dArr := sel(old, "(s_arr "+d+")")
	un.addFact(fmt.Sprintf("(forall ((%s Int)) (= (select %s %s) (ite (and (<= (s_off %s) %s) (< %s (+ (s_off %s) %s))) %s (select %s %s))))",
		qi, newArr, qi, d, qi, qi, d, n, src, dArr, qi))
	un.set(st, ec, sto(old, newArr, "(s_arr "+d+")"))
	return Val{t: n}
}

// ---------- models of library functions ----------

func (un *Unit) clock(st *State) string {
	un.comp("G_clock", "Int", "ghost")
	return un.get(st, "G_clock")
}

func constString(v ssa.Value) (string, bool) {
	if c, ok := v.(*ssa.Const); ok && c.Value != nil && c.Value.Kind() == constant.String {
		return constant.StringVal(c.Value), true
	}
	return "", false
}

func (un *Unit) itoa(n string) string {
	un.u.usesStr = true
	return fmt.Sprintf("(ite (>= %s 0) (str.from_int %s) (str.++ \"-\" (str.from_int (- %s))))", n, n, n)
}

// lockPlace returns the place of a mutex value designated by a pointer.
func (un *Unit) lockPlace(st *State, p Val, t types.Type) *Place {
	return un.placeOf(st, p, t)
}

func (un *Unit) modelCall(fr *Frame, st *State, callee *ssa.Function, full string, args []Val, ats []types.Type, pos token.Pos) (Val, bool) {
	unit := Val{t: "0"}
	switch full {
	case "(*sync.RWMutex).Lock", "(*sync.Mutex).Lock", "(*sync.RWMutex).RLock":
		et := ats[0].Underlying().(*types.Pointer).Elem()
		p := un.lockPlace(st, args[0], et)
		cur := un.loadPlace(st, p)
		un.lockObl(fr, st, "lock-not-held", cur+" == 0", eq(cur, "0"), pos)
		mode := "2"
		if strings.HasSuffix(full, "RLock") {
			mode = "1"
		}
		un.storePlace(st, p, mode)
		hl := un.comp("G_heldlocks", "Int", "ghost")
		un.set(st, hl, "(+ "+un.get(st, hl)+" 1)")
		un.onAcquire(fr, st, p, pos)
		return unit, true
	case "(*sync.RWMutex).Unlock", "(*sync.Mutex).Unlock", "(*sync.RWMutex).RUnlock":
		et := ats[0].Underlying().(*types.Pointer).Elem()
		p := un.lockPlace(st, args[0], et)
		cur := un.loadPlace(st, p)
		mode := "2"
		if strings.HasSuffix(full, "RUnlock") {
			mode = "1"
		}
		un.lockObl(fr, st, "unlock-held", "lock held in the mode being released", eq(cur, mode), pos)
		un.onRelease(fr, st, p, pos)
		un.storePlace(st, p, "0")
		hl := un.comp("G_heldlocks", "Int", "ghost")
		un.set(st, hl, "(- "+un.get(st, hl)+" 1)")
		return unit, true
	case "(*sync.Cond).Wait":
		// releases and re-acquires the associated lock: invariant out, havoc, invariant in
		un.condWait(fr, st, args[0], pos)
		return unit, true
	case "(*sync.WaitGroup).Add", "(*sync.WaitGroup).Done", "(*sync.WaitGroup).Wait":
		// waiting for another goroutine: like a spawn, only state that is treated as changeable anyway can differ afterwards
		un.assumed["sync.WaitGroup: Add/Done/Wait have no effect on the heap (termination of Wait is not proved)"] = true
		if strings.HasSuffix(full, "Wait") {
			un.havocVolatile(st)
		}
		return unit, true
	case "sync.NewCond":
		r := un.allocRef(st, "cond")
		return Val{t: r}, true
	case "(*sync.Cond).Broadcast", "(*sync.Cond).Signal":
		return unit, true
	case "(*sync.Once).Do":
		et := ats[0].Underlying().(*types.Pointer).Elem()
		p := un.placeOf(st, args[0], et)
		done := un.loadPlace(st, p)
		// first call runs f
		run := st.clone()
		run.guard = and(st.guard, eq(done, "0"))
		skip := st.clone()
		skip.guard = and(st.guard, not(eq(done, "0")))
		un.storePlace(run, p, "1")
		f := args[1]
		if f.fn != nil {
			un.callStatic(fr, run, f.fn, f.binds, nil, nil, pos)
		} else {
			un.fullHavoc(run, "once.Do with unknown function")
		}
		m := un.mergeStates([]*State{run, skip})
		st.guard, st.heap, st.base = m.guard, m.heap, m.base
		return unit, true
	case "(*sync/atomic.Int64).Add", "(*sync/atomic.Int32).Add", "(*sync/atomic.Uint32).Add", "(*sync/atomic.Uint64).Add":
		et := ats[0].Underlying().(*types.Pointer).Elem()
		un.nonNil(st, fr, args[0], "atomic", pos)
		p := un.placeOf(st, args[0], et)
		nv := "(+ " + un.loadPlace(st, p) + " " + args[1].t + ")"
		r := un.u.freshConst("atomic", "Int")
		un.addFact(eq(r, nv))
		un.storePlace(st, p, r)
		return Val{t: r}, true
	case "(*sync/atomic.Int64).Load", "(*sync/atomic.Int32).Load", "(*sync/atomic.Uint32).Load", "(*sync/atomic.Uint64).Load", "(*sync/atomic.Bool).Load":
		et := ats[0].Underlying().(*types.Pointer).Elem()
		un.nonNil(st, fr, args[0], "atomic", pos)
		p := un.placeOf(st, args[0], et)
		v := un.loadPlace(st, p)
		if strings.Contains(full, "Bool") {
			return Val{t: not(eq(v, "0"))}, true
		}
		return Val{t: v}, true
	case "(*sync/atomic.Int64).Store", "(*sync/atomic.Int32).Store", "(*sync/atomic.Uint32).Store", "(*sync/atomic.Uint64).Store", "(*sync/atomic.Bool).Store":
		et := ats[0].Underlying().(*types.Pointer).Elem()
		un.nonNil(st, fr, args[0], "atomic", pos)
		p := un.placeOf(st, args[0], et)
		v := args[1].t
		if strings.Contains(full, "Bool") {
			v = ite(v, "1", "0")
		}
		un.storePlace(st, p, v)
		return unit, true
	case "sync/atomic.LoadUint32", "sync/atomic.LoadInt32", "sync/atomic.LoadInt64", "sync/atomic.LoadUint64":
		et := ats[0].Underlying().(*types.Pointer).Elem()
		p := un.placeOf(st, args[0], et)
		return Val{t: un.loadPlace(st, p)}, true
	case "sync/atomic.StoreUint32", "sync/atomic.StoreInt32", "sync/atomic.StoreInt64", "sync/atomic.StoreUint64":
		et := ats[0].Underlying().(*types.Pointer).Elem()
		p := un.placeOf(st, args[0], et)
		un.storePlace(st, p, args[1].t)
		return unit, true
	case "sync/atomic.AddInt32", "sync/atomic.AddInt64", "sync/atomic.AddUint32", "sync/atomic.AddUint64":
		et := ats[0].Underlying().(*types.Pointer).Elem()
		p := un.placeOf(st, args[0], et)
		nv := "(+ " + un.loadPlace(st, p) + " " + args[1].t + ")"
		un.storePlace(st, p, nv)
		return Val{t: nv}, true
	case "time.Now":
		old := un.clock(st)
		t := un.u.freshConst("now", "Int")
		un.assume(st, "(>= "+t+" "+old+")")
		un.set(st, "G_clock", t)
		un.assumed["time.Now returns a non-decreasing clock value (monotone wall clock)"] = true
		for f := fr; f != nil; f = f.parent {
			f.calls["time.Now"]++
			f.callRes[fmt.Sprintf("Now#%d", f.calls["time.Now"])] = []Val{{t: t, typ: types.Typ[types.Int64], callGuard: st.guard}}
		}
		return Val{t: t}, true
	case "time.Unix":
		// recorded like an inlined call, so that a contract can say which stamp was converted: arg(Unix, k, sec|nsec)
		v := Val{t: "(+ (* " + args[0].t + " 1000000000) " + args[1].t + ")"}
		un.recordInlined(fr, callee, []Val{v}, args, st.guard)
		return v, true
	case "(time.Time).Add":
		return Val{t: "(+ " + args[0].t + " " + args[1].t + ")"}, true
	case "(time.Time).Sub":
		return Val{t: "(- " + args[0].t + " " + args[1].t + ")"}, true
	case "(time.Time).After":
		return Val{t: "(> " + args[0].t + " " + args[1].t + ")"}, true
	case "(time.Time).Before":
		return Val{t: "(< " + args[0].t + " " + args[1].t + ")"}, true
	case "(time.Time).Equal":
		return Val{t: eq(args[0].t, args[1].t)}, true
	case "(time.Time).IsZero":
		un.u.declare("g_time_zero", "Int")
		return Val{t: eq(args[0].t, "g_time_zero")}, true
	case "(time.Time).Unix":
		return Val{t: "(div " + args[0].t + " 1000000000)"}, true
	case "(time.Time).UnixNano":
		return Val{t: args[0].t}, true
	case "(time.Time).UnixMilli":
		return Val{t: "(div " + args[0].t + " 1000000)"}, true
	case "(time.Time).Truncate":
		d := args[1].t
		r := un.u.freshConst("trunc", "Int")
		// d <= 0 returns t unchanged; otherwise rounds down to a multiple of d (since the zero time; we only use r <= t < r+d and divisibility relative to Unix epoch for d dividing a second/minute/hour/day)
		un.addFact(eq(r, ite("(<= "+d+" 0)", args[0].t, "(* (div "+args[0].t+" "+d+") "+d+")")))
		un.assumed["time.Time.Truncate(d) rounds down to a multiple of d counted from the Unix epoch (true of Go's absolute-zero based rounding for d dividing 24h... durations that divide one week's worth of nanoseconds offsets; assumed)"] = true
		return Val{t: r}, true
	case "time.Since":
		old := un.clock(st)
		t := un.u.freshConst("now", "Int")
		un.assume(st, "(>= "+t+" "+old+")")
		un.set(st, "G_clock", t)
		return Val{t: "(- " + t + " " + args[0].t + ")"}, true
	case "(time.Duration).Seconds", "(time.Duration).Minutes", "(time.Duration).Hours":
		r := un.u.freshConst("dur", "Real")
		return Val{t: r}, true
	case "runtime.KeepAlive":
		return unit, true
	case "runtime.SetFinalizer":
		un.note("runtime.SetFinalizer: finalizers and GC timing are not modelled")
		return unit, true
	case "errors.New":
		r := un.allocRef(st, "err")
		tag := un.typeTag(types.NewPointer(types.Typ[types.String])) // stand-in tag for *errors.errorString
		return Val{t: fmt.Sprintf("(mk_iface %d %s)", tag+100000, r)}, true
	case "fmt.Errorf":
		r := un.allocRef(st, "err")
		return Val{t: fmt.Sprintf("(mk_iface %d %s)", 100001, r)}, true
	case "github.com/pkg/errors.New", "github.com/pkg/errors.Errorf", "github.com/pkg/errors.Wrap", "github.com/pkg/errors.Wrapf", "github.com/pkg/errors.WithMessage", "github.com/pkg/errors.WithStack", "github.com/pkg/errors.WithMessagef":
		r := un.allocRef(st, "err")
		if strings.HasSuffix(full, "Wrap") || strings.HasSuffix(full, "Wrapf") || strings.HasSuffix(full, "WithMessage") || strings.HasSuffix(full, "WithStack") || strings.HasSuffix(full, "WithMessagef") {
			// Wrap(nil) == nil
			return Val{t: ite(eq("(i_tag "+args[0].t+")", "0"), "(mk_iface 0 0)", fmt.Sprintf("(mk_iface %d %s)", 100002, r))}, true
		}
		return Val{t: fmt.Sprintf("(mk_iface %d %s)", 100002, r)}, true
	case "sort.Slice", "sort.SliceStable":
		if v, ok := un.modelSortSlice(fr, st, args, ats, pos); ok {
			return v, true
		}
		// an unrecognised comparison: the slice is permuted in some unknown way - its elements are havoc'd
		if len(args) >= 1 && strings.HasPrefix(args[0].t, "(mk_iface ") {
			rest := strings.TrimSuffix(strings.TrimPrefix(args[0].t, "(mk_iface "), ")")
			if sp := strings.Index(rest, " "); sp > 0 {
				var tag int
				if _, err := fmt.Sscanf(rest[:sp], "%d", &tag); err == nil {
					if stt, ok := typeTagTypes[tag]; ok {
						if sl, ok := stt.Underlying().(*types.Slice); ok {
							if isStructType(sl.Elem()) {
								sc := &Scope{un: un, vars: map[string]SV{}, cur: st, old: st, fr: fr}
								_ = sc
								var walk func(t types.Type)
								walk = func(t types.Type) {
									stt := t.Underlying().(*types.Struct)
									for i := 0; i < stt.NumFields(); i++ {
										if isStructType(stt.Field(i).Type()) {
											walk(stt.Field(i).Type())
											continue
										}
										c, _ := un.fieldComp(t, i)
										un.havocComp(st, c)
									}
								}
								walk(sl.Elem())
							} else {
								un.havocComp(st, un.elemComp(sl.Elem()))
							}
							un.note("sort.Slice with an unrecognised comparison: the elements of the sorted slice are havoc'd (order and contents unknown)")
							return Val{t: "0"}, true
						}
					}
				}
			}
		}
		un.fullHavoc(st, "sort.Slice on an unknown slice")
		return Val{t: "0"}, true
	case "errors.Is":
		r := un.u.freshConst("errors_is", "Bool")
		// nil is no error; an error is itself
		un.assume(st, implies(eq("(i_tag "+args[0].t+")", "0"), not(r)))
		un.assume(st, implies(and(eq(args[0].t, args[1].t), not(eq("(i_tag "+args[0].t+")", "0"))), r))
		un.assumed["errors.Is(nil, t) is false; errors.Is(e, e) is true for non-nil e"] = true
		return Val{t: r}, true
	case "errors.As":
		// errors.As(err, &target): when it reports true, target holds a non-nil value of its type found in err's chain
		r := un.u.freshConst("errors_as", "Bool")
		un.assume(st, implies(eq("(i_tag "+args[0].t+")", "0"), not(r)))
		if len(c2args(args)) == 2 && strings.HasPrefix(args[1].t, "(mk_iface ") {
			rest := strings.TrimSuffix(strings.TrimPrefix(args[1].t, "(mk_iface "), ")")
			if sp := strings.Index(rest, " "); sp > 0 {
				var tag int
				if _, err := fmt.Sscanf(rest[:sp], "%d", &tag); err == nil {
					if pt, ok := typeTagTypes[tag]; ok {
						if ptr, ok := pt.Underlying().(*types.Pointer); ok {
							pl := un.placeOf(st, Val{t: rest[sp+1:], typ: pt}, ptr.Elem())
							old := un.loadPlace(st, pl)
							nv := un.u.freshConst("as_target", un.u.sortOf(ptr.Elem()))
							un.assume(st, un.typeFacts(st, nv, ptr.Elem()))
							switch ptr.Elem().Underlying().(type) {
							case *types.Interface:
								un.assume(st, implies(r, not(eq("(i_tag "+nv+")", "0"))))
							case *types.Pointer:
								un.assume(st, implies(r, not(eq(nv, "0"))))
							}
							un.storePlace(st, pl, ite(r, nv, old))
						}
					}
				}
			}
		}
		un.assumed["errors.As(nil, t) is false; when it reports true the target holds a non-nil value"] = true
		return Val{t: r}, true
	case "strconv.FormatInt":
		if args[1].t == "10" {
			return Val{t: un.itoa(args[0].t)}, true
		}
	case "strconv.Itoa":
		return Val{t: un.itoa(args[0].t)}, true
	case "strings.Index":
		un.u.usesStr = true
		return Val{t: "(str.indexof " + args[0].t + " " + args[1].t + " 0)"}, true
	case "strings.HasPrefix":
		un.u.usesStr = true
		return Val{t: "(str.prefixof " + args[1].t + " " + args[0].t + ")"}, true
	case "strings.HasSuffix":
		un.u.usesStr = true
		return Val{t: "(str.suffixof " + args[1].t + " " + args[0].t + ")"}, true
	case "strings.Contains":
		un.u.usesStr = true
		return Val{t: "(str.contains " + args[0].t + " " + args[1].t + ")"}, true
	case "fmt.Sprintf":
		// handled by the caller-side pattern below (needs the SSA operands)
	case "context.Background", "context.TODO":
		r := un.u.freshConst("ctx", "g_Iface")
		un.addFact(not(eq("(i_tag "+r+")", "0")))
		return Val{t: r}, true
	}
	return Val{}, false
}

// sprintf models fmt.Sprintf for constant formats made of text, %s, %d and %v on strings/ints.
func (un *Unit) sprintf(fr *Frame, st *State, call *ssa.Call) (Val, bool) {
	c := call.Common()
	if len(c.Args) != 2 {
		return Val{}, false
	}
	format, ok := constString(c.Args[0])
	if !ok {
		return Val{}, false
	}
	// the variadic argument is a slice built by the caller: find the element stores
	elems, ok := un.variadicElems(fr, c.Args[1])
	if !ok {
		return Val{}, false
	}
	var parts []string
	ai := 0
	lit := ""
	for i := 0; i < len(format); i++ {
		if format[i] != '%' {
			lit += string(format[i])
			continue
		}
		if i+1 >= len(format) {
			return Val{}, false
		}
		i++
		switch format[i] {
		case '%':
			lit += "%"
		case 's', 'd', 'v':
			if ai >= len(elems) {
				return Val{}, false
			}
			if lit != "" {
				parts = append(parts, strLit(lit))
				lit = ""
			}
			src := elems[ai]
			ai++
			switch b := src.Type().Underlying().(type) {
			case *types.Basic:
				if b.Info()&types.IsString != 0 && format[i] != 'd' {
					parts = append(parts, un.val(fr, src).t)
				} else if b.Info()&types.IsInteger != 0 && format[i] != 's' {
					parts = append(parts, un.itoa(un.val(fr, src).t))
				} else {
					return Val{}, false
				}
			default:
				return Val{}, false
			}
		default:
			return Val{}, false
		}
	}
	if lit != "" {
		parts = append(parts, strLit(lit))
	}
	if ai != len(elems) {
		return Val{}, false
	}
	un.u.usesStr = true
	un.assumed["fmt.Sprintf with a literal format of text/%s/%d/%v is concatenation"] = true
	switch len(parts) {
	case 0:
		return Val{t: "\"\""}, true
	case 1:
		return Val{t: parts[0]}, true
	}
	return Val{t: "(str.++ " + strings.Join(parts, " ") + ")"}, true
}

// variadicElems recovers the values packed into a variadic []any argument: new [n]any; stores of MakeInterface; slice.
func (un *Unit) variadicElems(fr *Frame, v ssa.Value) ([]ssa.Value, bool) {
	if c, ok := v.(*ssa.Const); ok && c.Value == nil {
		return nil, true
	}
	sl, ok := v.(*ssa.Slice)
	if !ok {
		return nil, false
	}
	al, ok := sl.X.(*ssa.Alloc)
	if !ok {
		return nil, false
	}
	at, ok := al.Type().(*types.Pointer).Elem().Underlying().(*types.Array)
	if !ok {
		return nil, false
	}
	out := make([]ssa.Value, at.Len())
	for _, r := range *al.Referrers() {
		ia, ok := r.(*ssa.IndexAddr)
		if !ok {
			continue
		}
		ic, ok := ia.Index.(*ssa.Const)
		if !ok {
			return nil, false
		}
		idx, _ := constant.Int64Val(ic.Value)
		for _, r2 := range *ia.Referrers() {
			if s, ok := r2.(*ssa.Store); ok {
				if mi, ok := s.Val.(*ssa.MakeInterface); ok {
					out[idx] = mi.X
				} else {
					return nil, false
				}
			}
		}
	}
	for _, o := range out {
		if o == nil {
			return nil, false
		}
	}
	return out, true
}


// lessIsAscending recognises the comparison closure `func(i, j int) bool { return s[i] < s[j] }` over a captured slice variable.
func lessIsAscending(fn *ssa.Function) bool {
	if fn == nil || len(fn.Blocks) != 1 || len(fn.Params) != 2 || len(fn.FreeVars) != 1 {
		return false
	}
	var ret *ssa.Return
	for _, in := range fn.Blocks[0].Instrs {
		if r, ok := in.(*ssa.Return); ok {
			ret = r
		}
	}
	if ret == nil || len(ret.Results) != 1 {
		return false
	}
	b, ok := ret.Results[0].(*ssa.BinOp)
	if !ok || b.Op != token.LSS {
		return false
	}
	elemOf := func(v ssa.Value, p *ssa.Parameter) bool {
		u, ok := v.(*ssa.UnOp)
		if !ok || u.Op != token.MUL {
			return false
		}
		ia, ok := u.X.(*ssa.IndexAddr)
		if !ok || ia.Index != p {
			return false
		}
		ld, ok := ia.X.(*ssa.UnOp)
		return ok && ld.Op == token.MUL && ld.X == fn.FreeVars[0]
	}
	return elemOf(b.X, fn.Params[0]) && elemOf(b.Y, fn.Params[1])
}

// modelSortSlice: sort.Slice(s, func(i,j) bool { return s[i] < s[j] }) leaves s an ascending permutation of itself.
func (un *Unit) modelSortSlice(fr *Frame, st *State, args []Val, ats []types.Type, pos token.Pos) (Val, bool) {
	less := args[1]
	if less.fn == nil || !lessIsAscending(less.fn) {
		return Val{}, false
	}
	// the sorted slice: the value captured by the closure (same variable as the one boxed into args[0])
	if len(less.binds) != 1 {
		return Val{}, false
	}
	fv := less.fn.FreeVars[0]
	slT, ok := fv.Type().(*types.Pointer).Elem().Underlying().(*types.Slice)
	if !ok {
		return Val{}, false
	}
	p := un.placeOf(st, less.binds[0], fv.Type().(*types.Pointer).Elem())
	sl := un.loadPlace(st, p)
	ec := un.elemComp(slT.Elem())
	old := sel(un.get(st, ec), "(s_arr "+sl+")")
	fresh := un.u.freshConst("sorted", arraySort("Int", un.u.sortOf(slT.Elem())))
	un.u.fresh++
	id := un.u.fresh
	perm := fmt.Sprintf("g_perm!%d", id)
	inv := fmt.Sprintf("g_pinv!%d", id)
	un.u.declareFun(perm, []string{"Int"}, "Int")
	un.u.declareFun(inv, []string{"Int"}, "Int")
	un.u.usesQuant = true
	off, ln := "(s_off "+sl+")", "(s_len "+sl+")"
	qi := fmt.Sprintf("qs!%d", id)
	qj := fmt.Sprintf("qt!%d", id)
	// all facts are over g_at(array, off, i) with i relative to the slice: no arithmetic inside triggers
	es := un.u.sortOf(slT.Elem())
	rat := func(a, i string) string { return un.gat(a, off, i, es) }
	rin := func(i string) string { return "(and (<= 0 " + i + ") (< " + i + " " + ln + "))" }
	un.assume(st, fmt.Sprintf("(forall ((%s Int)) (! (=> %s (and %s (= %s %s) (= (%s (%s %s)) %s))) :pattern ((%s %s)) :pattern (%s)))",
		qi, rin(qi), rin("("+perm+" "+qi+")"), rat(fresh, qi), rat(old, "("+perm+" "+qi+")"), inv, perm, qi, qi, perm, qi, rat(fresh, qi)))
	un.assume(st, fmt.Sprintf("(forall ((%s Int)) (! (=> %s (and %s (= (%s (%s %s)) %s) (= %s %s))) :pattern ((%s %s)) :pattern (%s)))",
		qj, rin(qj), rin("("+inv+" "+qj+")"), perm, inv, qj, qj, rat(fresh, "("+inv+" "+qj+")"), rat(old, qj), inv, qj, rat(old, qj)))
	un.assume(st, fmt.Sprintf("(forall ((%s Int) (%s Int)) (! (=> (and %s %s (<= %s %s)) (<= %s %s)) :pattern (%s %s)))", qi, qj, rin(qi), rin(qj), qi, qj, rat(fresh, qi), rat(fresh, qj), rat(fresh, qi), rat(fresh, qj)))
	// outside the window unchanged
	un.assume(st, fmt.Sprintf("(forall ((%s Int)) (! (=> (or (< %s %s) (>= %s (+ %s %s))) (= (select %s %s) (select %s %s))) :pattern ((select %s %s))))", qi, qi, off, qi, off, ln, fresh, qi, old, qi, fresh, qi))
	un.set(st, ec, sto(un.get(st, ec), fresh, "(s_arr "+sl+")"))
	un.assumed["sort.Slice with the comparison s[i] < s[j] leaves s an ascending permutation of its former contents"] = true
	return Val{t: "0"}, true
}

// devirtClosed implements `opt devirt Iface:*T1|*T2` of the function under verification: an interface call on Iface is
// executed as a case split over the listed concrete receiver types (their own contracts, or their bodies), after an
// obligation that the dynamic type is one of them.
func (un *Unit) devirtClosed(fr *Frame, st *State, recv Val, recvT types.Type, m *types.Func, args []Val, ats []types.Type, pos token.Pos) (Val, bool) {
	if un.contract == nil {
		return Val{}, false
	}
	spec, ok := un.contract.Opts["devirt"]
	if !ok {
		return Val{}, false
	}
	i := strings.Index(spec, ":")
	n := namedOf(recvT)
	if i < 0 || n == nil || n.Obj().Name() != strings.TrimSpace(spec[:i]) {
		return Val{}, false
	}
	sc := &Scope{un: un, vars: map[string]SV{}, cur: st, old: un.entry, pkg: n.Obj().Pkg(), fr: fr}
	type cand struct {
		t  types.Type
		fn *ssa.Function
	}
	var cands []cand
	for _, tn := range strings.Split(spec[i+1:], "|") {
		t, _, err := sc.resolveType(strings.TrimSpace(tn))
		if err != nil || t == nil {
			un.outside = "opt devirt: unknown type " + tn
			return Val{}, true
		}
		fn := un.prog.methodFor(t, m)
		if fn == nil {
			un.outside = "opt devirt: no method value for " + tn + "." + m.Name()
			return Val{}, true
		}
		cands = append(cands, cand{t, fn})
	}
	tag := "(i_tag " + recv.t + ")"
	var alts []string
	for _, c := range cands {
		alts = append(alts, eq(tag, fmt.Sprint(un.typeTag(c.t))))
	}
	base := fmt.Sprintf("%s/devirt/%s.%s", funcKey(un.fn), n.Obj().Name(), m.Name())
	if fr.fn != un.fn {
		base += ">" + shortFn(fr.fn)
	}
	var props []string
	if un.contract != nil {
		props = un.contract.Facets
	}
	un.oblige(st, "devirt", un.uniqueName(base), props, or(alts...), pos, "the receiver's dynamic type is one of "+spec[i+1:])
	sig := m.Type().(*types.Signature)
	var sts []*State
	var vals []Val
	for k, c := range cands {
		s2 := st.clone()
		s2.guard = and(st.guard, alts[k])
		rv := Val{t: "(i_val " + recv.t + ")", typ: c.t}
		all := append([]Val{rv}, args...)
		allT := append([]types.Type{c.t}, ats...)
		v := un.callStatic(fr, s2, c.fn, nil, all, allT, pos)
		sts = append(sts, s2)
		vals = append(vals, v)
	}
	mg := un.mergeStates(sts)
	*st = *mg
	var rt types.Type = sig.Results()
	if sig.Results().Len() == 1 {
		rt = sig.Results().At(0).Type()
	}
	if sig.Results().Len() == 0 {
		return vals[0], true
	}
	return un.mergeVals(sts, vals, rt), true
}

func c2args(a []Val) []Val { return a }
