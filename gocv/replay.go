package main

// Replay of a failed obligation on the real code: a scripted scenario (Go test) for that obligation,
// injected with `go test -overlay` (nothing is written to /repo), run against the current working tree.

import (
	"sort"
	"encoding/json"
	"fmt"
	"os"
	"os/exec"
	"path/filepath"
	"strings"
	"time"
)

type replayMeta struct {
	Obligation string   `json:"obligation"`
	Also       []string `json:"also"` // other obligations whose failure shape this scenario exercises
	Prefixes   []string `json:"prefixes"` // obligation-name prefixes (e.g. all safety obligations of one function)
	Module     string   `json:"module"`
	Pkg        string   `json:"pkg"`
	File       string   `json:"file"`
	Test       string   `json:"test"`
	What       string   `json:"what"`
	Edits      []overlayEdit `json:"overlay_edits"` // scheduling hooks spliced into a copy of the current source (overlay only)
	dir        string
	model      string
}

func findReplayTemplate(obligation string) *replayMeta {
	if all := findReplayTemplates(obligation); len(all) > 0 {
		return all[0]
	}
	return nil
}

// findReplayTemplates: every replay scenario that names the obligation (exact matches first, then prefix matches).
func findReplayTemplates(obligation string) []*replayMeta {
	metas, _ := filepath.Glob(filepath.Join(verifRoot(), "replays_src", "*", "*", "meta.json"))
	sort.Strings(metas)
	var exact, byPrefix []*replayMeta
	for _, m := range metas {
		data, err := os.ReadFile(m)
		if err != nil {
			continue
		}
		var rm replayMeta
		if json.Unmarshal(data, &rm) != nil {
			continue
		}
		rm.dir = filepath.Dir(m)
		match := rm.Obligation == obligation
		for _, a := range rm.Also {
			if a == obligation {
				match = true
			}
		}
		if match {
			c := rm
			exact = append(exact, &c)
			continue
		}
		for _, pf := range rm.Prefixes {
			if strings.HasPrefix(obligation, pf) {
				c := rm
				byPrefix = append(byPrefix, &c)
				break
			}
		}
	}
	return append(exact, byPrefix...)
}

type overlayEdit struct {
	File    string `json:"file"` // relative to the module dir
	Find    string `json:"find"`
	Replace string `json:"replace"`
	Append  string `json:"append"`
}

type replayOutcome struct {
	Reproduced bool
	Cmd        string
	Output     string
	Source     string
	Overlay    string
}

// modelParams extracts the solver's values for the function's parameters from a model, as {param: smt-value}.
func modelParams(model string) map[string]string {
	out := map[string]string{}
	lines := strings.Split(model, "\n")
	for i, ln := range lines {
		t := strings.TrimSpace(ln)
		if !strings.HasPrefix(t, "(define-fun |") {
			continue
		}
		name := t[len("(define-fun |"):]
		j := strings.Index(name, "|")
		if j < 0 {
			continue
		}
		name = name[:j]
		if k := strings.Index(name, "!"); k >= 0 {
			name = name[:k]
		}
		if !strings.Contains(name, ".") {
			continue
		}
		val := ""
		if idx := strings.Index(t, ") "); idx >= 0 && strings.Count(t, "(") == strings.Count(t, ")") {
			// single-line definition
			rest := t[strings.Index(t, "() ")+3:]
			if sp := strings.Index(rest, " "); sp >= 0 {
				val = strings.TrimSuffix(strings.TrimSpace(rest[sp+1:]), ")")
				if strings.HasPrefix(rest, "(") { // parenthesised sort
					d := 0
					for q := 0; q < len(rest); q++ {
						if rest[q] == '(' {
							d++
						}
						if rest[q] == ')' {
							d--
							if d == 0 {
								val = strings.TrimSuffix(strings.TrimSpace(rest[q+1:]), ")")
								break
							}
						}
					}
				}
			}
		} else if i+1 < len(lines) {
			val = strings.TrimSuffix(strings.TrimSpace(lines[i+1]), ")")
		}
		if val != "" && len(val) < 200 {
			out[name] = val
		}
	}
	return out
}

func runReplay(rm *replayMeta, workDir string) replayOutcome {
	m, ok := modules[rm.Module]
	if !ok {
		return replayOutcome{Output: "unknown module " + rm.Module}
	}
	modDir := filepath.Join(repoRoot(), m.dir)
	src := filepath.Join(rm.dir, "replay_test.go")
	target := filepath.Join(modDir, rm.Pkg, rm.File)
	os.MkdirAll(workDir, 0o755)
	ov := filepath.Join(workDir, "overlay_"+sanitize(rm.Test)+".json")
	repl := map[string]string{target: src}
	for i, ed := range rm.Edits {
		orig := filepath.Join(modDir, ed.File)
		data, err := os.ReadFile(orig)
		if err != nil {
			return replayOutcome{Output: "overlay edit: " + err.Error()}
		}
		text := string(data)
		if ed.Find != "" {
			if !strings.Contains(text, ed.Find) {
				return replayOutcome{Output: "the program point this scenario hooks no longer exists in " + ed.File + " (window closed or code restructured)"}
			}
			text = strings.Replace(text, ed.Find, ed.Replace, 1)
		}
		text += ed.Append
		hooked := filepath.Join(workDir, fmt.Sprintf("hooked_%d_%s", i, filepath.Base(ed.File)))
		os.WriteFile(hooked, []byte(text), 0o644)
		repl[orig] = hooked
	}
	ovData, _ := json.Marshal(map[string]any{"Replace": repl})
	os.WriteFile(ov, ovData, 0o644)
	pkgArg := "./" + rm.Pkg
	if rm.Pkg == "." || rm.Pkg == "" {
		pkgArg = "."
	}
	args := []string{"test", "-overlay", ov, "-vet=off", "-count=1", "-timeout", "60s", "-run", "^(" + rm.Test + ")$", pkgArg}
	cmd := exec.Command("go", args...)
	cmd.Dir = modDir
	env := []string{}
	for _, e := range os.Environ() {
		if strings.HasPrefix(e, "GOFLAGS=") {
			continue
		}
		env = append(env, e)
	}
	env = append(env, "GOPROXY=off", "GOSUMDB=off", "GOTOOLCHAIN=local")
	if m.modMod {
		env = append(env, "GOFLAGS=-mod=mod")
	}
	if rm.model != "" {
		mp, _ := json.Marshal(modelParams(rm.model))
		env = append(env, "GOCV_MODEL_JSON="+string(mp))
	}
	cmd.Env = env
	done := make(chan struct{})
	var out []byte
	var err error
	go func() { out, err = cmd.CombinedOutput(); close(done) }()
	select {
	case <-done:
	case <-time.After(180 * time.Second):
		if cmd.Process != nil {
			cmd.Process.Kill()
		}
		<-done
	}
	text := string(out)
	srcData, _ := os.ReadFile(src)
	ro := replayOutcome{Cmd: "cd " + modDir + " && go " + strings.Join(args, " "), Output: text, Source: string(srcData), Overlay: ov}
	// reproduced = the scenario's test failed (its assertion of the contract, or a panic in the code under test);
	// a build or setup failure is not a reproduction
	failedRun := err != nil && (strings.Contains(text, "--- FAIL") || strings.Contains(text, "panic: "))
	broken := strings.Contains(text, "[build failed]") || strings.Contains(text, "[setup failed]")
	if failedRun && !broken {
		ro.Reproduced = true
	}
	return ro
}

func cmdReplay(args []string) int {
	if len(args) < 1 {
		fmt.Fprintln(os.Stderr, "usage: gocv replay <replay.json>")
		return 2
	}
	data, err := os.ReadFile(args[0])
	if err != nil {
		fmt.Fprintln(os.Stderr, err)
		return 2
	}
	var rec map[string]any
	if err := json.Unmarshal(data, &rec); err != nil {
		fmt.Fprintln(os.Stderr, err)
		return 2
	}
	obl, _ := rec["obligation"].(string)
	prop, _ := rec["property"].(string)
	fmt.Printf("obligation: %s\nproperty: %s\nsolver outcome: %v (%v)\n", obl, prop, rec["outcome"], rec["solver_output"])
	rm := findReplayTemplate(obl)
	if rm == nil {
		fmt.Println("no scripted replay scenario for this obligation; the file carries the failed obligation, the SMT query and the solver's output (no-failing-input-found)")
		return 1
	}
	ro := runReplay(rm, filepath.Join(verifRoot(), ".work", "replay"))
	fmt.Println(ro.Cmd)
	fmt.Println(ro.Output)
	if ro.Reproduced {
		fmt.Printf("VIOLATION property=%s replay=%s\n", prop, args[0])
		return 1
	}
	fmt.Println("replay did not reproduce a violation on the current tree")
	return 0
}
