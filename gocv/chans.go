package main

// Channels. A channel is a reference with ghost state
//   chsent(ch), chrecvd(ch) : how many values have been sent / received so far
//   chlog(ch, i)        : the i-th value sent (channels are FIFO: the i-th receive yields the i-th value sent)
//   chclosed(ch)        : close(ch) has happened
// A send appends to the log; a receive reads the log at index recvd(ch) (an unconstrained value unless the same
// function sent it) and counts. Blocking and scheduling are not modelled: a send or receive is assumed to complete.

import (
	"fmt"
	"go/token"
	"go/types"

	"golang.org/x/tools/go/ssa"
)

func (un *Unit) chComps(elem types.Type) (sent, recvd, closed, log string) {
	s := un.u.sortOf(elem)
	sent = un.comp("G_chsent", arraySort("Int", "Int"), "ghost")
	recvd = un.comp("G_chrecvd", arraySort("Int", "Int"), "ghost")
	closed = un.comp("G_chclosed", arraySort("Int", "Bool"), "ghost")
	log = un.comp("G_chlog_"+sanitize(s), arraySort("Int", arraySort("Int", s)), "ghost")
	return
}

func chanElem(t types.Type) types.Type {
	if c, ok := t.Underlying().(*types.Chan); ok {
		return c.Elem()
	}
	return nil
}

func (un *Unit) execMakeChan(fr *Frame, st *State, in *ssa.MakeChan) {
	ref := un.allocRef(st, "chan")
	sent, recvd, closed, _ := un.chComps(chanElem(in.Type()))
	un.set(st, sent, sto(un.get(st, sent), "0", ref))
	un.set(st, recvd, sto(un.get(st, recvd), "0", ref))
	un.set(st, closed, sto(un.get(st, closed), "false", ref))
	un.bind(fr, in, Val{t: ref})
}

func (un *Unit) execSend(fr *Frame, st *State, in *ssa.Send) {
	ch := un.val(fr, in.Chan)
	v := un.val(fr, in.X)
	sent, _, closed, log := un.chComps(chanElem(in.Chan.Type()))
	un.safety(st, fr, "nil-chan", "send", not(eq(ch.t, "0")), in.Pos())
	un.safety(st, fr, "closed-chan", "send", not(sel(un.get(st, closed), ch.t)), in.Pos())
	un.chanInvSend(fr, st, chanElem(in.Chan.Type()), v.t, in.Pos())
	n := sel(un.get(st, sent), ch.t)
	un.set(st, log, sto(un.get(st, log), v.t, ch.t, n))
	un.set(st, sent, sto(un.get(st, sent), "(+ "+n+" 1)", ch.t))
	// the receiving goroutine runs on: whatever is treated as changeable by other threads may have changed
	un.havocVolatile(st)
}

func (un *Unit) execRecv(fr *Frame, st *State, in *ssa.UnOp) {
	ch := un.val(fr, in.X)
	elem := chanElem(in.X.Type())
	sent, recvd, _, log := un.chComps(elem)
	_ = sent
	un.safety(st, fr, "nil-chan", "receive", not(eq(ch.t, "0")), in.Pos())
	n := sel(un.get(st, recvd), ch.t)
	v := sel(un.get(st, log), ch.t, n)
	un.assume(st, un.typeFacts(st, v, elem))
	if in.CommaOk {
		ok := un.u.freshConst("recv_ok", "Bool")
		// a receive that reports !ok (channel closed and drained) consumes nothing
		un.set(st, recvd, sto(un.get(st, recvd), ite(ok, "(+ "+n+" 1)", n), ch.t))
		un.chanInvRecv(fr, st, elem, v, ok)
		un.bind(fr, in, Val{t: "tuple", tuple: []Val{{t: v}, {t: ok}}})
	} else {
		un.set(st, recvd, sto(un.get(st, recvd), "(+ "+n+" 1)", ch.t))
		un.chanInvRecv(fr, st, elem, v, "true")
		un.bind(fr, in, Val{t: v})
	}
	un.havocVolatile(st)
	_ = token.ARROW
}

func (un *Unit) execCloseChan(fr *Frame, st *State, c *ssa.CallCommon, ch Val, pos token.Pos) {
	_, _, closed, _ := un.chComps(chanElem(c.Args[0].Type()))
	un.safety(st, fr, "nil-chan", "close", not(eq(ch.t, "0")), pos)
	un.safety(st, fr, "closed-chan", "close", not(sel(un.get(st, closed), ch.t)), pos)
	un.set(st, closed, sto(un.get(st, closed), "true", ch.t))
}

// chanInv evaluates the declared invariants of the channel's element type on value v.
func (un *Unit) chanInv(fr *Frame, st *State, elem types.Type, v string) []struct {
	cl *Clause
	t  string
} {
	var out []struct {
		cl *Clause
		t  string
	}
	n := namedOf(elem)
	if n == nil || n.Obj().Pkg() == nil {
		return nil
	}
	for _, cl := range un.specs.ChanInvs[pkgKey(n.Obj().Pkg())+"."+n.Obj().Name()] {
		sc := &Scope{un: un, vars: map[string]SV{}, cur: st, old: un.entry, pkg: n.Obj().Pkg(), fr: fr}
		sc.vars["e"] = SV{t: v, typ: elem}
		tm, _ := un.evalSpec(cl.E, sc)
		out = append(out, struct {
			cl *Clause
			t  string
		}{cl, tm})
	}
	return out
}

func (un *Unit) chanInvSend(fr *Frame, st *State, elem types.Type, v string, pos token.Pos) {
	for _, x := range un.chanInv(fr, st, elem, v) {
		base := fmt.Sprintf("%s/chan-inv/%s", funcKey(un.fn), labelOr(x.cl.Label, "inv"))
		props := x.cl.Props
		if len(props) == 0 && un.contract != nil {
			props = un.contract.Facets
		}
		un.oblige(st, "chaninv", un.uniqueName(base), props, x.t, pos, x.cl.Text)
	}
}

func (un *Unit) chanInvRecv(fr *Frame, st *State, elem types.Type, v, ok string) {
	for _, x := range un.chanInv(fr, st, elem, v) {
		un.assume(st, implies(ok, x.t))
	}
}
