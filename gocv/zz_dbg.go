package main

import (
	"fmt"
	"sort"
	"strings"

	"golang.org/x/tools/go/ssa/ssautil"
)

func cmdFuncs(args []string) int {
	m := modules[args[0]]
	p, err := loadModule(m, strings.Split(args[1], ","))
	if err != nil {
		fmt.Println(err)
		return 2
	}
	var out []string
	for fn := range ssautil.AllFunctions(p.prog) {
		if fn.Pkg != nil && strings.Contains(fn.Pkg.Pkg.Path(), args[2]) || (fn.Pkg == nil && strings.Contains(fn.String(), args[2])) {
			out = append(out, fmt.Sprintf("%s | key=%s | blocks=%d synthetic=%q origin=%v tparams=%d", fn.String(), funcKey(fn), len(fn.Blocks), fn.Synthetic, fn.Origin() != nil, fn.TypeParams().Len()))
		}
	}
	sort.Strings(out)
	for _, o := range out {
		fmt.Println(o)
	}
	return 0
}
