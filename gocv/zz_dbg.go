package main

import (
	"fmt"
	"os"
	"sort"
	"strings"

	"golang.org/x/tools/go/ssa/ssautil"
)

func cmdFuncs(args []string) int {
	m := modules[args[0]]
	p, err := loadModule(m, strings.Split(args[1], ","))
	if err != nil {
		fmt.Println(err)
		return 2
	}
	var out []string
	for fn := range ssautil.AllFunctions(p.prog) {
		if fn.Pkg != nil && strings.Contains(fn.Pkg.Pkg.Path(), args[2]) || (fn.Pkg == nil && strings.Contains(fn.String(), args[2])) {
			out = append(out, fmt.Sprintf("%s | key=%s | blocks=%d synthetic=%q origin=%v tparams=%d", fn.String(), funcKey(fn), len(fn.Blocks), fn.Synthetic, fn.Origin() != nil, fn.TypeParams().Len()))
		}
	}
	sort.Strings(out)
	for _, o := range out {
		fmt.Println(o)
	}
	return 0
}

// cmdAddNames: `gocv addnames <module>` inserts a positional `names` clause into every function contract of the
// module's contract files that has none, so that renaming a parameter in the code does not unbind the contract.
func cmdAddNames(args []string) int {
	m := modules[args[0]]
	p, err := loadModule(m, []string{"./..."})
	if err != nil {
		fmt.Println(err)
		return 2
	}
	specs, err := loadSpecs(p)
	if err != nil {
		fmt.Println(err)
		return 2
	}
	funcs := findFuncs(p)
	byFile := map[string]map[string]string{} // file -> "//@ func <text>" -> names line
	for key, fc := range specs.Funcs {
		if len(fc.Names) > 0 || fc.IsIface || !strings.HasPrefix(fc.File, repoRoot()) {
			continue
		}
		fn := funcs[key]
		if fn == nil || len(fn.Params) == 0 || fn.Parent() != nil {
			continue
		}
		var ns []string
		ok := true
		for _, prm := range fn.Params {
			if prm.Name() == "" || prm.Name() == "_" {
				ok = false
			}
			ns = append(ns, prm.Name())
		}
		if !ok {
			continue
		}
		if byFile[fc.File] == nil {
			byFile[fc.File] = map[string]string{}
		}
		byFile[fc.File][key] = strings.Join(ns, ", ")
	}
	n := 0
	for file, ks := range byFile {
		data, err := os.ReadFile(file)
		if err != nil {
			continue
		}
		lines := strings.Split(string(data), "\n")
		var out []string
		done := map[string]bool{}
		pkgName := ""
		for _, ln := range lines {
			out = append(out, ln)
			t := strings.TrimSpace(ln)
			if strings.HasPrefix(t, "package ") {
				pkgName = strings.TrimSpace(strings.TrimPrefix(t, "package "))
			}
			if strings.HasPrefix(t, "//@ pkgalias ") {
				pkgName = strings.TrimSpace(strings.TrimPrefix(t, "//@ pkgalias "))
			}
			if strings.HasPrefix(t, "//@ func ") {
				k := strings.TrimSpace(strings.TrimPrefix(t, "//@ func "))
				key := k
				if strings.HasPrefix(k, "(") || !strings.Contains(strings.SplitN(k, "(", 2)[0], ".") {
					key = pkgName + "." + k
				}
				if names, ok := ks[key]; ok && !done[key] {
					done[key] = true
					out = append(out, "//@   names "+names)
					n++
				}
			}
		}
		os.WriteFile(file, []byte(strings.Join(out, "\n")), 0o644)
	}
	fmt.Println("names clauses added:", n)
	return 0
}
