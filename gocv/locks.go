package main

// Monitor discipline: lockset obligations, monitor invariants at acquire/release.

import (
	"fmt"
	"go/token"
	"go/types"
	"strings"

	"golang.org/x/tools/go/ssa"
)

func (un *Unit) monitorFor(structT types.Type) *Monitor {
	n, ok := types.Unalias(structT).(*types.Named)
	if !ok {
		return nil
	}
	for _, m := range un.specs.Monitors {
		if m.Type == n.Obj().Name() && n.Obj().Pkg() != nil && pkgKey(n.Obj().Pkg()) == m.Pkg {
			return m
		}
	}
	return nil
}

func (un *Unit) uniqueName(base string) string {
	un.safetyN[base]++
	if n := un.safetyN[base]; n > 1 {
		return fmt.Sprintf("%s#%d", base, n)
	}
	return base
}

func (un *Unit) lockObl(fr *Frame, st *State, kind, text, goal string, pos token.Pos) {
	base := fmt.Sprintf("%s/lock/%s", funcKey(un.fn), kind)
	if fr.fn != un.fn {
		base += ">" + shortFn(fr.fn)
	}
	un.oblige(st, "lock", un.uniqueName(base), un.lockProps, goal, pos, text)
}

func fieldIndex(st *types.Struct, name string) int {
	for i := 0; i < st.NumFields(); i++ {
		if st.Field(i).Name() == name {
			return i
		}
	}
	return -1
}

// locksetCheck: an access to a guarded field needs the guarding lock (unless the object is still private: allocated in this call).
func (un *Unit) locksetCheck(fr *Frame, st *State, obj string, structT types.Type, field int, in *ssa.FieldAddr) {
	m := un.monitorFor(structT)
	if m == nil {
		return
	}
	stt := structT.Underlying().(*types.Struct)
	fname := stt.Field(field).Name()
	guarded := false
	for _, g := range m.Guards {
		if g == fname {
			guarded = true
		}
	}
	if !guarded {
		return
	}
	mi := fieldIndex(stt, m.Mu)
	if mi < 0 {
		un.outside = "monitor lock field " + m.Mu + " not found"
		return
	}
	write := false
	if refs := in.Referrers(); refs != nil {
		for _, r := range *refs {
			switch r := r.(type) {
			case *ssa.Store:
				if r.Addr == in {
					write = true
				}
			case *ssa.UnOp:
			case *ssa.DebugRef:
			default:
				// address escapes (passed to a call, atomic op, ...): treat as write
				write = true
			}
		}
	}
	muT := stt.Field(mi).Type()
	var lockVal string
	if _, isPtr := muT.Underlying().(*types.Pointer); isPtr {
		// lock held by pointer: *sync.RWMutex
		c, _ := un.fieldComp(structT, mi)
		lp := sel(un.get(st, c), obj)
		lockVal = sel(un.get(st, un.cellComp(muT.Underlying().(*types.Pointer).Elem())), lp)
	} else {
		c, _ := un.fieldComp(structT, mi)
		lockVal = sel(un.get(st, c), obj)
	}
	private := "(>= " + obj + " " + un.next(un.entry) + ")"
	var held string
	mode := "read"
	if write {
		held = eq(lockVal, "2")
		mode = "write"
	} else {
		held = "(>= " + lockVal + " 1)"
	}
	base := fmt.Sprintf("%s/lockset/%s.%s@%s", funcKey(un.fn), m.Type, fname, mode)
	if fr.fn != un.fn {
		base += ">" + shortFn(fr.fn)
	}
	un.oblige(st, "lockset", un.uniqueName(base), m.Props, or(private, held), in.Pos(),
		fmt.Sprintf("%s of %s.%s requires %s held (or a still-private object)", mode, m.Type, fname, m.Mu))
}

// monitorOfLockPlace finds the monitor whose lock lives at place p (a field component H_pkg.T.mu keyed by the object).
// ownerOfPointerLock: the lock is reached through a pointer field (x.mu where mu is *sync.RWMutex / *sync.Cond):
// recognise `load(&x.f)` in the SSA argument and return x and the monitor declared on that field.
func (un *Unit) ownerOfPointerField(fr *Frame, arg ssa.Value, wantCond bool) (*Monitor, string, types.Type) {
	ld, ok := arg.(*ssa.UnOp)
	if !ok || ld.Op != token.MUL {
		return nil, "", nil
	}
	fa, ok := ld.X.(*ssa.FieldAddr)
	if !ok {
		return nil, "", nil
	}
	pt := fa.X.Type().Underlying().(*types.Pointer).Elem()
	m := un.monitorFor(pt)
	if m == nil {
		return nil, "", nil
	}
	fname := pt.Underlying().(*types.Struct).Field(fa.Field).Name()
	if (!wantCond && fname == m.Mu) || (wantCond && fname == m.Cond) {
		return m, un.val(fr, fa.X).t, pt
	}
	return nil, "", nil
}

func (un *Unit) monitorOfLockPlace(p *Place) (*Monitor, string, types.Type) {
	kind := un.compKind[p.comp]
	if !strings.HasPrefix(kind, "field:") || len(p.keys) != 1 {
		if un.callFrame != nil && len(un.curCallArgs) >= 1 {
			return un.ownerOfPointerField(un.callFrame, un.curCallArgs[0], false)
		}
		return nil, "", nil
	}
	tf := strings.TrimPrefix(kind, "field:") // pkg.T.mu
	for _, m := range un.specs.Monitors {
		if tf == m.Pkg+"."+m.Type+"."+m.Mu {
			pkg := un.pkgByName(m.Pkg)
			if pkg == nil {
				return nil, "", nil
			}
			obj := pkg.Scope().Lookup(m.Type)
			if obj == nil {
				return nil, "", nil
			}
			return m, p.keys[0], obj.Type()
		}
	}
	return nil, "", nil
}

func (un *Unit) monitorScope(fr *Frame, st *State, m *Monitor, obj string, t types.Type) *Scope {
	sc := &Scope{un: un, vars: map[string]SV{}, cur: st, old: un.entry, pkg: un.pkgByName(m.Pkg), fr: fr}
	sc.vars["this"] = SV{t: obj, typ: types.NewPointer(t)}
	return sc
}

func (un *Unit) onAcquire(fr *Frame, st *State, lp *Place, pos token.Pos) {
	m, obj, t := un.monitorOfLockPlace(lp)
	if m == nil {
		return
	}
	un.acquireEffects(fr, st, m, obj, t)
}

func (un *Unit) acquireEffects(fr *Frame, st *State, m *Monitor, obj string, t types.Type) {
	stt := t.Underlying().(*types.Struct)
	// other threads may have changed everything the lock guards
	for _, g := range m.Guards {
		fi := fieldIndex(stt, g)
		if fi < 0 {
			un.outside = "monitor guards unknown field " + g
			return
		}
		ft := stt.Field(fi).Type()
		key := m.Pkg + "." + m.Type + "." + g
		c, _ := un.fieldComp(t, fi)
		if !un.specs.Immutable[key] {
			before := sel(un.get(st, c), obj)
			fresh := un.u.freshConst("acq_"+g, un.u.sortOf(ft))
			un.assume(st, un.typeFacts(st, fresh, ft))
			un.set(st, c, sto(un.get(st, c), fresh, obj))
			for _, mf := range m.Monotone {
				if mf == g {
					// rely: no thread ever resets this flag (every store to it is checked to keep it monotone)
					un.assume(st, implies(before, fresh))
				}
			}
		}
		if mt, ok := ft.Underlying().(*types.Map); ok {
			ref := sel(un.get(st, c), obj)
			d, vv, l := un.mapComps(mt)
			for _, mc := range []string{d, vv, l} {
				fresh := un.u.freshConst("acq_map", elemSortOf(un.compSort[mc]))
				un.set(st, mc, sto(un.get(st, mc), fresh, ref))
			}
			un.addFact("(>= " + sel(un.get(st, l), ref) + " 0)")
		}
	}
	sc := un.monitorScope(fr, st, m, obj, t)
	for _, h := range m.Havocs {
		un.havocLvalue(h, sc, st)
	}
	sc = un.monitorScope(fr, st, m, obj, t)
	for _, cl := range m.Invs {
		tm, _ := un.evalSpec(cl.E, sc)
		un.assume(st, tm)
	}
	// monitor methods specify their critical section: with `opt old-at-acquire`, old(...) in the postconditions
	// denotes the state right after the (first) acquisition, i.e. the linearisation point's pre-state
	un.lastAcquireSnap = st.clone()
	if un.contract != nil && un.acquireSnap == nil {
		if _, ok := un.contract.Opts["old-at-acquire"]; ok {
			un.acquireSnap = st.clone()
		}
	}
}

func (un *Unit) onRelease(fr *Frame, st *State, lp *Place, pos token.Pos) {
	m, obj, t := un.monitorOfLockPlace(lp)
	if m == nil {
		return
	}
	un.releaseChecks(fr, st, m, obj, t, pos)
}

func (un *Unit) releaseChecks(fr *Frame, st *State, m *Monitor, obj string, t types.Type, pos token.Pos) {
	sc := un.monitorScope(fr, st, m, obj, t)
	for _, cl := range m.Invs {
		tm, _ := un.evalSpec(cl.E, sc)
		base := fmt.Sprintf("%s/monitor-inv/%s:%s", funcKey(un.fn), m.Type, labelOr(cl.Label, "inv"))
		if fr.fn != un.fn {
			base += ">" + shortFn(fr.fn)
		}
		props := cl.Props
		if len(props) == 0 {
			props = m.Props
		}
		un.oblige(st, "monitor", un.uniqueName(base), props, tm, pos, cl.Text)
	}
}

// condWait: sync.Cond.Wait atomically releases the monitor's lock, waits, and re-acquires it: the monitor invariant
// must hold going in, and coming out everything the lock guards may have changed (and the invariant holds again).
func (un *Unit) condWait(fr *Frame, st *State, cond Val, pos token.Pos) {
	if len(un.curCallArgs) < 1 {
		un.outside = "sync.Cond.Wait outside a recognised monitor pattern"
		return
	}
	m, obj, t := un.ownerOfPointerField(fr, un.curCallArgs[0], true)
	if m == nil {
		un.outside = "sync.Cond.Wait on a condition variable that no monitor declares (cond <field>)"
		return
	}
	stt := t.Underlying().(*types.Struct)
	mi := fieldIndex(stt, m.Mu)
	c, _ := un.fieldComp(t, mi)
	muT := stt.Field(mi).Type()
	var lockVal string
	if pt, isPtr := muT.Underlying().(*types.Pointer); isPtr {
		lockVal = sel(un.get(st, un.cellComp(pt.Elem())), sel(un.get(st, c), obj))
	} else {
		lockVal = sel(un.get(st, c), obj)
	}
	un.lockObl(fr, st, "wait-holds-lock", "Cond.Wait is called with the monitor's lock held for writing", eq(lockVal, "2"), pos)
	un.releaseChecks(fr, st, m, obj, t, pos)
	un.acquireEffects(fr, st, m, obj, t)
}


// monotoneStore: a store to a field declared monotone must keep it monotone (guarantee side of the rely condition).
func (un *Unit) monotoneStore(fr *Frame, st *State, p *Place, newVal string, pos token.Pos) {
	kind := un.compKind[p.comp]
	if !strings.HasPrefix(kind, "field:") || len(p.keys) != 1 {
		return
	}
	tf := strings.TrimPrefix(kind, "field:")
	for _, m := range un.specs.Monitors {
		for cf, gname := range m.Counts {
			if tf == m.Pkg+"."+m.Type+"."+cf {
				// counting ownership: this thread's share moves with the field
				old := un.loadPlace(st, p)
				comp := un.comp("G_"+gname, arraySort("Int", "Int"), "ghost")
				cur := un.get(st, comp)
				obj := p.keys[0]
				un.set(st, comp, sto(cur, "(+ "+sel(cur, obj)+" (- "+newVal+" "+old+"))", obj))
			}
		}
		for _, mf := range m.Monotone {
			if tf == m.Pkg+"."+m.Type+"."+mf {
				old := un.loadPlace(st, p)
				base := fmt.Sprintf("%s/monotone/%s.%s", funcKey(un.fn), m.Type, mf)
				un.oblige(st, "monitor", un.uniqueName(base), m.Props, implies(old, newVal), pos, "a monotone flag is never reset")
			}
		}
	}
}
