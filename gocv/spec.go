package main

// Contract language: lexer, expression parser, contract-file parser.
// Contracts are `//@` lines in comment-only Go files (zz_contracts_verif.go, build tag verif)
// next to the code in /repo, plus assumed contracts for code outside /repo in
// /verif/contracts/assumed/*.spec (same syntax, lines need no //@ prefix).

import (
	"fmt"
	"os"
	"path/filepath"
	"strconv"
	"strings"
	"unicode"
)

// ---------- expressions ----------

type Expr interface{}

type (
	EIdent struct{ Name string }
	EInt   struct{ V string }
	EStr   struct{ V string }
	EBool  struct{ V bool }
	EUnary struct {
		Op string
		X  Expr
	}
	EBinary struct {
		Op   string
		X, Y Expr
	}
	ECall struct {
		Fun  string
		Args []Expr
	}
	ESel struct {
		X    Expr
		Name string
	}
	EIndex struct{ X, I Expr }
	ESlice struct{ X, Lo, Hi Expr }
	EQuant struct {
		Forall bool
		Vars   []QVar
		Body   Expr
		Setof  bool // setof x T :: p  -- the set of all x with p
	}
	EIte struct{ C, A, B Expr }
)

type QVar struct{ Name, Type string }

type ltok struct {
	kind string // id int str op eof
	text string
}

type lexer struct {
	toks []ltok
	pos  int
	src  string
}

func lex(s string) ([]ltok, error) {
	var toks []ltok
	i := 0
	for i < len(s) {
		c := s[i]
		switch {
		case c == ' ' || c == '\t' || c == '\n' || c == '\r':
			i++
		case unicode.IsLetter(rune(c)) || c == '_':
			j := i
			for j < len(s) && (unicode.IsLetter(rune(s[j])) || unicode.IsDigit(rune(s[j])) || s[j] == '_' || s[j] == '$') {
				j++
			}
			toks = append(toks, ltok{"id", s[i:j]})
			i = j
		case unicode.IsDigit(rune(c)):
			j := i
			for j < len(s) && (unicode.IsDigit(rune(s[j])) || s[j] == 'x' || (s[j] >= 'a' && s[j] <= 'f') || (s[j] >= 'A' && s[j] <= 'F') || s[j] == '_') {
				j++
			}
			toks = append(toks, ltok{"int", strings.ReplaceAll(s[i:j], "_", "")})
			i = j
		case c == '"':
			j := i + 1
			for j < len(s) && s[j] != '"' {
				if s[j] == '\\' {
					j++
				}
				j++
			}
			if j >= len(s) {
				return nil, fmt.Errorf("unterminated string in %q", s)
			}
			v, err := strconv.Unquote(s[i : j+1])
			if err != nil {
				return nil, fmt.Errorf("bad string %s", s[i:j+1])
			}
			toks = append(toks, ltok{"str", v})
			i = j + 1
		default:
			ops := []string{"<==>", "==>", "::", "==", "!=", "<=", ">=", "&&", "||", ":=", "<<", ">>", "&^"}
			matched := false
			for _, op := range ops {
				if strings.HasPrefix(s[i:], op) {
					toks = append(toks, ltok{"op", op})
					i += len(op)
					matched = true
					break
				}
			}
			if !matched {
				toks = append(toks, ltok{"op", string(c)})
				i++
			}
		}
	}
	toks = append(toks, ltok{"eof", ""})
	return toks, nil
}

func (l *lexer) peek() ltok { return l.toks[l.pos] }
func (l *lexer) next() ltok  { t := l.toks[l.pos]; l.pos++; return t }
func (l *lexer) accept(kind, text string) bool {
	t := l.peek()
	if t.kind == kind && t.text == text {
		l.pos++
		return true
	}
	return false
}
func (l *lexer) expect(kind, text string) error {
	if !l.accept(kind, text) {
		return fmt.Errorf("expected %q, found %q in %q", text, l.peek().text, l.src)
	}
	return nil
}

func parseExpr(s string) (Expr, error) {
	toks, err := lex(s)
	if err != nil {
		return nil, err
	}
	l := &lexer{toks: toks, src: s}
	e, err := l.parseIff()
	if err != nil {
		return nil, err
	}
	if l.peek().kind != "eof" {
		return nil, fmt.Errorf("trailing %q in %q", l.peek().text, s)
	}
	return e, nil
}

func (l *lexer) parseIff() (Expr, error) {
	x, err := l.parseImp()
	if err != nil {
		return nil, err
	}
	for l.accept("op", "<==>") {
		y, err := l.parseImp()
		if err != nil {
			return nil, err
		}
		x = &EBinary{"<==>", x, y}
	}
	return x, nil
}

func (l *lexer) parseImp() (Expr, error) {
	x, err := l.parseOr()
	if err != nil {
		return nil, err
	}
	if l.accept("op", "==>") {
		y, err := l.parseImp()
		if err != nil {
			return nil, err
		}
		return &EBinary{"==>", x, y}, nil
	}
	return x, nil
}

func (l *lexer) parseOr() (Expr, error) {
	x, err := l.parseAnd()
	if err != nil {
		return nil, err
	}
	for l.accept("op", "||") {
		y, err := l.parseAnd()
		if err != nil {
			return nil, err
		}
		x = &EBinary{"||", x, y}
	}
	return x, nil
}

func (l *lexer) parseAnd() (Expr, error) {
	x, err := l.parseCmp()
	if err != nil {
		return nil, err
	}
	for l.accept("op", "&&") {
		y, err := l.parseCmp()
		if err != nil {
			return nil, err
		}
		x = &EBinary{"&&", x, y}
	}
	return x, nil
}

func (l *lexer) parseCmp() (Expr, error) {
	x, err := l.parseAdd()
	if err != nil {
		return nil, err
	}
	for {
		t := l.peek()
		if t.kind == "op" && (t.text == "==" || t.text == "!=" || t.text == "<" || t.text == "<=" || t.text == ">" || t.text == ">=") {
			l.next()
			y, err := l.parseAdd()
			if err != nil {
				return nil, err
			}
			x = &EBinary{t.text, x, y}
			continue
		}
		if t.kind == "id" && t.text == "in" {
			l.next()
			y, err := l.parseAdd()
			if err != nil {
				return nil, err
			}
			x = &EBinary{"in", x, y}
			continue
		}
		return x, nil
	}
}

func (l *lexer) parseAdd() (Expr, error) {
	x, err := l.parseMul()
	if err != nil {
		return nil, err
	}
	for {
		t := l.peek()
		if t.kind == "op" && (t.text == "+" || t.text == "-" || t.text == "|" || t.text == "^") {
			l.next()
			y, err := l.parseMul()
			if err != nil {
				return nil, err
			}
			x = &EBinary{t.text, x, y}
			continue
		}
		return x, nil
	}
}

func (l *lexer) parseMul() (Expr, error) {
	x, err := l.parseUnary()
	if err != nil {
		return nil, err
	}
	for {
		t := l.peek()
		if t.kind == "op" && (t.text == "*" || t.text == "/" || t.text == "%" || t.text == "&" || t.text == "<<" || t.text == ">>" || t.text == "&^") {
			l.next()
			y, err := l.parseUnary()
			if err != nil {
				return nil, err
			}
			x = &EBinary{t.text, x, y}
			continue
		}
		return x, nil
	}
}

func (l *lexer) parseUnary() (Expr, error) {
	t := l.peek()
	if t.kind == "op" && (t.text == "!" || t.text == "-" || t.text == "*") {
		l.next()
		x, err := l.parseUnary()
		if err != nil {
			return nil, err
		}
		return &EUnary{t.text, x}, nil
	}
	return l.parsePostfix()
}

// parseTypeText reads a type up to (not including) a top-level ',' or '::' or ')'.
func (l *lexer) parseTypeText() string {
	var sb strings.Builder
	depth := 0
	for {
		t := l.peek()
		if t.kind == "eof" {
			break
		}
		if depth == 0 && t.kind == "op" && (t.text == "," || t.text == "::" || t.text == ")") {
			break
		}
		if t.kind == "op" && (t.text == "(" || t.text == "[") {
			depth++
		}
		if t.kind == "op" && (t.text == ")" || t.text == "]") {
			depth--
		}
		l.next()
		sb.WriteString(t.text)
	}
	return sb.String()
}

func (l *lexer) parsePrimary() (Expr, error) {
	t := l.next()
	switch t.kind {
	case "int":
		return &EInt{t.text}, nil
	case "str":
		return &EStr{t.text}, nil
	case "id":
		switch t.text {
		case "true":
			return &EBool{true}, nil
		case "false":
			return &EBool{false}, nil
		case "forall", "exists", "setof":
			var vars []QVar
			for {
				var names []string
				n := l.next()
				if n.kind != "id" {
					return nil, fmt.Errorf("quantifier variable expected in %q", l.src)
				}
				names = append(names, n.text)
				// "x, y T" form: names separated by commas until a type appears
				for l.peek().kind == "op" && l.peek().text == "," {
					// lookahead: id followed by ',' or type? we accept "a, b T"
					save := l.pos
					l.next()
					n2 := l.peek()
					if n2.kind == "id" {
						// is next-next a ',' or a type token?
						l.next()
						nn := l.peek()
						if nn.kind == "op" && nn.text == "," || (nn.kind != "op" || nn.text == "*" || nn.text == "[") {
							names = append(names, n2.text)
							continue
						}
					}
					l.pos = save
					break
				}
				ty := l.parseTypeText()
				for _, nm := range names {
					vars = append(vars, QVar{nm, ty})
				}
				if l.accept("op", ",") {
					continue
				}
				break
			}
			if err := l.expect("op", "::"); err != nil {
				return nil, err
			}
			body, err := l.parseIff()
			if err != nil {
				return nil, err
			}
			return &EQuant{t.text == "forall", vars, body, t.text == "setof"}, nil
		case "if":
			c, err := l.parseIff()
			if err != nil {
				return nil, err
			}
			if !l.accept("id", "then") {
				return nil, fmt.Errorf("expected then in %q", l.src)
			}
			a, err := l.parseIff()
			if err != nil {
				return nil, err
			}
			if !l.accept("id", "else") {
				return nil, fmt.Errorf("expected else in %q", l.src)
			}
			b, err := l.parseIff()
			if err != nil {
				return nil, err
			}
			return &EIte{c, a, b}, nil
		}
		if l.peek().kind == "op" && l.peek().text == "(" {
			l.next()
			var args []Expr
			if !l.accept("op", ")") {
				for {
					a, err := l.parseIff()
					if err != nil {
						return nil, err
					}
					args = append(args, a)
					if l.accept("op", ",") {
						continue
					}
					if err := l.expect("op", ")"); err != nil {
						return nil, err
					}
					break
				}
			}
			return &ECall{t.text, args}, nil
		}
		return &EIdent{t.text}, nil
	case "op":
		if t.text == "(" {
			e, err := l.parseIff()
			if err != nil {
				return nil, err
			}
			if err := l.expect("op", ")"); err != nil {
				return nil, err
			}
			return e, nil
		}
	}
	return nil, fmt.Errorf("unexpected %q in %q", t.text, l.src)
}

func (l *lexer) parsePostfix() (Expr, error) {
	x, err := l.parsePrimary()
	if err != nil {
		return nil, err
	}
	for {
		t := l.peek()
		if t.kind != "op" {
			return x, nil
		}
		switch t.text {
		case ".":
			l.next()
			n := l.next()
			if n.kind != "id" {
				return nil, fmt.Errorf("field name expected in %q", l.src)
			}
			x = &ESel{x, n.text}
		case "[":
			l.next()
			if l.accept("op", ":") {
				hi, err := l.parseIff()
				if err != nil {
					return nil, err
				}
				if err := l.expect("op", "]"); err != nil {
					return nil, err
				}
				x = &ESlice{x, nil, hi}
				continue
			}
			i, err := l.parseIff()
			if err != nil {
				return nil, err
			}
			if l.accept("op", ":") {
				var hi Expr
				if !(l.peek().kind == "op" && l.peek().text == "]") {
					hi, err = l.parseIff()
					if err != nil {
						return nil, err
					}
				}
				if err := l.expect("op", "]"); err != nil {
					return nil, err
				}
				x = &ESlice{x, i, hi}
				continue
			}
			if err := l.expect("op", "]"); err != nil {
				return nil, err
			}
			x = &EIndex{x, i}
		default:
			return x, nil
		}
	}
}

// ---------- contract items ----------

type Clause struct {
	Kind  string   // requires ensures modifies panics invariant decreases
	Props []string // property ids this clause belongs to (empty = base)
	Label string
	Text  string
	E     Expr
	Ghost bool // "ghost ensures": assumed by callers, not checked against the body
	Loop  int  // for loop invariants: ordinal of the for statement (1-based)
	Line  string
}

type FuncContract struct {
	implOf   string // refinement unit: key of the method whose body is verified against an interface contract
	Key      string // pkg.(*T).M
	Pkg      string
	Facets   []string
	Clauses  []*Clause
	Inline   bool
	Trusted  bool
	Arith    string            // "", "int", "bv"
	Params   map[string]string // function-typed parameter -> funcspec name
	Impl     string            // closure implements this funcspec
	File     string
	IsIface  bool
	Pure     bool // no heap effect at all (besides listed modifies)
	Havoc    bool // uncontracted external: havoc results, nothing else
	Opts     map[string]string
	Names    []string // explicit parameter names for iface / external contracts
	Safety   []string // properties the function's safety (no-panic) obligations belong to
	implMerged bool
	Attrs    []*SpecFn // abstract-predicate definitions for closures: attr name(params) = body over the captured variables
	ResNames []string
}

type Monitor struct {
	Pkg, Type, Mu string
	Guards        []string
	Havocs        []string // extra ghost locations havoc'd at acquire, as expression texts over "this"
	Invs          []*Clause
	Props         []string
	Cond          string // field holding the sync.Cond tied to the lock
	Monotone      []string // guarded boolean fields that only ever go false -> true (rely condition on other threads)
	// Counts: guarded integer field -> ghost field holding THIS thread's share of it (counting ownership): every store
	// to the field under verification moves the ghost by the same amount, so that `field >= share >= 0` can be an
	// invariant although other threads change the field between critical sections (declared `counts field as ghost`)
	Counts map[string]string
}

// GhostDef: for receivers of the concrete type, the ghost field is not free but defined by the object's state
// (the abstraction function of an implementation of an interface contract).
type GhostDef struct {
	Name  string
	Pkg   string
	Type  string // concrete struct type name (the parameter is a pointer to it)
	Param string
	Body  string
	E     Expr
}

type GhostDecl struct {
	Name    string
	Field   bool
	Type    string // for fields: the Go type the field hangs off (informational)
	Sort    string // SMT sort, or int/bool/string
	Counter bool   // a ghost var that only ever grows: every havoc of it is constrained to be >= the old value
	Default string // value at keys that denote objects not allocated yet ("" = unconstrained)
}

type SpecFn struct {
	Name   string
	Params []QVar
	Sort   string
	Body   string
	E      Expr
}

type Lemma struct {
	Name  string
	Props []string
	Text  string
	E     Expr
	Axiom bool
	Pkg   string
}

// WireDecl: the serialised shape of a struct type (field names, Go types and json tags), checked against the type as
// declared in the tree by the generator itself (a structural obligation: no solver involved).
type WireDecl struct {
	Pkg, Type string
	TagKey    string // struct tag key the shape is about (json unless stated: wire (T) @dynamodbav ...)
	Props     []string
	Label     string
	Fields    []WireField
	Text      string
}

type WireField struct{ Name, Type, Tag string }

type ImplDecl struct {
	Pkg, Iface, Type string
	Separate         bool // keep the method's own contract for its callers; verify the body a second time against the interface contract
}

type Specs struct {
	Funcs      map[string]*FuncContract
	Ifaces     map[string]*FuncContract // "pkg.Iface.Method"
	FuncSpecs  map[string]*FuncContract
	Monitors   []*Monitor
	Ghosts     map[string]*GhostDecl
	SpecFns    map[string]*SpecFn
	Lemmas     []*Lemma
	Impls      []ImplDecl
	Immutable  map[string]bool // "pkg.T.f"
	GhostDefs  map[string][]*GhostDef
	Wires      []*WireDecl
	ChanInvs   map[string][]*Clause // "pkg.T" -> invariant over e (every value sent on a chan T satisfies it)
	FuncVars   map[string]string // "pkg.name" -> funcspec: the package-level function variable holds a function satisfying it
	FuncFields map[string]string // "pkg.T.f" -> funcspec name: the field holds a function satisfying that funcspec
	Volatile   map[string]bool // "pkg.T.f": fields accessed atomically / concurrently: exempt from frames, havoc'd by every effectful call
	ObjInvs    map[string][]*Clause
	FilesRead  []string
	StringsSMT bool
}

func newSpecs() *Specs {
	return &Specs{Funcs: map[string]*FuncContract{}, Ifaces: map[string]*FuncContract{}, FuncSpecs: map[string]*FuncContract{},
		Ghosts: map[string]*GhostDecl{}, SpecFns: map[string]*SpecFn{}, GhostDefs: map[string][]*GhostDef{}, ChanInvs: map[string][]*Clause{}, FuncVars: map[string]string{}, FuncFields: map[string]string{}, Immutable: map[string]bool{}, Volatile: map[string]bool{}, ObjInvs: map[string][]*Clause{}}
}

var itemKeywords = map[string]bool{"func": true, "iface": true, "impl": true, "monitor": true, "funcspec": true, "ghost": true,
	"spec": true, "axiom": true, "lemma": true, "immutable": true, "extern": true, "volatile": true, "funcfield": true, "funcvar": true, "chaninv": true, "wire": true}
var clauseKeywords = map[string]bool{"facet": true, "requires": true, "ensures": true, "modifies": true, "panics-when": true, "cbassume": true,
	"inline": true, "trusted": true, "loop": true, "param": true, "arith": true, "invariant": true, "implements": true,
	"guards": true, "havocs": true, "pure": true, "names": true, "results": true, "opt": true, "safety": true, "attr": true, "cond": true, "monotone": true, "counts": true}

// logical lines: a line whose first word is a keyword starts a new logical line; other lines continue the previous.
func logicalLines(raw []string) []string {
	var out []string
	for _, ln := range raw {
		s := strings.TrimSpace(ln)
		if s == "" {
			continue
		}
		// strip trailing // comments (not inside strings)
		if i := commentStart(s); i >= 0 {
			s = strings.TrimSpace(s[:i])
			if s == "" {
				continue
			}
		}
		w := firstWord(s)
		if w == "ghost" {
			// "ghost ensures" / "ghost requires" are clause starts; "ghost var/field" are items
			out = append(out, s)
			continue
		}
		if itemKeywords[w] || clauseKeywords[w] {
			out = append(out, s)
		} else if len(out) > 0 {
			out[len(out)-1] += " " + s
		}
	}
	return out
}

func commentStart(s string) int {
	in := false
	for i := 0; i+1 < len(s); i++ {
		if s[i] == '"' {
			in = !in
		}
		if !in && s[i] == '/' && s[i+1] == '/' {
			return i
		}
	}
	return -1
}

func firstWord(s string) string {
	for i, c := range s {
		if c == ' ' || c == '\t' {
			return s[:i]
		}
	}
	return s
}

func rest(s string) string {
	w := firstWord(s)
	return strings.TrimSpace(s[len(w):])
}

// parseLabel parses an optional "[C05,C20:label]" prefix.
func parseLabel(s string) (props []string, label string, body string) {
	s = strings.TrimSpace(s)
	if !strings.HasPrefix(s, "[") {
		return nil, "", s
	}
	end := strings.Index(s, "]")
	if end < 0 {
		return nil, "", s
	}
	inner := s[1:end]
	body = strings.TrimSpace(s[end+1:])
	if i := strings.Index(inner, ":"); i >= 0 {
		for _, p := range strings.Split(inner[:i], ",") {
			if p = strings.TrimSpace(p); p != "" {
				props = append(props, p)
			}
		}
		label = strings.TrimSpace(inner[i+1:])
	} else {
		label = strings.TrimSpace(inner)
	}
	return
}

func (sp *Specs) parseFile(path, pkgName string, lines []string) error {
	sp.FilesRead = append(sp.FilesRead, path)
	ll := logicalLines(lines)
	var cur *FuncContract
	var curMon *Monitor
	fail := func(ln string, err error) error { return fmt.Errorf("%s: %q: %v", path, ln, err) }
	for _, ln := range ll {
		w := firstWord(ln)
		r := rest(ln)
		ghostClause := false
		if w == "ghost" {
			w2 := firstWord(r)
			if w2 == "ensures" || w2 == "requires" {
				ghostClause = true
				w = w2
				r = rest(r)
			}
		}
		switch w {
		case "func", "extern":
			key := r
			if !strings.Contains(strings.SplitN(key, "(", 2)[0], ".") && !strings.HasPrefix(key, "(") {
				key = pkgName + "." + key
			} else if strings.HasPrefix(key, "(") {
				key = pkgName + "." + key
			}
			if old, dup := sp.Funcs[key]; dup {
				// a later block for the same function adds clauses (contracts are grouped by property in the files)
				cur = old
			} else {
				cur = &FuncContract{Key: key, Pkg: pkgName, File: path, Params: map[string]string{}, Opts: map[string]string{}}
				sp.Funcs[key] = cur
			}
			curMon = nil
		case "iface":
			key := strings.ReplaceAll(r, " ", "")
			if !strings.Contains(key, "[") && strings.Count(key, ".") == 1 {
				key = pkgName + "." + key
			}
			cur = &FuncContract{Key: key, Pkg: pkgName, File: path, IsIface: true, Params: map[string]string{}, Opts: map[string]string{}}
			sp.Ifaces[key] = cur
			curMon = nil
		case "funcspec":
			cur = &FuncContract{Key: r, Pkg: pkgName, File: path, Params: map[string]string{}, Opts: map[string]string{}}
			sp.FuncSpecs[r] = cur
			curMon = nil
		case "impl":
			// impl Iface by Type
			parts := strings.Fields(r)
			if !(len(parts) == 3 || (len(parts) == 4 && parts[3] == "separately")) || parts[1] != "by" {
				return fail(ln, fmt.Errorf("want: impl Iface by Type [separately]"))
			}
			sp.Impls = append(sp.Impls, ImplDecl{pkgName, parts[0], parts[2], len(parts) == 4})
			cur, curMon = nil, nil
		case "monitor":
			// monitor (*T).mu
			i := strings.Index(r, ").")
			if !strings.HasPrefix(r, "(") || i < 0 {
				return fail(ln, fmt.Errorf("want: monitor (*T).mu"))
			}
			ty := strings.TrimPrefix(r[1:i], "*")
			mu := strings.TrimSpace(r[i+2:])
			curMon = &Monitor{Pkg: pkgName, Type: ty, Mu: mu}
			sp.Monitors = append(sp.Monitors, curMon)
			cur = nil
		case "guards":
			if curMon == nil {
				return fail(ln, fmt.Errorf("guards outside monitor"))
			}
			for _, g := range strings.Split(r, ",") {
				curMon.Guards = append(curMon.Guards, strings.TrimSpace(g))
			}
		case "monotone":
			if curMon == nil {
				return fail(ln, fmt.Errorf("monotone outside monitor"))
			}
			for _, g := range strings.Split(r, ",") {
				curMon.Monotone = append(curMon.Monotone, strings.TrimSpace(g))
			}
		case "counts":
			// counts <field> as <ghost>
			f := strings.Fields(r)
			if curMon == nil || len(f) != 3 || f[1] != "as" {
				return fail(ln, fmt.Errorf("want (inside a monitor): counts <field> as <ghost>"))
			}
			if curMon.Counts == nil {
				curMon.Counts = map[string]string{}
			}
			curMon.Counts[f[0]] = f[2]
			if g, dup := sp.Ghosts[f[2]]; dup && (!g.Field || g.Sort != "int") {
				return fail(ln, fmt.Errorf("ghost %s declared twice with different shapes", f[2]))
			}
			sp.Ghosts[f[2]] = &GhostDecl{Name: f[2], Field: true, Type: "ref", Sort: "int", Default: "0"}
		case "cond":
			if curMon == nil {
				return fail(ln, fmt.Errorf("cond outside monitor"))
			}
			curMon.Cond = strings.TrimSpace(r)
		case "havocs":
			if curMon == nil {
				return fail(ln, fmt.Errorf("havocs outside monitor"))
			}
			for _, g := range splitTop(r) {
				curMon.Havocs = append(curMon.Havocs, strings.TrimSpace(g))
			}
		case "immutable":
			// immutable (T).f, (T).g
			for _, it := range strings.Split(r, ",") {
				it = strings.TrimSpace(it)
				i := strings.Index(it, ").")
				if !strings.HasPrefix(it, "(") || i < 0 {
					return fail(ln, fmt.Errorf("want: immutable (T).f"))
				}
				sp.Immutable[pkgName+"."+strings.TrimPrefix(it[1:i], "*")+"."+it[i+2:]] = true
			}
		case "wire":
			// wire (T) [P:label] Field:gotype:"json tag" ...
			i := strings.Index(r, ")")
			if !strings.HasPrefix(r, "(") || i < 0 {
				return fail(ln, fmt.Errorf("want: wire (T) [label] Field:type:\"tag\" ..."))
			}
			restw := strings.TrimSpace(r[i+1:])
			tagKey := "json"
			if strings.HasPrefix(restw, "@") {
				tagKey = firstWord(restw)[1:]
				restw = rest(restw)
			}
			props, label, body := parseLabel(restw)
			wd := &WireDecl{Pkg: pkgName, Type: strings.TrimPrefix(r[1:i], "*"), Props: props, Label: label, Text: body, TagKey: tagKey}
			for _, f := range strings.Fields(body) {
				ps := strings.SplitN(f, ":", 3)
				if len(ps) != 3 {
					return fail(ln, fmt.Errorf("wire field %q: want Field:type:\"tag\"", f))
				}
				wd.Fields = append(wd.Fields, WireField{ps[0], ps[1], strings.Trim(ps[2], "\"")})
			}
			sp.Wires = append(sp.Wires, wd)
			cur, curMon = nil, nil
		case "chaninv":
			// chaninv (T) [label] expr over e
			i := strings.Index(r, ")")
			if !strings.HasPrefix(r, "(") || i < 0 {
				return fail(ln, fmt.Errorf("want: chaninv (T) expr"))
			}
			props, label, body := parseLabel(r[i+1:])
			ex, err := parseExpr(body)
			if err != nil {
				return fail(ln, err)
			}
			k := pkgName + "." + strings.TrimPrefix(r[1:i], "*")
			sp.ChanInvs[k] = append(sp.ChanInvs[k], &Clause{Kind: "invariant", Props: props, Label: label, Text: body, E: ex})
		case "funcvar":
			// funcvar name funcspecName
			fs := strings.Fields(r)
			if len(fs) != 2 {
				return fail(ln, fmt.Errorf("want: funcvar name funcspec"))
			}
			sp.FuncVars[pkgName+"."+fs[0]] = fs[1]
		case "funcfield":
			// funcfield (T).f funcspecName
			fs := strings.Fields(r)
			if len(fs) != 2 || !strings.HasPrefix(fs[0], "(") || !strings.Contains(fs[0], ").") {
				return fail(ln, fmt.Errorf("want: funcfield (T).f funcspec"))
			}
			i := strings.Index(fs[0], ").")
			sp.FuncFields[pkgName+"."+strings.TrimPrefix(fs[0][1:i], "*")+"."+fs[0][i+2:]] = fs[1]
		case "volatile":
			for _, it := range strings.Split(r, ",") {
				it = strings.TrimSpace(it)
				i := strings.Index(it, ").")
				if !strings.HasPrefix(it, "(") || i < 0 {
					return fail(ln, fmt.Errorf("want: volatile (T).f"))
				}
				sp.Volatile[pkgName+"."+strings.TrimPrefix(it[1:i], "*")+"."+it[i+2:]] = true
			}
		case "ghost":
			// ghost var name sort | ghost field name(T) sort
			parts := strings.Fields(r)
			if len(parts) < 3 {
				return fail(ln, fmt.Errorf("want: ghost var|field name sort"))
			}
			switch parts[0] {
			case "define":
				// ghost define name(this *T) = expr
				r2 := strings.TrimSpace(strings.TrimPrefix(r, "define"))
				i := strings.Index(r2, "(")
				j := matchParen(r2, i)
				k := strings.Index(r2, "=")
				if i < 0 || j < 0 || k < j {
					return fail(ln, fmt.Errorf("want: ghost define name(this *T) = expr"))
				}
				pf := strings.Fields(r2[i+1 : j])
				if len(pf) != 2 || !strings.HasPrefix(pf[1], "*") {
					return fail(ln, fmt.Errorf("want: ghost define name(this *T) = expr"))
				}
				body := strings.TrimSpace(r2[k+1:])
				ex, err := parseExpr(body)
				if err != nil {
					return fail(ln, err)
				}
				nm := strings.TrimSpace(r2[:i])
				sp.GhostDefs[nm] = append(sp.GhostDefs[nm], &GhostDef{Name: nm, Pkg: pkgName, Type: pf[1][1:], Param: pf[0], Body: body, E: ex})
			case "var":
				srt := parts[2:]
				counter := false
				if len(srt) > 1 && srt[len(srt)-1] == "counter" {
					counter = true
					srt = srt[:len(srt)-1]
				}
				if g, dup := sp.Ghosts[parts[1]]; dup && (g.Field || g.Sort != strings.Join(srt, " ")) {
					return fail(ln, fmt.Errorf("ghost %s declared twice with different shapes", parts[1]))
				}
				sp.Ghosts[parts[1]] = &GhostDecl{Name: parts[1], Sort: strings.Join(srt, " "), Counter: counter}
			case "field":
				nm := parts[1]
				ty := ""
				if i := strings.Index(nm, "("); i >= 0 {
					ty = strings.TrimSuffix(nm[i+1:], ")")
					nm = nm[:i]
				}
				srt := parts[2:]
				def := ""
				for k, w := range srt {
					if w == "default" && k+1 < len(srt) {
						def = srt[k+1]
						srt = srt[:k]
						break
					}
				}
				if g, dup := sp.Ghosts[nm]; dup && (!g.Field || g.Sort != strings.Join(srt, " ") || g.Type != ty) {
					return fail(ln, fmt.Errorf("ghost %s declared twice with different shapes", nm))
				}
				sp.Ghosts[nm] = &GhostDecl{Name: nm, Field: true, Type: ty, Sort: strings.Join(srt, " "), Default: def}
			default:
				return fail(ln, fmt.Errorf("want: ghost var|field"))
			}
		case "spec":
			// spec fn name(a T, b U) Sort [= body]
			r2 := strings.TrimSpace(strings.TrimPrefix(r, "fn"))
			i := strings.Index(r2, "(")
			j := matchParen(r2, i)
			if i < 0 || j < 0 {
				return fail(ln, fmt.Errorf("want: spec fn name(params) sort [= body]"))
			}
			sf := &SpecFn{Name: strings.TrimSpace(r2[:i])}
			for _, p := range splitTop(r2[i+1 : j]) {
				p = strings.TrimSpace(p)
				if p == "" {
					continue
				}
				f := strings.Fields(p)
				if len(f) < 2 {
					return fail(ln, fmt.Errorf("bad spec fn parameter %q", p))
				}
				sf.Params = append(sf.Params, QVar{f[0], strings.Join(f[1:], " ")})
			}
			tail := strings.TrimSpace(r2[j+1:])
			if k := strings.Index(tail, "="); k >= 0 && !strings.HasPrefix(tail[k:], "==") {
				sf.Sort = strings.TrimSpace(tail[:k])
				sf.Body = strings.TrimSpace(tail[k+1:])
				e, err := parseExpr(sf.Body)
				if err != nil {
					return fail(ln, err)
				}
				sf.E = e
			} else {
				sf.Sort = tail
			}
			sp.SpecFns[sf.Name] = sf
		case "axiom", "lemma":
			props, label, body := parseLabel(r)
			e, err := parseExpr(body)
			if err != nil {
				return fail(ln, err)
			}
			sp.Lemmas = append(sp.Lemmas, &Lemma{Name: label, Props: props, Text: body, E: e, Axiom: w == "axiom", Pkg: pkgName})
		case "facet":
			if curMon != nil {
				for _, f := range strings.Split(r, ",") {
					curMon.Props = append(curMon.Props, strings.TrimSpace(f))
				}
				continue
			}
			if cur == nil {
				return fail(ln, fmt.Errorf("facet outside func"))
			}
			for _, f := range strings.Split(r, ",") {
				cur.Facets = append(cur.Facets, strings.TrimSpace(f))
			}
		case "requires", "ensures", "panics-when", "invariant", "cbassume":
			props, label, body := parseLabel(r)
			e, err := parseExpr(body)
			if err != nil {
				return fail(ln, err)
			}
			cl := &Clause{Kind: w, Props: props, Label: label, Text: body, E: e, Ghost: ghostClause, Line: ln}
			if w == "invariant" && curMon != nil {
				curMon.Invs = append(curMon.Invs, cl)
			} else if cur != nil {
				cur.Clauses = append(cur.Clauses, cl)
			} else {
				return fail(ln, fmt.Errorf("clause outside func"))
			}
		case "modifies":
			if cur == nil {
				return fail(ln, fmt.Errorf("modifies outside func"))
			}
			for _, m := range splitTop(r) {
				m = strings.TrimSpace(m)
				if m == "" {
					continue
				}
				cur.Clauses = append(cur.Clauses, &Clause{Kind: "modifies", Text: m, Line: ln})
			}
		case "loop":
			// loop N invariant [label] expr
			f := strings.Fields(r)
			if len(f) < 3 || f[1] != "invariant" {
				return fail(ln, fmt.Errorf("want: loop N invariant expr"))
			}
			n, err := strconv.Atoi(f[0])
			if err != nil {
				return fail(ln, err)
			}
			body := strings.TrimSpace(strings.TrimPrefix(strings.TrimSpace(strings.TrimPrefix(r, f[0])), "invariant"))
			props, label, body := parseLabel(body)
			e, err := parseExpr(body)
			if err != nil {
				return fail(ln, err)
			}
			if cur == nil {
				return fail(ln, fmt.Errorf("loop outside func"))
			}
			cur.Clauses = append(cur.Clauses, &Clause{Kind: "loopinv", Props: props, Label: label, Text: body, E: e, Loop: n, Line: ln})
		case "param":
			f := strings.Fields(r)
			if len(f) != 2 || cur == nil {
				return fail(ln, fmt.Errorf("want: param name funcspec"))
			}
			cur.Params[f[0]] = f[1]
		case "implements":
			if cur == nil {
				return fail(ln, fmt.Errorf("implements outside func"))
			}
			cur.Impl = r
		case "attr":
			// attr name(a T, ...) = body
			if cur == nil {
				return fail(ln, fmt.Errorf("attr outside func"))
			}
			i := strings.Index(r, "(")
			j := matchParen(r, i)
			k := strings.Index(r, "=")
			if i < 0 || j < 0 || k < j {
				return fail(ln, fmt.Errorf("want: attr name(params) = body"))
			}
			at := &SpecFn{Name: strings.TrimSpace(r[:i])}
			for _, p := range splitTop(r[i+1 : j]) {
				f := strings.Fields(strings.TrimSpace(p))
				if len(f) >= 2 {
					at.Params = append(at.Params, QVar{f[0], strings.Join(f[1:], " ")})
				}
			}
			at.Body = strings.TrimSpace(r[k+1:])
			e, err := parseExpr(at.Body)
			if err != nil {
				return fail(ln, err)
			}
			at.E = e
			cur.Attrs = append(cur.Attrs, at)
		case "safety":
			if cur == nil {
				return fail(ln, fmt.Errorf("safety outside func"))
			}
			for _, f := range strings.Split(r, ",") {
				cur.Safety = append(cur.Safety, strings.TrimSpace(f))
			}
		case "inline":
			cur.Inline = true
		case "trusted":
			cur.Trusted = true
		case "pure":
			cur.Pure = true
		case "arith":
			cur.Arith = r
		case "names":
			cur.Names = strings.Fields(strings.ReplaceAll(r, ",", " "))
		case "results":
			cur.ResNames = strings.Fields(strings.ReplaceAll(r, ",", " "))
		case "opt":
			f := strings.Fields(r)
			if len(f) >= 1 && cur != nil {
				cur.Opts[f[0]] = strings.Join(f[1:], " ")
			}
		default:
			return fail(ln, fmt.Errorf("unknown keyword %q", w))
		}
	}
	return nil
}

func matchParen(s string, i int) int {
	if i < 0 {
		return -1
	}
	d := 0
	for j := i; j < len(s); j++ {
		switch s[j] {
		case '(':
			d++
		case ')':
			d--
			if d == 0 {
				return j
			}
		}
	}
	return -1
}

// splitTop splits on commas that are not nested in parentheses/brackets.
func splitTop(s string) []string {
	var out []string
	d := 0
	last := 0
	for i := 0; i < len(s); i++ {
		switch s[i] {
		case '(', '[':
			d++
		case ')', ']':
			d--
		case ',':
			if d == 0 {
				out = append(out, s[last:i])
				last = i + 1
			}
		}
	}
	out = append(out, s[last:])
	return out
}

// readContractFile extracts the //@ lines of a Go contract file, or all lines of a .spec file.
// dirAliases: directory of a contract file -> alias declared there with `pkgalias`
var dirAliases = map[string]string{}

func readContractFile(path string) (pkgName string, lines []string, err error) {
	data, err := os.ReadFile(path)
	if err != nil {
		return "", nil, err
	}
	isGo := strings.HasSuffix(path, ".go")
	for _, ln := range strings.Split(string(data), "\n") {
		t := strings.TrimSpace(ln)
		if isGo {
			if strings.HasPrefix(t, "package ") {
				pkgName = strings.TrimSpace(strings.TrimPrefix(t, "package "))
			}
			if strings.HasPrefix(t, "//@") {
				l := strings.TrimPrefix(t, "//@")
				if strings.TrimSpace(l) == "debugnames" {
					continue // handled by the loader (see loadModule)
				}
				if f := strings.Fields(l); len(f) == 2 && f[0] == "pkgalias" {
					// the package is known to the verifier under this name (see pkgAliases)
					pkgName = f[1]
					dirAliases[filepath.Dir(path)] = f[1]
					continue
				}
				lines = append(lines, l)
			}
		} else {
			if strings.HasPrefix(t, "package ") {
				if pkgName != "" {
					return "", nil, fmt.Errorf("%s: a contract file names one package (second `package` line: %s)", path, t)
				}
				pkgName = strings.TrimSpace(strings.TrimPrefix(t, "package "))
				continue
			}
			if strings.HasPrefix(t, "#") {
				continue
			}
			lines = append(lines, ln)
		}
	}
	return
}

func (sp *Specs) loadDir(dir string, pattern string) error {
	files, _ := filepath.Glob(filepath.Join(dir, pattern))
	for _, f := range files {
		pkg, lines, err := readContractFile(f)
		if err != nil {
			return err
		}
		if err := sp.parseFile(f, pkg, lines); err != nil {
			return err
		}
	}
	return nil
}
