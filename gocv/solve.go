package main

import (
	"bytes"
	"context"
	"fmt"
	"os"
	"os/exec"
	"path/filepath"
	"strings"
	"sync"
	"time"
)

type solverCfg struct {
	name string
	bin  string
	args func(timeout int, strs bool) []string
}

var solvers = []solverCfg{
	{"z3-new", "z3-new", func(t int, s bool) []string { return []string{"-smt2", fmt.Sprintf("-T:%d", t)} }},
	{"z3", "/usr/bin/z3", func(t int, s bool) []string { return []string{"-smt2", fmt.Sprintf("-T:%d", t)} }},
	{"cvc5", "cvc5", func(t int, s bool) []string {
		a := []string{"--lang=smt2", fmt.Sprintf("--tlimit=%d", t*1000), "--full-saturate-quant"}
		if s {
			a = append(a, "--strings-exp")
		}
		return a
	}},
	{"cvc5-plain", "cvc5", func(t int, s bool) []string {
		a := []string{"--lang=smt2", fmt.Sprintf("--tlimit=%d", t*1000)}
		if s {
			a = append(a, "--strings-exp")
		}
		return a
	}},
}

type solveResult struct {
	solver string
	answer string // sat unsat unknown timeout error
	out    string
	secs   float64
}

func runSolver(ctx context.Context, s solverCfg, file string, timeout int, strs bool) solveResult {
	start := time.Now()
	args := append(s.args(timeout, strs), file)
	cctx, cancel := context.WithTimeout(ctx, time.Duration(timeout+2)*time.Second)
	defer cancel()
	cmd := exec.CommandContext(cctx, s.bin, args...)
	var out bytes.Buffer
	cmd.Stdout = &out
	cmd.Stderr = &out
	err := cmd.Run()
	secs := time.Since(start).Seconds()
	text := out.String()
	first := strings.TrimSpace(strings.SplitN(text, "\n", 2)[0])
	ans := "error"
	switch first {
	case "sat", "unsat", "unknown":
		ans = first
	case "timeout":
		ans = "timeout"
	default:
		if cctx.Err() != nil {
			ans = "timeout"
		} else if strings.Contains(text, "timeout") || strings.Contains(text, "interrupted") {
			ans = "timeout"
		} else if err != nil || first != "" {
			ans = "error"
		}
	}
	if ctx.Err() != nil && ans != "sat" && ans != "unsat" {
		ans = "cancelled"
	}
	if os.Getenv("GOCV_SLOW") != "" && secs > 2.5 {
		fmt.Fprintf(os.Stderr, "slow %5.1fs %-10s %-9s %s\n", secs, s.name, ans, filepath.Base(file))
	}
	return solveResult{s.name, ans, text, secs}
}

type Solver struct {
	workDir  string
	timeout  int
	sem      chan struct{}
	agree    bool // thorough: let every solver finish and require agreement
	mu       sync.Mutex
	byBackend map[string]int
	totalSecs float64
	disagreements []string
}

func newSolver(workDir string, timeout int, par int, agree bool) *Solver {
	os.MkdirAll(workDir, 0o755)
	return &Solver{workDir: workDir, timeout: timeout, sem: make(chan struct{}, par), agree: agree, byBackend: map[string]int{}}
}

// solve discharges one obligation: unsat = discharged (or, for cover obligations, sat = ok).
func (sv *Solver) solve(un *Unit, o *Obl) {
	if o.Decided {
		if o.Status == "discharged" {
			sv.mu.Lock()
			sv.byBackend[o.Solver]++
			sv.mu.Unlock()
		}
		return
	}
	if !o.Cover && !o.IsPart && !o.noSplit {
		src := o.Parts
		if len(src) <= 1 {
			src = []string{o.Goal}
		}
		var parts []string
		for _, p := range src {
			parts = append(parts, splitConj(p, 64)...)
		}
		if len(parts) > 1 && len(parts) <= 128 {
			o.Parts = parts
		}
	}
	if len(o.Parts) > 1 {
		// a conjunction of independent goals (one per return site): one query each; all must be discharged
		var subs []*Obl
		var wg sync.WaitGroup
		for i, p := range o.Parts {
			sub := &Obl{Name: fmt.Sprintf("%s~part%d", o.Name, i+1), Kind: o.Kind, Guard: o.Guard, Goal: p, NFacts: o.NFacts, Fn: o.Fn, Text: o.Text, IsPart: true, Pos: o.Pos}
			subs = append(subs, sub)
			wg.Add(1)
			go func(sub *Obl) { defer wg.Done(); sv.solve(un, sub) }(sub)
		}
		wg.Wait()
		o.Status = "discharged"
		for _, sub := range subs {
			o.Time += sub.Time
			if sub.Status == "discharged" {
				o.Solver = sub.Solver
				continue
			}
			if o.Status == "discharged" || sub.Status == "failed" {
				o.Status, o.Output, o.Model, o.SmtFile, o.Solver, o.Candidate = sub.Status, sub.Output, sub.Model, sub.SmtFile, sub.Solver, sub.Candidate
				g := sub.Goal
				if len(g) > 300 {
					g = g[len(g)-300:]
				}
				o.Output += fmt.Sprintf(" [%s: ...%s]", sub.Name[strings.LastIndex(sub.Name, "~")+1:], g)
			}
		}
		if o.Status == "discharged" {
			o.SmtFile = subs[0].SmtFile
			o.Output = fmt.Sprintf("unsat (%d return sites, one query each)", len(subs))
			sv.mu.Lock()
			sv.byBackend[o.Solver]++ // count the obligation once (its parts are not counted)
			sv.mu.Unlock()
		}
		return
	}
	file := filepath.Join(sv.workDir, sanitize(o.Name)+".smt2")
	if len(file) > 200 {
		file = filepath.Join(sv.workDir, fmt.Sprintf("%s_%x.smt2", sanitize(o.Name)[:120], hashStr(o.Name)))
	}
	if o.Cover && !o.OptionalCover {
		// reachability: the solvers cannot answer `sat` in the presence of quantified hypotheses, so the
		// quantifier-free part is what is checked (an unsat answer there is a definite vacuity)
		file2 := strings.TrimSuffix(file, ".smt2") + ".cex.smt2"
		if err := os.WriteFile(file2, []byte(un.smtForOpt(o, true, true)), 0o644); err == nil {
			o.SmtFile = file2
			sv.solveFileS(un, o, file2, sv.timeout, []string{"z3-new", "z3"})
			if o.Status == "discharged" {
				o.Output = "sat (quantifier-free part of the hypotheses)"
				// the quantified hypotheses can be contradictory too: an `unsat` of the full query is a definite vacuity
				// (sat / unknown / timeout there prove nothing and leave the verdict of the quantifier-free part)
				if un.u.usesQuant {
					if err := os.WriteFile(file, []byte(un.smtForOpt(o, true, false)), 0o644); err == nil {
						probe := &Obl{Name: o.Name, Kind: o.Kind, Cover: true, OptionalCover: true, IsPart: true}
						sv.solveFileS(un, probe, file, 3, []string{"z3-new", "cvc5"})
						if probe.Status == "failed" && probe.Output == "unsat" {
							o.Status, o.Output, o.SmtFile, o.Solver = "failed", "unsat: the hypotheses (with the quantified ones) are contradictory", file, probe.Solver
						}
					}
				}
			}
			return
		}
	}
	if o.Cover && o.OptionalCover {
		// call-site vacuity guards: quantifier-free part only, short timeout (they are many)
		file2 := strings.TrimSuffix(file, ".smt2") + ".cex.smt2"
		if err := os.WriteFile(file2, []byte(un.smtForOpt(o, false, true)), 0o644); err == nil {
			o.SmtFile = file2
			sv.solveFileS(un, o, file2, 3, []string{"z3-new"})
		}
		return
	}
	if !o.Cover {
		// stage 0: hypotheses pruned to the heap components the goal mentions; only `unsat` is conclusive
		if pruned, dropped := un.smtPruned(o); dropped {
			file0 := strings.TrimSuffix(file, ".smt2") + ".pruned.smt2"
			if err := os.WriteFile(file0, []byte(pruned), 0o644); err == nil {
				save := sv.timeout
				o.SmtFile = file0
				sv.solveFileS(un, o, file0, 4, []string{"z3-new", "cvc5"})
				_ = save
				if o.Status == "discharged" {
					o.Output = "unsat (hypotheses pruned to the components the goal mentions)"
					return
				}
				o.Status, o.Output, o.Model, o.Solver, o.Time = "", "", "", "", 0
			}
		}
	}
	text := un.smtFor(o, true)
	if err := os.WriteFile(file, []byte(text), 0o644); err != nil {
		o.Status, o.Output = "error", err.Error()
		return
	}
	o.SmtFile = file
	sv.solveFile(un, o, file)
}

func (sv *Solver) solveFile(un *Unit, o *Obl, file string) { sv.solveFileT(un, o, file, sv.timeout) }

func (sv *Solver) solveFileT(un *Unit, o *Obl, file string, timeout int) {
	sv.solveFileS(un, o, file, timeout, nil)
}

// solveFileS races the given solver configurations (all when names is nil).
func (sv *Solver) solveFileS(un *Unit, o *Obl, file string, timeout int, names []string) {
	ctx, cancel := context.WithCancel(context.Background())
	defer cancel()
	results := make(chan solveResult, len(solvers)+1)
	var wg sync.WaitGroup
	strs := un.usesStrings()
	use := solvers
	if names != nil {
		use = nil
		for _, s := range solvers {
			for _, n := range names {
				if s.name == n {
					use = append(use, s)
				}
			}
		}
	}
	for _, s := range use {
		wg.Add(1)
		go func(s solverCfg) {
			defer wg.Done()
			sv.sem <- struct{}{}
			defer func() { <-sv.sem }()
			if ctx.Err() != nil {
				results <- solveResult{s.name, "cancelled", "", 0}
				return
			}
			results <- runSolver(ctx, s, file, timeout, strs)
		}(s)
	}
	go func() { wg.Wait(); close(results) }()
	want := "unsat"
	if o.Cover {
		want = "sat"
	}
	var all []solveResult
	decided := false
	for r := range results {
		all = append(all, r)
		sv.mu.Lock()
		sv.totalSecs += r.secs
		sv.mu.Unlock()
		if (r.answer == "sat" || r.answer == "unsat") && !decided {
			decided = true
			o.Solver, o.Time = r.solver, r.secs
			if r.answer == want {
				o.Status = "discharged"
			} else {
				o.Status = "failed"
				o.Model = r.out
			}
			o.Output = r.answer
			if !sv.agree {
				cancel()
			}
		}
	}
	// disagreement check
	sat, unsat := "", ""
	for _, r := range all {
		if r.answer == "sat" {
			sat = r.solver
		}
		if r.answer == "unsat" {
			unsat = r.solver
		}
	}
	if sat != "" && unsat != "" {
		o.Status = "error"
		o.Output = fmt.Sprintf("solvers disagree: %s says sat, %s says unsat", sat, unsat)
		sv.mu.Lock()
		sv.disagreements = append(sv.disagreements, o.Name)
		sv.mu.Unlock()
		return
	}
	if !decided && o.Cover && !strings.HasSuffix(file, ".cex.smt2") {
		// reachability with the quantified hypotheses dropped (they make `sat` undecidable for the solvers)
		file2 := strings.TrimSuffix(file, ".smt2") + ".cex.smt2"
		if err := os.WriteFile(file2, []byte(un.smtForOpt(o, true, true)), 0o644); err == nil {
			o.SmtFile = file2
			sv.solveFile(un, o, file2)
			if o.Status == "discharged" {
				o.Output = "sat (quantifier-free part of the hypotheses)"
			}
			return
		}
	}
	if !decided && !o.Cover && !strings.HasSuffix(file, ".cex.smt2") && !strings.HasSuffix(file, ".pruned.smt2") {
		// second stage (counterexample search): quantified hypotheses dropped
		first := o.Output
		var parts []string
		for _, r := range all {
			parts = append(parts, r.solver+":"+r.answer)
		}
		file2 := strings.TrimSuffix(file, ".smt2") + ".cex.smt2"
		if err := os.WriteFile(file2, []byte(un.smtForOpt(o, true, true)), 0o644); err == nil {
			o.SmtFile = file2
			sv.solveFile(un, o, file2)
			if o.Status == "failed" {
				o.Output = "sat with quantified hypotheses dropped (candidate counterexample); full query: " + strings.Join(parts, " ")
				o.Candidate = true
			} else if o.Status == "discharged" {
				o.Output = "unsat (proved without the quantified hypotheses); full query: " + strings.Join(parts, " ")
			} else {
				o.SmtFile = file
				o.Status = "unknown"
				o.Output = strings.Join(parts, " ") + " " + first
			}
			return
		}
	}
	if !decided {
		o.Status = "unknown"
		var parts []string
		for _, r := range all {
			parts = append(parts, r.solver+":"+r.answer)
			if r.answer == "error" && len(r.out) > 0 {
				parts = append(parts, "  "+firstLines(r.out, 3))
			}
		}
		o.Output = strings.Join(parts, " ")
	}
	if o.Status == "discharged" && !o.IsPart {
		sv.mu.Lock()
		sv.byBackend[o.Solver]++
		sv.mu.Unlock()
	}
}

func firstLines(s string, n int) string {
	ls := strings.Split(s, "\n")
	if len(ls) > n {
		ls = ls[:n]
	}
	return strings.Join(ls, " | ")
}

func hashStr(s string) uint32 {
	var h uint32 = 2166136261
	for i := 0; i < len(s); i++ {
		h ^= uint32(s[i])
		h *= 16777619
	}
	return h
}

func (sv *Solver) solveAll(un *Unit, obls []*Obl) {
	var wg sync.WaitGroup
	for _, o := range obls {
		wg.Add(1)
		go func(o *Obl) {
			defer wg.Done()
			sv.solve(un, o)
		}(o)
	}
	wg.Wait()
}

// ---- goal splitting: a conjunction is discharged conjunct by conjunct (smaller queries, fewer quantifier interactions) ----

// sexprArgs splits "(head a b c)" into head and arguments; ok=false when t is not a list.
func sexprArgs(t string) (string, []string, bool) {
	t = strings.TrimSpace(t)
	if len(t) < 2 || t[0] != '(' || t[len(t)-1] != ')' {
		return "", nil, false
	}
	body := t[1 : len(t)-1]
	var toks []string
	depth, start := 0, -1
	inBar, inStr := false, false
	flush := func(end int) {
		if start >= 0 {
			toks = append(toks, body[start:end])
			start = -1
		}
	}
	for i := 0; i < len(body); i++ {
		c := body[i]
		switch {
		case inBar:
			if c == '|' {
				inBar = false
			}
		case inStr:
			if c == '"' {
				inStr = false
			}
		case c == '|':
			inBar = true
			if start < 0 {
				start = i
			}
		case c == '"':
			inStr = true
			if start < 0 {
				start = i
			}
		case c == '(':
			if start < 0 {
				start = i
			}
			depth++
		case c == ')':
			depth--
			if depth < 0 {
				return "", nil, false
			}
		case c == ' ' || c == '\n' || c == '\t':
			if depth == 0 {
				flush(i)
			}
		default:
			if start < 0 {
				start = i
			}
		}
	}
	flush(len(body))
	if depth != 0 || len(toks) == 0 {
		return "", nil, false
	}
	return toks[0], toks[1:], true
}

// splitConj returns goals whose conjunction is equivalent to t: (and ..) is flattened, (=> g (and ..)) distributes.
func splitConj(t string, limit int) []string {
	head, args, ok := sexprArgs(t)
	if !ok || limit <= 1 {
		return []string{t}
	}
	switch head {
	case "and":
		var out []string
		for _, a := range args {
			out = append(out, splitConj(a, limit)...)
		}
		if len(out) > limit {
			return []string{t}
		}
		return out
	case "=>":
		if len(args) == 2 {
			sub := splitConj(args[1], limit)
			if len(sub) > 1 {
				var out []string
				for _, s := range sub {
					out = append(out, "(=> "+args[0]+" "+s+")")
				}
				return out
			}
		}
	}
	return []string{t}
}
