package main

import (
	"fmt"
	"go/token"
	"go/types"
	"os"
	"path/filepath"
	"sort"
	"strings"

	"golang.org/x/tools/go/packages"
	"golang.org/x/tools/go/ssa"
	"golang.org/x/tools/go/ssa/ssautil"
)

// repoRoot is the tree that is verified: /repo unless GOCV_REPO overrides it
// (used only by the self-test, which runs the checks on scratch copies).
func repoRoot() string {
	if r := os.Getenv("GOCV_REPO"); r != "" {
		return r
	}
	return "/repo"
}

// A module of /repo that holds code under contract.
type module struct {
	name   string
	dir    string // relative to repoRoot
	modMod bool   // needs GOFLAGS=-mod=mod (no go.work)
}

var modules = map[string]module{
	"appencryption": {"appencryption", "go/appencryption", false},
	"securememory":  {"securememory", "go/securememory", true},
	"server":        {"server", "server/go", true},
}

// Prog is one loaded module: typed syntax + SSA of the packages named by the patterns.
type Prog struct {
	mod     module
	fset    *token.FileSet
	pkgs    []*packages.Package
	prog    *ssa.Program
	ssaPkgs []*ssa.Package
	byPath  map[string]*ssa.Package
	byName  map[string]*ssa.Package // short package name -> package (initial packages win)
	files   []string                // Go source files of the initial packages (for provenance)
	byKey   map[string]*ssa.Function // contract key -> function (filled lazily by methodByKey)
}

func loadModule(m module, patterns []string) (*Prog, error) {
	dir := filepath.Join(repoRoot(), m.dir)
	env := []string{}
	for _, e := range os.Environ() {
		if strings.HasPrefix(e, "GOFLAGS=") {
			continue
		}
		env = append(env, e)
	}
	env = append(env, "GOPROXY=off", "GOSUMDB=off", "GOTOOLCHAIN=local")
	if m.modMod {
		env = append(env, "GOFLAGS=-mod=mod")
	} else {
		env = append(env, "GOFLAGS=")
	}
	cfg := &packages.Config{
		Mode: packages.NeedName | packages.NeedFiles | packages.NeedCompiledGoFiles | packages.NeedImports |
			packages.NeedDeps | packages.NeedTypes | packages.NeedSyntax | packages.NeedTypesInfo | packages.NeedTypesSizes,
		Dir:        dir,
		Env:        env,
		BuildFlags: []string{"-tags=verif"},
		Tests:      false,
	}
	pkgs, err := packages.Load(cfg, patterns...)
	if err != nil {
		return nil, fmt.Errorf("load %s: %v", dir, err)
	}
	var errs []string
	packages.Visit(pkgs, nil, func(p *packages.Package) {
		for _, e := range p.Errors {
			errs = append(errs, e.Error())
		}
	})
	if len(errs) > 0 {
		return nil, fmt.Errorf("load %s: %s", dir, strings.Join(errs, "; "))
	}
	prog, ssaPkgs := ssautil.Packages(pkgs, ssa.InstantiateGenerics)
	// `//@ debugnames` in a package's contract file: build that package with debug info, so that contracts can name
	// local variables that live in registers (loop invariants over locals such as a map built in the function)
	for i, sp := range ssaPkgs {
		if sp == nil || len(pkgs[i].GoFiles) == 0 {
			continue
		}
		if data, err := os.ReadFile(filepath.Join(filepath.Dir(pkgs[i].GoFiles[0]), "zz_contracts_verif.go")); err == nil && strings.Contains(string(data), "//@ debugnames") {
			sp.SetDebugMode(true)
		}
	}
	prog.Build()
	p := &Prog{mod: m, pkgs: pkgs, prog: prog, ssaPkgs: ssaPkgs, byPath: map[string]*ssa.Package{}, byName: map[string]*ssa.Package{}}
	if len(pkgs) > 0 {
		p.fset = pkgs[0].Fset
	}
	for _, sp := range prog.AllPackages() {
		p.byPath[sp.Pkg.Path()] = sp
		if _, ok := p.byName[pkgKey(sp.Pkg)]; !ok {
			p.byName[pkgKey(sp.Pkg)] = sp
		}
	}
	for i, sp := range ssaPkgs {
		if sp == nil {
			continue
		}
		p.byName[pkgKey(sp.Pkg)] = sp
		p.files = append(p.files, pkgs[i].CompiledGoFiles...)
	}
	sort.Strings(p.files)
	return p, nil
}

// isRepoPkg reports whether the package's source is in the tree under verification
// (as opposed to the module cache / GOROOT).
func (p *Prog) isRepoFunc(fn *ssa.Function) bool {
	if fn == nil {
		return false
	}
	f := fn
	for f.Parent() != nil {
		f = f.Parent()
	}
	if f.Origin() != nil {
		f = f.Origin()
	}
	pos := f.Pos()
	if !pos.IsValid() {
		if f.Synthetic != "" && f.Pkg != nil {
			for _, sp := range p.ssaPkgs {
				if sp == f.Pkg {
					return true
				}
			}
		}
		return false
	}
	file := p.fset.Position(pos).Filename
	return strings.HasPrefix(file, repoRoot()+"/")
}

// funcKey is the name a contract uses for a function: "pkg.Func", "pkg.(*T).M",
// "pkg.(T).M", "pkg.Func$1" for closures.
func funcKey(fn *ssa.Function) string {
	if fn == nil {
		return "<nil>"
	}
	if fn.Origin() != nil {
		fn = fn.Origin()
	}
	if fn.Parent() != nil {
		// closure: parentKey$N
		name := fn.Name() // e.g. decryptRow$1
		par := fn.Parent()
		pk := funcKey(par)
		// fn.Name() is Parent.Name()+"$N"
		suffix := strings.TrimPrefix(name, par.Name())
		return pk + suffix
	}
	pkgName := ""
	if fn.Pkg != nil {
		pkgName = pkgKey(fn.Pkg.Pkg)
	} else if fn.Signature.Recv() != nil {
		if n := namedOf(fn.Signature.Recv().Type()); n != nil && n.Obj().Pkg() != nil {
			pkgName = pkgKey(n.Obj().Pkg())
		}
	}
	if recv := fn.Signature.Recv(); recv != nil {
		t := recv.Type()
		star := ""
		if pt, ok := t.(*types.Pointer); ok {
			star = "*"
			t = pt.Elem()
		}
		tn := "?"
		if n := namedOf(t); n != nil {
			tn = n.Obj().Name()
		}
		if star == "*" {
			return fmt.Sprintf("%s.(*%s).%s", pkgName, tn, fn.Name())
		}
		return fmt.Sprintf("%s.(%s).%s", pkgName, tn, fn.Name())
	}
	return pkgName + "." + fn.Name()
}

func namedOf(t types.Type) *types.Named {
	t = types.Unalias(t)
	if pt, ok := t.(*types.Pointer); ok {
		t = types.Unalias(pt.Elem())
	}
	if n, ok := t.(*types.Named); ok {
		return n
	}
	return nil
}

// allFuncs returns every function with a body in the initial packages (methods, closures included).
func (p *Prog) allFuncs() map[string]*ssa.Function {
	out := map[string]*ssa.Function{}
	init := map[*ssa.Package]bool{}
	for _, sp := range p.ssaPkgs {
		if sp != nil {
			init[sp] = true
		}
	}
	var add func(fn *ssa.Function)
	add = func(fn *ssa.Function) {
		if fn == nil || fn.Blocks == nil {
			return
		}
		out[funcKey(fn)] = fn
		for _, a := range fn.AnonFuncs {
			add(a)
		}
	}
	for sp := range init {
		for _, m := range sp.Members {
			switch m := m.(type) {
			case *ssa.Function:
				add(m)
			case *ssa.Type:
				t := m.Type()
				for _, tt := range []types.Type{t, types.NewPointer(t)} {
					ms := p.prog.MethodSets.MethodSet(tt)
					for i := 0; i < ms.Len(); i++ {
						fn := p.prog.MethodValue(ms.At(i))
						if fn != nil && fn.Synthetic == "" {
							add(fn)
						}
					}
				}
			}
		}
	}
	return out
}

// methodFor finds the function implementing method m on concrete type t; for types instantiated with type parameters
// (generic bodies verified once), where go/ssa has no method value, the generic origin is looked up by its contract key.
func (p *Prog) methodFor(t types.Type, m *types.Func) *ssa.Function {
	if sel := p.prog.MethodSets.MethodSet(t).Lookup(m.Pkg(), m.Name()); sel != nil {
		if fn := p.prog.MethodValue(sel); fn != nil {
			return fn
		}
	}
	if p.byKey == nil {
		p.byKey = findFuncs(p)
	}
	n := namedOf(t)
	if n == nil || n.Obj().Pkg() == nil {
		return nil
	}
	_, isPtr := types.Unalias(t).(*types.Pointer)
	if isPtr {
		if fn := p.byKey[fmt.Sprintf("%s.(*%s).%s", pkgKey(n.Obj().Pkg()), n.Obj().Name(), m.Name())]; fn != nil {
			return fn
		}
	}
	return p.byKey[fmt.Sprintf("%s.(%s).%s", pkgKey(n.Obj().Pkg()), n.Obj().Name(), m.Name())]
}

// isInitial: the package (by short name) is one of the module's own packages (loaded with syntax).
func (p *Prog) isInitial(name string) bool {
	for _, sp := range p.ssaPkgs {
		if sp != nil && pkgKey(sp.Pkg) == name {
			return true
		}
	}
	return false
}

// pkgAliases: import path -> the name contracts use for the package. Two packages of one module may share their
// short name (the two AWS KMS plugins are both `kms`): a contract file can rename its package for the verifier with
// `//@ pkgalias name`.
var pkgAliases = map[string]string{}

func pkgKey(p *types.Package) string {
	if p == nil {
		return ""
	}
	if a, ok := pkgAliases[p.Path()]; ok {
		return a
	}
	return p.Name()
}
