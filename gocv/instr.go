package main

import (
	"fmt"
	"go/token"
	"go/types"
	"strings"

	"golang.org/x/tools/go/ssa"
)

func (un *Unit) execPanic(fr *Frame, st *State, in *ssa.Panic) {
	// explicit panic: unreachable unless the contract declares panics-when
	allowed := "false"
	if fr.contract != nil && fr.fn == un.fn {
		for _, cl := range fr.contract.Clauses {
			if cl.Kind == "panics-when" {
				sc := un.scopeFor(fr, un.entry, un.entry, nil)
				t, _ := un.evalSpec(cl.E, sc)
				allowed = or(allowed, t)
			}
		}
	}
	if un.wantSafety || allowed != "false" {
		name := fmt.Sprintf("%s/safety/explicit-panic", funcKey(un.fn))
		if fr.fn != un.fn {
			name += ">" + shortFn(fr.fn)
		}
		un.safetyN[name]++
		if n := un.safetyN[name]; n > 1 {
			name = fmt.Sprintf("%s#%d", name, n)
		}
		var props []string
		if un.contract != nil {
			props = un.contract.Safety
		}
		o := &Obl{Name: name, Kind: "safety", Props: props, Guard: st.guard, Goal: allowed, NFacts: len(un.facts), Pos: un.posOf(in.Pos()), Fn: funcKey(un.fn), Text: "explicit panic reachable only when declared"}
		un.obls = append(un.obls, o)
	}
	st.guard = "false"
}

func (un *Unit) nonNil(st *State, fr *Frame, v Val, desc string, pos token.Pos) {
	if v.place != nil {
		return
	}
	if strings.HasPrefix(v.t, "|new_") || strings.HasPrefix(v.t, "(g_sub") || strings.HasPrefix(v.t, "(g_elem") || strings.HasPrefix(v.t, "|g_glob") {
		return
	}
	un.safety(st, fr, "nil-deref", desc, not(eq(v.t, "0")), pos)
}

func fieldName(t types.Type, i int) string {
	if pt, ok := t.Underlying().(*types.Pointer); ok {
		t = pt.Elem()
	}
	if st, ok := t.Underlying().(*types.Struct); ok && i < st.NumFields() {
		return st.Field(i).Name()
	}
	return fmt.Sprint(i)
}

func (un *Unit) execInstr(fr *Frame, st *State, in ssa.Instruction) {
	switch in := in.(type) {
	case *ssa.DebugRef:
		return
	case *ssa.Alloc:
		et := in.Type().(*types.Pointer).Elem()
		ref := un.allocRef(st, sanitize(fr.fn.Name()+"."+in.Name()+"."+in.Comment))
		if isStructType(et) {
			un.storeStruct(st, ref, et, un.zero(et))
			un.bind(fr, in, Val{t: ref})
			return
		}
		if at, ok := et.Underlying().(*types.Array); ok {
			// array object: lives in the element heap (so that slices of it alias it); element pointers index into it
			if isStructType(at.Elem()) {
				// elements are sub-objects of the array object; a small array is zero-initialised element by element
				if at.Len() > 16 {
					un.outside = "large array of structs"
					return
				}
				for i := int64(0); i < at.Len(); i++ {
					un.storeStruct(st, un.elemRef(ref, fmt.Sprint(i)), at.Elem(), un.zero(at.Elem()))
				}
				un.bind(fr, in, Val{t: ref})
				return
			}
			p := &Place{comp: un.elemComp(at.Elem()), keys: []string{ref}, typ: et}
			un.storePlace(st, p, un.zero(et))
			un.bind(fr, in, Val{t: ref, place: p})
			return
		}
		p := &Place{comp: un.cellComp(et), keys: []string{ref}, typ: et}
		if localOnly(in) {
			name := fmt.Sprintf("loc!%d!%s", fr.id, in.Name())
			un.comp(name, un.u.sortOf(et), "local")
			p = &Place{comp: name, typ: et, local: true}
		}
		un.storePlace(st, p, un.zero(et))
		un.bind(fr, in, Val{t: ref, place: p})
	case *ssa.FieldAddr:
		x := un.val(fr, in.X)
		pt := in.X.Type().Underlying().(*types.Pointer).Elem()
		un.nonNil(st, fr, x, fieldName(pt, in.Field), in.Pos())
		ft := pt.Underlying().(*types.Struct).Field(in.Field).Type()
		un.locksetCheck(fr, st, x.t, pt, in.Field, in)
		if isStructType(ft) {
			un.bind(fr, in, Val{t: un.subRef(x.t, pt, in.Field)})
			return
		}
		c, _ := un.fieldComp(pt, in.Field)
		un.bind(fr, in, Val{t: "0", place: &Place{comp: c, keys: []string{x.t}, typ: ft}})
	case *ssa.Field:
		x := un.val(fr, in.X)
		dt := un.u.sortOf(in.X.Type())
		un.bind(fr, in, Val{t: "(" + un.u.fieldSel(dt, in.Field) + " " + x.t + ")"})
	case *ssa.IndexAddr:
		x := un.val(fr, in.X)
		idx := un.val(fr, in.Index).t
		switch xt := in.X.Type().Underlying().(type) {
		case *types.Slice:
			un.boundsCheck(st, fr, idx, "(s_len "+x.t+")", in.Index.Type(), "index", in.Pos())
			pos := un.addI(in.Index.Type(), "(s_off "+x.t+")", idx)
			if isStructType(xt.Elem()) {
				un.bind(fr, in, Val{t: un.elemRef("(s_arr "+x.t+")", pos)})
				return
			}
			un.bind(fr, in, Val{t: "0", place: &Place{comp: un.elemComp(xt.Elem()), keys: []string{"(s_arr " + x.t + ")", pos}, typ: xt.Elem(), elemOff: "(s_off " + x.t + ")", elemIdx: idx}})
		case *types.Pointer: // pointer to array
			at := xt.Elem().Underlying().(*types.Array)
			un.boundsCheck(st, fr, idx, un.intConst(at.Len(), in.Index.Type()), in.Index.Type(), "index", in.Pos())
			if isStructType(at.Elem()) {
				un.bind(fr, in, Val{t: un.elemRef(x.t, idx)})
				return
			}
			if x.place != nil {
				keys := append(append([]string{}, x.place.keys...), idx)
				un.bind(fr, in, Val{t: "0", place: &Place{comp: x.place.comp, keys: keys, typ: at.Elem(), local: x.place.local}})
				return
			}
			c := un.elemComp(at.Elem())
			un.bind(fr, in, Val{t: "0", place: &Place{comp: c, keys: []string{x.t, idx}, typ: at.Elem()}})
		default:
			un.outside = "IndexAddr on " + in.X.Type().String()
		}
	case *ssa.Index:
		x := un.val(fr, in.X)
		idx := un.val(fr, in.Index).t
		switch xt := in.X.Type().Underlying().(type) {
		case *types.Basic: // string
			un.boundsCheck(st, fr, idx, "(str.len "+x.t+")", in.Index.Type(), "index", in.Pos())
			un.bind(fr, in, Val{t: "(str.to_code (str.at " + x.t + " " + idx + "))"})
		case *types.Array:
			un.boundsCheck(st, fr, idx, un.intConst(xt.Len(), in.Index.Type()), in.Index.Type(), "index", in.Pos())
			un.bind(fr, in, Val{t: sel(x.t, idx)})
		default:
			un.outside = "Index on " + in.X.Type().String()
		}
	case *ssa.UnOp:
		un.execUnOp(fr, st, in)
	case *ssa.BinOp:
		x, y := un.val(fr, in.X), un.val(fr, in.Y)
		un.bind(fr, in, Val{t: un.binop(fr, st, in.Op, x, y, in.X.Type(), in.Y.Type(), in.Type(), in.Pos())})
	case *ssa.Store:
		addr := un.val(fr, in.Addr)
		v := un.val(fr, in.Val)
		et := in.Addr.Type().Underlying().(*types.Pointer).Elem()
		if isStructType(et) {
			un.nonNil(st, fr, addr, "store", in.Pos())
			un.storeStruct(st, addr.t, et, v.t)
			return
		}
		if addr.place == nil {
			un.nonNil(st, fr, addr, "store", in.Pos())
		}
		p := un.placeOf(st, addr, et)
		un.monotoneStore(fr, st, p, v.t, in.Pos())
		un.storePlace(st, p, v.t)
		un.trackStoredFn(p, v)
	case *ssa.Phi:
		return
	case *ssa.Extract:
		t := un.val(fr, in.Tuple)
		if in.Index < len(t.tuple) {
			un.bind(fr, in, t.tuple[in.Index])
		} else {
			un.outside = "extract from non-tuple"
		}
	case *ssa.MakeSlice:
		ln := un.val(fr, in.Len).t
		cp := un.val(fr, in.Cap).t
		un.safety(st, fr, "makeslice", "len", un.cmp("<=", in.Len.Type(), un.intConst(0, in.Len.Type()), ln), in.Pos())
		un.safety(st, fr, "makeslice", "cap", un.cmp("<=", in.Len.Type(), ln, cp), in.Pos())
		arr := un.allocRef(st, "arr")
		et := in.Type().Underlying().(*types.Slice).Elem()
		ec := un.elemComp(et)
		// zero-initialised
		un.set(st, ec, sto(un.get(st, ec), fmt.Sprintf("((as const %s) %s)", arraySort("Int", un.u.sortOf(et)), un.zero(et)), arr))
		un.bind(fr, in, Val{t: fmt.Sprintf("(mk_slice %s 0 %s %s)", arr, ln, cp)})
	case *ssa.MakeMap:
		ref := un.allocRef(st, "map")
		mt := in.Type().Underlying().(*types.Map)
		d, _, l := un.mapComps(mt)
		un.set(st, d, sto(un.get(st, d), fmt.Sprintf("((as const %s) false)", arraySort(un.u.sortOf(mt.Key()), "Bool")), ref))
		un.set(st, l, sto(un.get(st, l), "0", ref))
		un.bind(fr, in, Val{t: ref})
	case *ssa.MakeChan:
		un.execMakeChan(fr, st, in)
	case *ssa.MakeClosure:
		ref := un.allocRef(st, "closure")
		fn := in.Fn.(*ssa.Function)
		var binds []Val
		for _, b := range in.Bindings {
			binds = append(binds, un.val(fr, b))
		}
		v := Val{t: ref, fn: fn, binds: binds}
		un.closures[ref] = v
		un.bind(fr, in, v)
		un.attrFacts(ref, fn, binds, st, fr)
	case *ssa.MakeInterface:
		x := un.val(fr, in.X)
		un.bind(fr, in, un.makeIface(st, x, in.X.Type()))
	case *ssa.ChangeInterface:
		un.bind(fr, in, un.val(fr, in.X))
	case *ssa.ChangeType:
		x := un.val(fr, in.X)
		x.typ = in.Type()
		un.bind(fr, in, x)
	case *ssa.Convert:
		un.execConvert(fr, st, in)
	case *ssa.MultiConvert:
		un.outside = "MultiConvert"
	case *ssa.TypeAssert:
		un.execTypeAssert(fr, st, in)
	case *ssa.Slice:
		un.execSlice(fr, st, in)
	case *ssa.Lookup:
		un.execLookup(fr, st, in)
	case *ssa.MapUpdate:
		m := un.val(fr, in.Map)
		k := un.val(fr, in.Key).t
		v := un.val(fr, in.Value).t
		un.safety(st, fr, "nil-map-write", "map", not(eq(m.t, "0")), in.Pos())
		mt := in.Map.Type().Underlying().(*types.Map)
		d, vv, l := un.mapComps(mt)
		had := sel(un.get(st, d), m.t, k)
		un.set(st, l, sto(un.get(st, l), ite(had, sel(un.get(st, l), m.t), "(+ "+sel(un.get(st, l), m.t)+" 1)"), m.t))
		un.set(st, d, sto(un.get(st, d), "true", m.t, k))
		un.set(st, vv, sto(un.get(st, vv), v, m.t, k))
	case *ssa.Range:
		un.execRange(fr, st, in)
	case *ssa.Next:
		un.execNext(fr, st, in)
	case *ssa.Call:
		if sc := in.Common().StaticCallee(); sc != nil && sc.String() == "fmt.Sprintf" {
			if v, ok := un.sprintf(fr, st, in); ok {
				un.bind(fr, in, v)
				return
			}
		}
		res := un.execCall(fr, st, in.Common(), in, in.Pos())
		un.bind(fr, in, res)
	case *ssa.Defer:
		if len(findLoopsCached(fr.fn)) > 0 {
			for _, li := range findLoopsCached(fr.fn) {
				if li.body[in.Block()] {
					un.outside = "defer inside a loop"
					return
				}
			}
		}
		d := deferred{instr: in, flag: st.guard}
		for _, a := range in.Call.Args {
			d.args = append(d.args, un.val(fr, a))
		}
		d.fnv = un.val(fr, in.Call.Value)
		fr.defers = append(fr.defers, d)
	case *ssa.RunDefers:
		un.runDefers(fr, st, in)
	case *ssa.Go:
		// spawn: the callee's precondition must hold; no effect on the spawner (interleavings are not modelled)
		// the spawned goroutine runs concurrently: like any other thread it can only touch shared state that the
		// sequential proof already treats as changeable (volatile state, monitor-guarded fields at the next acquire)
		un.note("goroutine spawned in " + funcKey(fr.fn) + ": its body is not interleaved with the spawner (lock discipline stands in)")
		// the callee's precondition must hold where it is spawned: the call is executed on a scratch copy of the state
		// (its obligations count, its effects do not)
		scratch := st.clone()
		// whatever the scratch execution assumes must not leak into the spawner's path: it runs under an extra,
		// unconstrained path condition
		scratch.guard = and(st.guard, un.u.freshConst("spawn", "Bool"))
		un.preOnly = true
		un.execCall(fr, scratch, in.Common(), in, in.Pos())
		un.preOnly = false
		// ghost: spawned_<F>(x) counts the goroutines started by `go x.F(...)` / `go F(x, ...)`
		if len(in.Call.Args) > 0 {
			if _, isPtr := in.Call.Args[0].Type().Underlying().(*types.Pointer); isPtr {
				name := "G_spawned"
				if sc := in.Call.StaticCallee(); sc != nil {
					name = "G_spawned_" + strings.ReplaceAll(sanitize(sc.Name()), "$", "_")
				}
				c := un.comp(name, arraySort("Int", "Int"), "ghost")
				x := un.val(fr, in.Call.Args[0]).t
				un.set(st, c, sto(un.get(st, c), "(+ "+sel(un.get(st, c), x)+" 1)", x))
			}
		}
		un.havocVolatile(st)
	case *ssa.Send:
		un.execSend(fr, st, in)
	case *ssa.Select:
		un.outside = fmt.Sprintf("channel operation (%T) in %s", in, funcKey(fr.fn))
	case *ssa.SliceToArrayPointer:
		un.outside = "SliceToArrayPointer"
	default:
		un.outside = fmt.Sprintf("unsupported instruction %T", in)
	}
}

var loopCache = map[*ssa.Function][]*loopInfo{}

func findLoopsCached(fn *ssa.Function) []*loopInfo {
	if l, ok := loopCache[fn]; ok {
		return l
	}
	l := findLoops(fn)
	loopCache[fn] = l
	return l
}

func (un *Unit) outsideGo(fr *Frame, st *State, in *ssa.Go) {
	if un.allowGo(fr) {
		return
	}
	un.outside = "go statement in " + funcKey(fr.fn)
}

func (un *Unit) allowGo(fr *Frame) bool {
	if fr.contract != nil {
		if _, ok := fr.contract.Opts["allow-go"]; ok {
			return true
		}
	}
	if un.contract != nil {
		if _, ok := un.contract.Opts["allow-go"]; ok {
			return true
		}
	}
	return false
}

// localOnly: the alloc is only loaded from / stored to directly (so it can live in the state map).
func localOnly(a *ssa.Alloc) bool {
	refs := a.Referrers()
	if refs == nil {
		return false
	}
	for _, r := range *refs {
		switch r := r.(type) {
		case *ssa.Store:
			if r.Addr != a {
				return false
			}
		case *ssa.UnOp:
			if r.Op != token.MUL {
				return false
			}
		case *ssa.DebugRef:
		default:
			return false
		}
	}
	return true
}

func (un *Unit) trackStoredFn(p *Place, v Val) {
	if v.fn != nil {
		un.closures[v.t] = v
	}
}

func (un *Unit) makeIface(st *State, x Val, t types.Type) Val {
	if _, ok := types.Unalias(t).(*types.TypeParam); ok {
		// a value of a type parameter converted to an interface: its dynamic type is unknown
		n := un.u.freshConst("tp_iface", "g_Iface")
		un.assume(st, un.typeFacts(st, n, types.NewInterfaceType(nil, nil)))
		return Val{t: n}
	}
	if _, isIface := t.Underlying().(*types.Interface); isIface {
		return x
	}
	tag := un.typeTag(t)
	switch t.Underlying().(type) {
	case *types.Pointer, *types.Map, *types.Chan:
		return Val{t: fmt.Sprintf("(mk_iface %d %s)", tag, x.t)}
	case *types.Signature:
		v := Val{t: fmt.Sprintf("(mk_iface %d %s)", tag, x.t), fn: x.fn, binds: x.binds}
		return v
	}
	// boxed value: immutable cell holding the value
	box := un.allocRef(st, "box")
	c := un.boxComp(t)
	un.set(st, c, sto(un.get(st, c), x.t, box))
	v := Val{t: fmt.Sprintf("(mk_iface %d %s)", tag, box), fn: x.fn, binds: x.binds}
	return v
}

func (un *Unit) boxComp(t types.Type) string {
	name := "B_" + sanitize(typeName(t))
	un.comp(name, arraySort("Int", un.u.sortOf(t)), "box")
	return name
}

var typeTags = map[string]int{}
var typeTagTypes = map[int]types.Type{}

func (un *Unit) typeTag(t types.Type) int {
	k := types.TypeString(types.Unalias(t), nil)
	// an instantiation of a generic type with (its own or a method's) type parameters is the generic type itself
	base := types.Unalias(t)
	star := ""
	if pt, ok := base.(*types.Pointer); ok {
		star = "*"
		base = types.Unalias(pt.Elem())
	}
	if n, ok := base.(*types.Named); ok && n.TypeArgs() != nil && n.TypeArgs().Len() > 0 {
		all := true
		for i := 0; i < n.TypeArgs().Len(); i++ {
			if _, ok := types.Unalias(n.TypeArgs().At(i)).(*types.TypeParam); !ok {
				all = false
			}
		}
		if all {
			k = star + types.TypeString(n.Origin(), nil)
		}
	} else if ok && n.TypeParams() != nil && n.TypeParams().Len() > 0 {
		k = star + types.TypeString(n.Origin(), nil)
	}
	if id, ok := typeTags[k]; ok {
		return id
	}
	id := len(typeTags) + 1
	typeTags[k] = id
	typeTagTypes[id] = t
	return id
}

func (un *Unit) execUnOp(fr *Frame, st *State, in *ssa.UnOp) {
	x := un.val(fr, in.X)
	switch in.Op {
	case token.MUL: // load
		et := in.Type()
		if isStructType(et) {
			un.nonNil(st, fr, x, "load", in.Pos())
			un.bind(fr, in, Val{t: un.loadStruct(st, x.t, et)})
			return
		}
		if x.place == nil {
			un.nonNil(st, fr, x, "load", in.Pos())
		}
		p := un.placeOf(st, x, et)
		v := un.loadPlace(st, p)
		// name the loaded value to keep terms small
		if len(v) > 40 {
			n := un.u.freshConst(fr.fn.Name()+"."+in.Name(), un.u.sortOf(et))
			un.addFact(eq(n, v))
			v = n
		}
		if !p.local {
			bound := un.boundOf(st, p.comp)
			un.nextOverride = bound
			tf := un.typeFacts(st, v, et)
			un.nextOverride = ""
			if len(p.keys) >= 1 && un.compKind[p.comp] != "elem" {
				// see specx.fieldOf: no claim about fields of objects allocated after this version came into being
				tf = implies("(< "+p.keys[0]+" "+bound+")", tf)
			}
			un.assume(st, tf)
		}
		out := Val{t: v}
		if cl, ok := un.closures[v]; ok {
			out.fn, out.binds = cl.fn, cl.binds
		}
		un.bind(fr, in, out)
	case token.NOT:
		un.bind(fr, in, Val{t: not(x.t)})
	case token.SUB:
		if isInteger(in.Type()) {
			if un.u.bv {
				un.bind(fr, in, Val{t: "(bvneg " + x.t + ")"})
			} else {
				un.bind(fr, in, Val{t: "(- " + x.t + ")"})
			}
		} else {
			un.bind(fr, in, Val{t: "(- " + x.t + ")"})
		}
	case token.XOR:
		if un.u.bv {
			un.bind(fr, in, Val{t: "(bvnot " + x.t + ")"})
		} else {
			un.u.declareFun("g_bitnot", []string{"Int"}, "Int")
			un.bind(fr, in, Val{t: "(g_bitnot " + x.t + ")"})
		}
	case token.ARROW:
		un.execRecv(fr, st, in)
	default:
		un.outside = "unop " + in.Op.String()
	}
}

func (un *Unit) cmp(op string, t types.Type, a, b string) string {
	if un.u.bv && isInteger(t) {
		signed := !isUnsigned(t)
		m := map[string]string{"<": "bvult", "<=": "bvule", ">": "bvugt", ">=": "bvuge"}
		if signed {
			m = map[string]string{"<": "bvslt", "<=": "bvsle", ">": "bvsgt", ">=": "bvsge"}
		}
		return "(" + m[op] + " " + a + " " + b + ")"
	}
	return "(" + op + " " + a + " " + b + ")"
}

func (un *Unit) addI(t types.Type, a, b string) string {
	if un.u.bv {
		return "(bvadd " + a + " " + b + ")"
	}
	if a == "0" {
		return b
	}
	if b == "0" {
		return a
	}
	return "(+ " + a + " " + b + ")"
}

func (un *Unit) subI(a, b string) string {
	if un.u.bv {
		return "(bvsub " + a + " " + b + ")"
	}
	if b == "0" {
		return a
	}
	return "(- " + a + " " + b + ")"
}

func (un *Unit) boundsCheck(st *State, fr *Frame, idx, ln string, idxT types.Type, desc string, pos token.Pos) {
	var g string
	if un.u.bv {
		// lengths are 64-bit; widen the index if needed
		w := intWidth(idxT)
		i := idx
		if w < 64 {
			if isUnsigned(idxT) {
				i = fmt.Sprintf("((_ zero_extend %d) %s)", 64-w, idx)
			} else {
				i = fmt.Sprintf("((_ sign_extend %d) %s)", 64-w, idx)
			}
		}
		if isUnsigned(idxT) {
			g = "(bvult " + i + " " + ln + ")"
		} else {
			g = and("(bvsle (_ bv0 64) "+i+")", "(bvslt "+i+" "+ln+")")
		}
	} else {
		g = and("(<= 0 "+idx+")", "(< "+idx+" "+ln+")")
	}
	un.safety(st, fr, "bounds", desc, g, pos)
}

func (un *Unit) binop(fr *Frame, st *State, op token.Token, x, y Val, xt, yt, rt types.Type, pos token.Pos) string {
	a, b := x.t, y.t
	ux := types.Unalias(xt).Underlying()
	if tp, ok := types.Unalias(xt).(*types.TypeParam); ok {
		_ = tp
		switch op {
		case token.EQL:
			return eq(a, b)
		case token.NEQ:
			return not(eq(a, b))
		}
	}
	switch ut := ux.(type) {
	case *types.Basic:
		switch {
		case ut.Info()&types.IsBoolean != 0:
			switch op {
			case token.EQL:
				return eq(a, b)
			case token.NEQ:
				return not(eq(a, b))
			case token.LAND:
				return and(a, b)
			case token.LOR:
				return or(a, b)
			}
		case ut.Info()&types.IsString != 0:
			switch op {
			case token.ADD:
				return "(str.++ " + a + " " + b + ")"
			case token.EQL:
				return eq(a, b)
			case token.NEQ:
				return not(eq(a, b))
			case token.LSS:
				return "(str.< " + a + " " + b + ")"
			case token.LEQ:
				return "(str.<= " + a + " " + b + ")"
			case token.GTR:
				return "(str.< " + b + " " + a + ")"
			case token.GEQ:
				return "(str.<= " + b + " " + a + ")"
			}
		case ut.Info()&types.IsInteger != 0:
			return un.intBinop(fr, st, op, a, b, xt, yt, pos)
		case ut.Info()&types.IsFloat != 0:
			switch op {
			case token.ADD:
				return "(+ " + a + " " + b + ")"
			case token.SUB:
				return "(- " + a + " " + b + ")"
			case token.MUL:
				return "(* " + a + " " + b + ")"
			case token.QUO:
				un.u.declareFun("g_fdiv", []string{"Real", "Real"}, "Real")
				return "(g_fdiv " + a + " " + b + ")"
			case token.EQL:
				return eq(a, b)
			case token.NEQ:
				return not(eq(a, b))
			case token.LSS:
				return "(< " + a + " " + b + ")"
			case token.LEQ:
				return "(<= " + a + " " + b + ")"
			case token.GTR:
				return "(> " + a + " " + b + ")"
			case token.GEQ:
				return "(>= " + a + " " + b + ")"
			}
		case ut.Kind() == types.UnsafePointer:
			switch op {
			case token.EQL:
				return eq(a, b)
			case token.NEQ:
				return not(eq(a, b))
			}
		}
	case *types.Pointer, *types.Map, *types.Chan, *types.Signature:
		switch op {
		case token.EQL:
			return eq(a, b)
		case token.NEQ:
			return not(eq(a, b))
		}
	case *types.Slice:
		// only comparison with nil
		switch op {
		case token.EQL:
			return eq("(s_arr "+pickNonNil(a, b)+")", "0")
		case token.NEQ:
			return not(eq("(s_arr "+pickNonNil(a, b)+")", "0"))
		}
	case *types.Interface:
		var e string
		if isNilIface(a) {
			e = eq("(i_tag "+b+")", "0")
		} else if isNilIface(b) {
			e = eq("(i_tag "+a+")", "0")
		} else {
			e = eq(a, b)
			un.note("interface equality compares dynamic type tag and payload reference (boxed non-pointer payloads compare by box identity)")
		}
		switch op {
		case token.EQL:
			return e
		case token.NEQ:
			return not(e)
		}
	case *types.Struct, *types.Array:
		switch op {
		case token.EQL:
			return eq(a, b)
		case token.NEQ:
			return not(eq(a, b))
		}
	}
	un.outside = fmt.Sprintf("binop %s on %s", op, xt)
	return "false"
}

func isNilIface(t string) bool { return t == "(mk_iface 0 0)" }
func pickNonNil(a, b string) string {
	if a == "(mk_slice 0 0 0 0)" {
		return b
	}
	return a
}

func (un *Unit) intBinop(fr *Frame, st *State, op token.Token, a, b string, xt, yt types.Type, pos token.Pos) string {
	if un.u.bv {
		signed := !isUnsigned(xt)
		w := intWidth(xt)
		// shift counts may have a different width
		fixW := func(b string) string {
			wy := intWidth(yt)
			if wy == w {
				return b
			}
			if wy < w {
				return fmt.Sprintf("((_ zero_extend %d) %s)", w-wy, b)
			}
			// wider count: saturate
			big := fmt.Sprintf("(bvuge %s (_ bv%d %d))", b, w, wy)
			return ite(big, fmt.Sprintf("(_ bv%d %d)", w, w), fmt.Sprintf("((_ extract %d 0) %s)", w-1, b))
		}
		switch op {
		case token.ADD:
			return "(bvadd " + a + " " + b + ")"
		case token.SUB:
			return "(bvsub " + a + " " + b + ")"
		case token.MUL:
			return "(bvmul " + a + " " + b + ")"
		case token.QUO:
			un.safety(st, fr, "div-zero", "quo", not(eq(b, un.intConst(0, xt))), pos)
			if signed {
				return "(bvsdiv " + a + " " + b + ")"
			}
			return "(bvudiv " + a + " " + b + ")"
		case token.REM:
			un.safety(st, fr, "div-zero", "rem", not(eq(b, un.intConst(0, xt))), pos)
			if signed {
				return "(bvsrem " + a + " " + b + ")"
			}
			return "(bvurem " + a + " " + b + ")"
		case token.AND:
			return "(bvand " + a + " " + b + ")"
		case token.OR:
			return "(bvor " + a + " " + b + ")"
		case token.XOR:
			return "(bvxor " + a + " " + b + ")"
		case token.AND_NOT:
			return "(bvand " + a + " (bvnot " + b + "))"
		case token.SHL:
			return "(bvshl " + a + " " + fixW(b) + ")"
		case token.SHR:
			if signed {
				return "(bvashr " + a + " " + fixW(b) + ")"
			}
			return "(bvlshr " + a + " " + fixW(b) + ")"
		case token.EQL:
			return eq(a, b)
		case token.NEQ:
			return not(eq(a, b))
		case token.LSS:
			return un.cmp("<", xt, a, b)
		case token.LEQ:
			return un.cmp("<=", xt, a, b)
		case token.GTR:
			return un.cmp(">", xt, a, b)
		case token.GEQ:
			return un.cmp(">=", xt, a, b)
		}
		un.outside = "bv binop " + op.String()
		return "false"
	}
	switch op {
	case token.ADD:
		return "(+ " + a + " " + b + ")"
	case token.SUB:
		return "(- " + a + " " + b + ")"
	case token.MUL:
		return "(* " + a + " " + b + ")"
	case token.QUO:
		un.safety(st, fr, "div-zero", "quo", not(eq(b, "0")), pos)
		// Go truncates toward zero
		return fmt.Sprintf("(ite (>= %s 0) (div %s %s) (- (div (- %s) %s)))", a, a, b, a, b)
	case token.REM:
		un.safety(st, fr, "div-zero", "rem", not(eq(b, "0")), pos)
		return fmt.Sprintf("(ite (>= %s 0) (mod %s %s) (- (mod (- %s) %s)))", a, a, b, a, b)
	case token.EQL:
		return eq(a, b)
	case token.NEQ:
		return not(eq(a, b))
	case token.LSS:
		return "(< " + a + " " + b + ")"
	case token.LEQ:
		return "(<= " + a + " " + b + ")"
	case token.GTR:
		return "(> " + a + " " + b + ")"
	case token.GEQ:
		return "(>= " + a + " " + b + ")"
	case token.SHL:
		if n, ok := smallConst(b); ok {
			return fmt.Sprintf("(* %s %d)", a, uint64(1)<<uint(n))
		}
	case token.SHR:
		if n, ok := smallConst(b); ok {
			return fmt.Sprintf("(div %s %d)", a, uint64(1)<<uint(n))
		}
	case token.AND:
		if n, ok := maskConst(b); ok {
			return fmt.Sprintf("(mod %s %d)", a, n+1)
		}
	}
	name := map[token.Token]string{token.AND: "g_and", token.OR: "g_or", token.XOR: "g_xor", token.SHL: "g_shl", token.SHR: "g_shr", token.AND_NOT: "g_andnot"}[op]
	if name == "" {
		un.outside = "int binop " + op.String()
		return "0"
	}
	un.u.declareFun(name, []string{"Int", "Int"}, "Int")
	un.note("bit operation " + op.String() + " is uninterpreted in arith int mode")
	return "(" + name + " " + a + " " + b + ")"
}

func smallConst(s string) (int, bool) {
	var n int
	if _, err := fmt.Sscanf(s, "%d", &n); err == nil && fmt.Sprint(n) == s && n >= 0 && n < 63 {
		return n, true
	}
	return 0, false
}

func maskConst(s string) (uint64, bool) {
	var n uint64
	if _, err := fmt.Sscanf(s, "%d", &n); err == nil && fmt.Sprint(n) == s && n > 0 && (n&(n+1)) == 0 {
		return n, true
	}
	return 0, false
}

func (un *Unit) execConvert(fr *Frame, st *State, in *ssa.Convert) {
	x := un.val(fr, in.X)
	from, to := in.X.Type(), in.Type()
	fu, tu := from.Underlying(), to.Underlying()
	fb, fok := fu.(*types.Basic)
	tb, tok := tu.(*types.Basic)
	switch {
	case fok && tok && fb.Info()&types.IsInteger != 0 && tb.Info()&types.IsInteger != 0:
		if un.u.bv {
			wf, wt := intWidth(from), intWidth(to)
			switch {
			case wf == wt:
				un.bind(fr, in, Val{t: x.t})
			case wf > wt:
				un.bind(fr, in, Val{t: fmt.Sprintf("((_ extract %d 0) %s)", wt-1, x.t)})
			case isUnsigned(from):
				un.bind(fr, in, Val{t: fmt.Sprintf("((_ zero_extend %d) %s)", wt-wf, x.t)})
			default:
				un.bind(fr, in, Val{t: fmt.Sprintf("((_ sign_extend %d) %s)", wt-wf, x.t)})
			}
			return
		}
		// int mode: value-preserving when in range; otherwise wrapped (uninterpreted within range)
		tf := un.typeFacts(st, x.t, to)
		if tf == "true" {
			un.bind(fr, in, Val{t: x.t})
			return
		}
		wn := "g_wrap_" + sanitize(to.String())
		un.u.declareFun(wn, []string{"Int"}, "Int")
		w := "(" + wn + " " + x.t + ")"
		r := un.u.freshConst("conv", "Int")
		un.addFact(eq(r, ite(tf, x.t, w)))
		un.addFact(un.typeFacts(st, r, to))
		un.bind(fr, in, Val{t: r})
	case fok && tok && fb.Info()&types.IsString != 0 && tb.Info()&types.IsString != 0:
		un.bind(fr, in, x)
	case fok && tok && (fb.Info()&types.IsFloat != 0 || tb.Info()&types.IsFloat != 0):
		r := un.u.freshConst("fconv", un.u.sortOf(to))
		if tb.Info()&types.IsFloat != 0 && fb.Info()&types.IsInteger != 0 && !un.u.bv {
			un.addFact(eq(r, "(to_real "+x.t+")"))
		} else if fb.Info()&types.IsFloat != 0 && tb.Info()&types.IsInteger != 0 && !un.u.bv {
			// float -> integer truncates toward zero (floats are modelled as mathematical reals: no rounding error);
			// the result is only pinned down when it fits the target type (Go leaves the rest implementation-defined)
			tf := un.typeFacts(st, r, to)
			un.assume(st, tf)
			trunc := ite("(>= "+x.t+" 0.0)", "(to_int "+x.t+")", "(- (to_int (- "+x.t+")))")
			probe := un.u.freshConst("ftrunc", "Int")
			un.addFact(eq(probe, trunc))
			un.assume(st, implies(un.typeFacts(st, probe, to), eq(r, probe)))
			un.assumed["floating-point arithmetic is treated as real arithmetic (no rounding); float->int conversion truncates toward zero"] = true
		} else {
			un.assume(st, un.typeFacts(st, r, to))
			un.note("float conversion result is havoc'd within its type's range")
		}
		un.bind(fr, in, Val{t: r})
	case fok && fb.Info()&types.IsString != 0:
		// string -> []byte / []rune : fresh array holding the bytes
		if sl, ok := tu.(*types.Slice); ok && isByte(sl.Elem()) {
			arr := un.allocRef(st, "bytes")
			ln := "(str.len " + x.t + ")"
			un.u.declareFun("g_str_bytes", []string{"String"}, arraySort("Int", "Int"))
			ec := un.elemComp(sl.Elem())
			un.set(st, ec, sto(un.get(st, ec), "(g_str_bytes "+x.t+")", arr))
			un.bind(fr, in, Val{t: fmt.Sprintf("(mk_slice %s 0 %s %s)", arr, ln, ln)})
			return
		}
		un.outside = "conversion " + from.String() + " -> " + to.String()
	case tok && tb.Info()&types.IsString != 0:
		if sl, ok := fu.(*types.Slice); ok && isByte(sl.Elem()) {
			un.u.declareFun("g_bytes_str", []string{arraySort("Int", "Int"), "Int", "Int"}, "String")
			ec := un.elemComp(sl.Elem())
			r := fmt.Sprintf("(g_bytes_str %s (s_off %s) (s_len %s))", sel(un.get(st, ec), "(s_arr "+x.t+")"), x.t, x.t)
			un.u.usesStr = true
			n := un.u.freshConst("str", "String")
			un.addFact(eq(n, r))
			un.addFact(eq("(str.len "+n+")", "(s_len "+x.t+")"))
			un.bind(fr, in, Val{t: n})
			return
		}
		if fok && fb.Info()&types.IsInteger != 0 {
			un.u.declareFun("g_rune_str", []string{"Int"}, "String")
			un.bind(fr, in, Val{t: "(g_rune_str " + x.t + ")"})
			return
		}
		un.outside = "conversion " + from.String() + " -> " + to.String()
	default:
		if _, ok := tu.(*types.Pointer); ok {
			un.bind(fr, in, x) // unsafe.Pointer <-> pointer
			return
		}
		if tok && tb.Kind() == types.UnsafePointer {
			un.bind(fr, in, x)
			return
		}
		un.outside = "conversion " + from.String() + " -> " + to.String()
	}
}

func isByte(t types.Type) bool {
	b, ok := t.Underlying().(*types.Basic)
	return ok && (b.Kind() == types.Uint8)
}

func (un *Unit) execTypeAssert(fr *Frame, st *State, in *ssa.TypeAssert) {
	x := un.val(fr, in.X)
	at := in.AssertedType
	var ok, v string
	if _, isIface := at.Underlying().(*types.Interface); isIface {
		// interface-to-interface: succeeds iff dynamic type implements it; known only for registered tags
		okc := un.u.freshConst("implements", "Bool")
		un.assume(st, implies(okc, not(eq("(i_tag "+x.t+")", "0"))))
		// tags of concrete types known not / known to implement
		for id, ct := range typeTagTypes {
			impl := types.Implements(ct, at.Underlying().(*types.Interface))
			if !impl {
				if pt, isPtr := ct.(*types.Pointer); !isPtr {
					_ = pt
				}
			}
			if impl {
				un.assume(st, implies(eq("(i_tag "+x.t+")", fmt.Sprint(id)), okc))
			} else {
				un.assume(st, implies(eq("(i_tag "+x.t+")", fmt.Sprint(id)), not(okc)))
			}
		}
		ok, v = okc, x.t
	} else {
		tag := un.typeTag(at)
		ok = eq("(i_tag "+x.t+")", fmt.Sprint(tag))
		switch at.Underlying().(type) {
		case *types.Pointer, *types.Map, *types.Chan, *types.Signature:
			v = "(i_val " + x.t + ")"
		default:
			v = sel(un.get(st, un.boxComp(at)), "(i_val "+x.t+")")
		}
	}
	if in.CommaOk {
		res := Val{tuple: []Val{{t: ite(ok, v, un.zero(at)), typ: at}, {t: ok, typ: types.Typ[types.Bool]}}}
		un.bind(fr, in, res)
		return
	}
	un.safety(st, fr, "type-assert", typeName(at), ok, in.Pos())
	un.bind(fr, in, Val{t: v})
}

func (un *Unit) execSlice(fr *Frame, st *State, in *ssa.Slice) {
	x := un.val(fr, in.X)
	intT := types.Typ[types.Int]
	zero := un.intConst(0, intT)
	lo := zero
	if in.Low != nil {
		lo = un.val(fr, in.Low).t
	}
	switch xt := in.X.Type().Underlying().(type) {
	case *types.Slice:
		hi := "(s_len " + x.t + ")"
		if in.High != nil {
			hi = un.val(fr, in.High).t
		}
		mx := "(s_cap " + x.t + ")"
		if in.Max != nil {
			mx = un.val(fr, in.Max).t
		}
		un.safety(st, fr, "slice-bounds", "lo", un.cmp("<=", intT, zero, lo), in.Pos())
		un.safety(st, fr, "slice-bounds", "lo<=hi", un.cmp("<=", intT, lo, hi), in.Pos())
		un.safety(st, fr, "slice-bounds", "hi<=max", un.cmp("<=", intT, hi, mx), in.Pos())
		if in.Max != nil {
			un.safety(st, fr, "slice-bounds", "max<=cap", un.cmp("<=", intT, mx, "(s_cap "+x.t+")"), in.Pos())
		}
		r := fmt.Sprintf("(mk_slice (s_arr %s) %s %s %s)", x.t, un.addI(intT, "(s_off "+x.t+")", lo), un.subI(hi, lo), un.subI(mx, lo))
		n := un.u.freshConst("slice", "g_Slice")
		un.addFact(eq(n, r))
		un.bind(fr, in, Val{t: n})
	case *types.Basic: // string
		hi := "(str.len " + x.t + ")"
		if in.High != nil {
			hi = un.val(fr, in.High).t
		}
		un.safety(st, fr, "slice-bounds", "lo", "(<= 0 "+lo+")", in.Pos())
		un.safety(st, fr, "slice-bounds", "lo<=hi", "(<= "+lo+" "+hi+")", in.Pos())
		un.safety(st, fr, "slice-bounds", "hi<=len", "(<= "+hi+" (str.len "+x.t+"))", in.Pos())
		un.bind(fr, in, Val{t: fmt.Sprintf("(str.substr %s %s (- %s %s))", x.t, lo, hi, lo)})
	case *types.Pointer: // pointer to array
		at := xt.Elem().Underlying().(*types.Array)
		arr := x.t
		if x.place != nil && len(x.place.keys) == 1 {
			arr = x.place.keys[0]
		}
		n := un.intConst(at.Len(), intT)
		hi := n
		if in.High != nil {
			hi = un.val(fr, in.High).t
		}
		un.safety(st, fr, "slice-bounds", "lo", un.cmp("<=", intT, zero, lo), in.Pos())
		un.safety(st, fr, "slice-bounds", "lo<=hi", un.cmp("<=", intT, lo, hi), in.Pos())
		un.safety(st, fr, "slice-bounds", "hi<=len", un.cmp("<=", intT, hi, n), in.Pos())
		un.bind(fr, in, Val{t: fmt.Sprintf("(mk_slice %s %s %s %s)", arr, lo, un.subI(hi, lo), un.subI(n, lo))})
	default:
		un.outside = "slice of " + in.X.Type().String()
	}
}

func (un *Unit) execLookup(fr *Frame, st *State, in *ssa.Lookup) {
	x := un.val(fr, in.X)
	k := un.val(fr, in.Index).t
	switch xt := in.X.Type().Underlying().(type) {
	case *types.Map:
		d, vv, l := un.mapComps(xt)
		has := and(not(eq(x.t, "0")), sel(un.get(st, d), x.t, k))
		// a map holding some key has at least one entry
		un.assume(st, implies(has, "(>= "+sel(un.get(st, l), x.t)+" 1)"))
		v := ite(has, sel(un.get(st, vv), x.t, k), un.zero(xt.Elem()))
		n := un.u.freshConst("lookup", un.u.sortOf(xt.Elem()))
		un.addFact(eq(n, v))
		un.assume(st, un.typeFacts(st, n, xt.Elem()))
		if in.CommaOk {
			un.bind(fr, in, Val{tuple: []Val{{t: n, typ: xt.Elem()}, {t: has, typ: types.Typ[types.Bool]}}})
		} else {
			un.bind(fr, in, Val{t: n})
		}
	case *types.Basic:
		un.boundsCheck(st, fr, k, "(str.len "+x.t+")", in.Index.Type(), "index", in.Pos())
		un.bind(fr, in, Val{t: "(str.to_code (str.at " + x.t + " " + k + "))"})
	default:
		un.outside = "lookup on " + in.X.Type().String()
	}
}

// Range/Next: only map iteration and string iteration produce these in SSA.
// A map iterator is a ghost "visited" set: Next yields an unvisited key of the map, or ok=false when all are visited.
func (un *Unit) execRange(fr *Frame, st *State, in *ssa.Range) {
	x := un.val(fr, in.X)
	mt, ok := in.X.Type().Underlying().(*types.Map)
	if !ok {
		un.outside = "range over string"
		return
	}
	it := un.allocRef(st, "iter")
	vis := un.comp("It_visited_"+sanitize(un.u.sortOf(mt.Key())), arraySort("Int", arraySort(un.u.sortOf(mt.Key()), "Bool")), "iter")
	un.set(st, vis, sto(un.get(st, vis), fmt.Sprintf("((as const %s) false)", arraySort(un.u.sortOf(mt.Key()), "Bool")), it))
	cnt := un.comp("It_count", arraySort("Int", "Int"), "iter")
	un.set(st, cnt, sto(un.get(st, cnt), "0", it))
	v := Val{t: it}
	v.binds = []Val{x}
	un.bind(fr, in, v)
}

func (un *Unit) execNext(fr *Frame, st *State, in *ssa.Next) {
	if in.IsString {
		un.outside = "range over string"
		return
	}
	itv := un.val(fr, in.Iter)
	rng := in.Iter.(*ssa.Range)
	mt := rng.X.Type().Underlying().(*types.Map)
	m := un.val(fr, rng.X)
	d, vv, _ := un.mapComps(mt)
	ks := un.u.sortOf(mt.Key())
	vis := "It_visited_" + sanitize(ks)
	ok := un.u.freshConst("next_ok", "Bool")
	k := un.u.freshConst("next_k", ks)
	dom := sel(un.get(st, d), m.t)
	visited := sel(un.get(st, vis), itv.t)
	// ok ==> k in dom and not visited ; !ok ==> every key in dom has been visited
	un.assume(st, implies(ok, and(not(eq(m.t, "0")), sel(dom, k), not(sel(visited, k)))))
	qk := "qk!" + fmt.Sprint(un.u.fresh)
	un.u.usesQuant = true
	un.assume(st, implies(not(ok), or(eq(m.t, "0"), fmt.Sprintf("(forall ((%s %s)) (=> (select %s %s) (select %s %s)))", qk, ks, dom, qk, visited, qk))))
	// the number of keys yielded so far; the iteration ends exactly when it equals the map's size
	cnt := un.comp("It_count", arraySort("Int", "Int"), "iter")
	_, _, lc := un.mapComps(mt)
	mlen := ite(eq(m.t, "0"), "0", sel(un.get(st, lc), m.t))
	cur := sel(un.get(st, cnt), itv.t)
	un.assume(st, implies(ok, "(< "+cur+" "+mlen+")"))
	un.assume(st, implies(not(ok), eq(cur, mlen)))
	// the position at which each key was yielded
	idx := un.comp("It_index_"+sanitize(ks), arraySort("Int", arraySort(ks, "Int")), "iter")
	un.set(st, idx, sto(un.get(st, idx), ite(ok, cur, sel(un.get(st, idx), itv.t, k)), itv.t, k))
	un.set(st, cnt, sto(un.get(st, cnt), ite(ok, "(+ "+cur+" 1)", cur), itv.t))
	un.set(st, vis, sto(un.get(st, vis), ite(ok, "true", sel(visited, k)), itv.t, k))
	val := sel(un.get(st, vv), m.t, k)
	un.assume(st, implies(ok, un.typeFacts(st, val, mt.Elem())))
	un.bind(fr, in, Val{tuple: []Val{{t: ok, typ: types.Typ[types.Bool]}, {t: k, typ: mt.Key()}, {t: val, typ: mt.Elem()}}})
}
