package main

// Translation of contract expressions into SMT terms over a pair of states (old, cur).

import (
	"go/ast"
	"regexp"
	"fmt"
	"go/token"
	"go/types"
	"strconv"
	"strings"

	"golang.org/x/tools/go/ssa"
)

// SV is a spec-level value: an SMT term with either a Go type or a bare SMT sort (ghost values).
type SV struct {
	t     string
	typ   types.Type
	sort  string
	place *Place
	lit   bool // untyped integer literal
	gtext string // declared sort text of a ghost value (map[K]V / set[K]), so that indexing recovers V's Go type
}

type Scope struct {
	un      *Unit
	vars    map[string]SV
	cur     *State
	old     *State
	pkg     *types.Package
	fr      *Frame
	callee  string
	bound   map[string]bool
	next0   string // allocation frontier at the "old" state
	inQuant bool
	retGuards map[string]bool // path conditions of the calls that ret(...) refers to
	failed  error
}

func (sc *Scope) child() *Scope {
	n := *sc
	n.vars = map[string]SV{}
	for k, v := range sc.vars {
		n.vars[k] = v
	}
	return &n
}

func (un *Unit) pkgOf(fn *ssa.Function) *types.Package {
	f := fn
	for f.Parent() != nil {
		f = f.Parent()
	}
	if f.Pkg != nil {
		return f.Pkg.Pkg
	}
	if f.Object() != nil {
		return f.Object().Pkg()
	}
	return nil
}

func (un *Unit) pkgByName(name string) *types.Package {
	if sp, ok := un.prog.byName[name]; ok {
		return sp.Pkg
	}
	return nil
}

// scopeFor builds the scope of the unit's own contract: parameters at entry, results if given.
func (un *Unit) scopeFor(fr *Frame, cur, old *State, results []Val) *Scope {
	sc := &Scope{un: un, vars: map[string]SV{}, cur: cur, old: old, pkg: un.pkgOf(fr.fn), fr: fr}
	fn := fr.fn
	for _, p := range fn.Params {
		v := fr.env[p]
		sc.vars[p.Name()] = SV{t: v.t, typ: p.Type(), place: v.place}
	}
	for _, fv := range fn.FreeVars {
		v := fr.env[fv]
		// a free variable is a pointer to the captured variable; expose the variable itself under its name
		sc.vars["&"+fv.Name()] = SV{t: v.t, typ: fv.Type(), place: v.place}
		if pt, ok := fv.Type().(*types.Pointer); ok {
			if isStructType(pt.Elem()) {
				sc.vars[fv.Name()] = SV{t: v.t, typ: fv.Type()}
			} else {
				p := un.placeOf(cur, v, pt.Elem())
				// value of the captured variable: state dependent; resolve lazily through a marker
				sc.vars[fv.Name()] = SV{t: "", typ: pt.Elem(), place: p}
			}
		}
	}
	// packages built with debug info (`debugnames`): source names of register-allocated locals
	for _, b := range fr.fn.Blocks {
		for _, in := range b.Instrs {
			if dr, ok := in.(*ssa.DebugRef); ok && !dr.IsAddr {
				if id, ok := dr.Expr.(*ast.Ident); ok {
					if id.Name == "err" || id.Name == "result" || id.Name == "ok" || strings.HasPrefix(id.Name, "ret") {
						continue // the contract's names for results win
					}
					if val, bound := fr.env[dr.X]; bound && val.t != "" {
						if _, clash := sc.vars[id.Name]; !clash {
							sc.vars[id.Name] = SV{t: val.t, typ: dr.X.Type()}
						}
					}
				}
			}
		}
	}
	// named local variables that live in memory cells (address-taken / captured): visible by their source name
	for v, val := range fr.env {
		if al, ok := v.(*ssa.Alloc); ok && al.Comment != "" && val.place != nil {
			if _, clash := sc.vars[al.Comment]; !clash {
				sc.vars[al.Comment] = SV{t: "", typ: al.Type().(*types.Pointer).Elem(), place: val.place}
			}
		} else if ok && al.Comment != "" && val.place == nil && isStructType(al.Type().(*types.Pointer).Elem()) {
			// a struct-typed local that lives in memory: visible as the object itself
			if _, clash := sc.vars[al.Comment]; !clash {
				sc.vars[al.Comment] = SV{t: val.t, typ: al.Type()}
			}
		}
		if rg, ok := v.(*ssa.Range); ok {
			sc.vars["$iter"] = SV{t: val.t, sort: "Int"}
			if mt, ok := rg.X.Type().Underlying().(*types.Map); ok {
				sc.vars["$iterKeySort"] = SV{t: un.u.sortOf(mt.Key()), sort: "sortname"}
			}
		}
	}
	if fr.fn == un.fn && un.selfRef != "" {
		sc.vars["this"] = SV{t: un.selfRef, typ: fn.Signature}
	}
	if fr.contract != nil && len(fr.contract.Names) > 0 && fr.fn == un.fn {
		// contract parameter names bind positionally (interface contracts checked against an implementation)
		for i, n := range fr.contract.Names {
			if i < len(fn.Params) {
				v := fr.env[fn.Params[i]]
				sc.vars[n] = SV{t: v.t, typ: fn.Params[i].Type(), place: v.place}
			}
		}
	}
	if results != nil {
		un.bindResults(sc, fn.Signature, results, fr.contract)
	}
	return sc
}

func (un *Unit) bindResults(sc *Scope, sig *types.Signature, results []Val, fc *FuncContract) {
	res := sig.Results()
	for i := 0; i < res.Len() && i < len(results); i++ {
		sv := SV{t: results[i].t, typ: res.At(i).Type()}
		sc.vars[fmt.Sprintf("ret%d", i)] = sv
		if n := res.At(i).Name(); n != "" && n != "_" {
			if _, clash := sc.vars[n]; !clash {
				sc.vars[n] = sv
			}
		}
		if fc != nil && i < len(fc.ResNames) {
			sc.vars[fc.ResNames[i]] = sv
		}
	}
	if res.Len() >= 1 {
		if _, ok := sc.vars["result"]; !ok {
			sc.vars["result"] = SV{t: results[0].t, typ: res.At(0).Type()}
		}
		last := res.At(res.Len() - 1)
		if isErrorType(last.Type()) {
			if _, ok := sc.vars["err"]; !ok {
				sc.vars["err"] = SV{t: results[res.Len()-1].t, typ: last.Type()}
			}
		}
		if res.Len() == 2 {
			if b, ok := last.Type().Underlying().(*types.Basic); ok && b.Kind() == types.Bool {
				if _, ok := sc.vars["ok"]; !ok {
					sc.vars["ok"] = SV{t: results[1].t, typ: last.Type()}
				}
			}
		}
	}
}

func isErrorType(t types.Type) bool {
	n, ok := types.Unalias(t).(*types.Named)
	return ok && n.Obj().Pkg() == nil && n.Obj().Name() == "error"
}

// resolveType parses a type text: Go types in the scope's package, or ghost sorts.
func (sc *Scope) resolveType(text string) (types.Type, string, error) {
	text = strings.TrimSpace(text)
	un := sc.un
	switch text {
	case "int":
		return types.Typ[types.Int], un.u.sortOf(types.Typ[types.Int]), nil
	case "int64":
		return types.Typ[types.Int64], un.u.sortOf(types.Typ[types.Int64]), nil
	case "uint64":
		return types.Typ[types.Uint64], un.u.sortOf(types.Typ[types.Uint64]), nil
	case "uint32":
		return types.Typ[types.Uint32], un.u.sortOf(types.Typ[types.Uint32]), nil
	case "byte", "uint8":
		return types.Typ[types.Uint8], un.u.sortOf(types.Typ[types.Uint8]), nil
	case "bool":
		return types.Typ[types.Bool], "Bool", nil
	case "string":
		un.u.usesStr = true
		return types.Typ[types.String], "String", nil
	case "ref", "Ref":
		return nil, "Int", nil
	case "Int", "mathint":
		return nil, "Int", nil
	case "Bool":
		return nil, "Bool", nil
	case "error":
		return types.Universe.Lookup("error").Type(), "g_Iface", nil
	case "any":
		return types.NewInterfaceType(nil, nil), "g_Iface", nil
	}
	if strings.HasPrefix(text, "*") {
		t, _, err := sc.resolveType(text[1:])
		if err != nil {
			return nil, "", err
		}
		if t == nil {
			return nil, "Int", nil
		}
		return types.NewPointer(t), "Int", nil
	}
	if strings.HasPrefix(text, "[]") {
		t, _, err := sc.resolveType(text[2:])
		if err != nil {
			return nil, "", err
		}
		return types.NewSlice(t), "g_Slice", nil
	}
	if strings.HasPrefix(text, "set[") && strings.HasSuffix(text, "]") {
		_, ks, err := sc.resolveType(text[4 : len(text)-1])
		if err != nil {
			return nil, "", err
		}
		return nil, arraySort(ks, "Bool"), nil
	}
	if strings.HasPrefix(text, "map[") {
		// ghost map: map[K]V -> (Array K V)
		d := 0
		for i := 3; i < len(text); i++ {
			if text[i] == '[' {
				d++
			}
			if text[i] == ']' {
				d--
				if d == 0 {
					_, ks, err := sc.resolveType(text[4:i])
					if err != nil {
						return nil, "", err
					}
					_, vs, err := sc.resolveType(text[i+1:])
					if err != nil {
						return nil, "", err
					}
					return nil, arraySort(ks, vs), nil
				}
			}
		}
	}
	// qualified or local named type
	pkg := sc.pkg
	name := text
	if i := strings.Index(text, "."); i >= 0 {
		pkg = un.pkgByName(text[:i])
		name = text[i+1:]
		if pkg == nil {
			return nil, "", fmt.Errorf("unknown package in type %q", text)
		}
	}
	if pkg != nil {
		if obj := pkg.Scope().Lookup(name); obj != nil {
			if tn, ok := obj.(*types.TypeName); ok {
				return tn.Type(), un.u.sortOf(tn.Type()), nil
			}
		}
	}
	// type parameter of the function under verification
	if sc.fr != nil && sc.fr.fn != nil {
		f := sc.fr.fn
		if tps := f.TypeParams(); tps != nil {
			for i := 0; i < tps.Len(); i++ {
				if tps.At(i).Obj().Name() == name {
					return tps.At(i), un.u.sortOf(tps.At(i)), nil
				}
			}
		}
		if rt := f.Signature.Recv(); rt != nil {
			if n := namedOf(rt.Type()); n != nil && n.TypeArgs() != nil {
				for i := 0; i < n.TypeArgs().Len(); i++ {
					if tp, ok := n.TypeArgs().At(i).(*types.TypeParam); ok && tp.Obj().Name() == name {
						return tp, un.u.sortOf(tp), nil
					}
				}
			}
		}
	}
	return nil, "", fmt.Errorf("unknown type %q", text)
}

func (sc *Scope) fail(format string, a ...any) SV {
	if sc.failed == nil {
		sc.failed = fmt.Errorf(format, a...)
	}
	return SV{t: "false", typ: types.Typ[types.Bool], sort: "Bool"}
}

func (sv SV) sortIn(u *Universe) string {
	if sv.sort != "" {
		return sv.sort
	}
	if sv.typ != nil {
		return u.sortOf(sv.typ)
	}
	return "Int"
}

func boolSV(t string) SV { return SV{t: t, typ: types.Typ[types.Bool], sort: "Bool"} }
func intSV(t string) SV  { return SV{t: t, typ: types.Typ[types.Int]} }

// evalSpec evaluates a contract expression.
func (un *Unit) evalSpec(e Expr, sc *Scope) (string, SV) {
	v := un.ev(e, sc)
	if sc.failed != nil && un.outside == "" {
		un.outside = "contract error: " + sc.failed.Error()
	}
	return v.t, v
}

func (un *Unit) coerceLit(a, b SV) (SV, SV) {
	// make integer literals match the other operand's bit-vector sort
	if !un.u.bv {
		return a, b
	}
	if a.lit && !b.lit {
		a = un.litAs(a, b)
	} else if b.lit && !a.lit {
		b = un.litAs(b, a)
	} else if a.lit && b.lit {
		a = un.litAs(a, SV{typ: types.Typ[types.Int]})
		b = un.litAs(b, SV{typ: types.Typ[types.Int]})
	}
	return a, b
}

func (un *Unit) litAs(l SV, other SV) SV {
	w := 64
	if other.typ != nil && isInteger(other.typ) {
		w = intWidth(other.typ)
	} else if strings.HasPrefix(other.sort, "(_ BitVec ") {
		fmt.Sscanf(other.sort, "(_ BitVec %d)", &w)
	} else if other.typ == nil && other.sort == "Int" {
		return l
	}
	n, err := strconv.ParseInt(l.t, 0, 64)
	if err != nil {
		un2, err2 := strconv.ParseUint(l.t, 0, 64)
		if err2 != nil {
			return l
		}
		n = int64(un2)
	}
	v := uint64(n)
	if w < 64 {
		v &= (1 << uint(w)) - 1
	}
	t := other.typ
	if t == nil {
		t = types.Typ[types.Int]
	}
	return SV{t: fmt.Sprintf("(_ bv%d %d)", v, w), typ: t}
}

func (un *Unit) ev(e Expr, sc *Scope) SV {
	switch e := e.(type) {
	case *EBool:
		if e.V {
			return boolSV("true")
		}
		return boolSV("false")
	case *EInt:
		n, err := strconv.ParseInt(e.V, 0, 64)
		if err != nil {
			u64, err2 := strconv.ParseUint(e.V, 0, 64)
			if err2 != nil {
				return sc.fail("bad integer %s", e.V)
			}
			return SV{t: fmt.Sprint(u64), typ: types.Typ[types.Int], lit: true}
		}
		return SV{t: intLit(n), typ: types.Typ[types.Int], lit: true}
	case *EStr:
		un.u.usesStr = true
		return SV{t: strLit(e.V), typ: types.Typ[types.String], sort: "String"}
	case *EIdent:
		return un.evIdent(e.Name, sc)
	case *EUnary:
		x := un.ev(e.X, sc)
		switch e.Op {
		case "!":
			return boolSV(not(x.t))
		case "*":
			// dereference of a pointer to a non-struct value (a cell), e.g. *s.rw for a *sync.RWMutex field
			if x.typ == nil {
				return sc.fail("dereference of a ghost value")
			}
			pt, ok := x.typ.Underlying().(*types.Pointer)
			if !ok {
				return sc.fail("dereference of non-pointer %s", x.typ)
			}
			if isStructType(pt.Elem()) {
				return SV{t: x.t, typ: x.typ}
			}
			pl := &Place{comp: un.cellComp(pt.Elem()), keys: []string{x.t}, typ: pt.Elem()}
			if x.place != nil && false {
				pl = x.place
			}
			return SV{t: un.loadPlace(sc.cur, pl), typ: pt.Elem(), place: pl}
		case "-":
			if un.u.bv && !x.lit {
				return SV{t: "(bvneg " + x.t + ")", typ: x.typ}
			}
			if x.lit {
				if strings.HasPrefix(x.t, "(- ") {
					return SV{t: strings.TrimSuffix(strings.TrimPrefix(x.t, "(- "), ")"), typ: x.typ, lit: true}
				}
				return SV{t: "(- " + x.t + ")", typ: x.typ, lit: true}
			}
			return SV{t: "(- " + x.t + ")", typ: x.typ, sort: x.sort}
		}
	case *EBinary:
		return un.evBinary(e, sc)
	case *EIte:
		c := un.ev(e.C, sc)
		a := un.ev(e.A, sc)
		b := un.ev(e.B, sc)
		a, b = un.coerceLit(a, b)
		a.t = ite(c.t, a.t, b.t)
		a.lit = false
		return a
	case *EQuant:
		return un.evQuant(e, sc)
	case *ESel:
		return un.evSel(e, sc)
	case *EIndex:
		return un.evIndex(e, sc)
	case *ESlice:
		return sc.fail("slice expressions are not supported in contracts")
	case *ECall:
		return un.evCall(e, sc)
	}
	return sc.fail("unsupported expression %T", e)
}

func (un *Unit) evIdent(name string, sc *Scope) SV {
	if v, ok := sc.vars[name]; ok {
		if v.t == "" && v.place != nil {
			// captured variable: load from the current state
			return SV{t: un.loadPlace(sc.cur, v.place), typ: v.typ}
		}
		return v
	}
	switch name {
	case "nil":
		return SV{t: "nil", sort: "nil"}
	case "heldlocks":
		// number of locks the current call chain holds (maintained by the lock model)
		return SV{t: un.get(sc.cur, un.comp("G_heldlocks", "Int", "ghost")), typ: types.Typ[types.Int]}
	}
	if g, ok := un.specs.Ghosts[name]; ok && !g.Field {
		_, s, err := sc.resolveType(g.Sort)
		if err != nil {
			return sc.fail("ghost %s: %v", name, err)
		}
		c := un.comp("G_"+name, s, "ghost")
		return SV{t: un.get(sc.cur, c), sort: s, gtext: g.Sort}
	}
	// package-level constant or variable of the scope's package
	if sc.pkg != nil {
		if obj := sc.pkg.Scope().Lookup(name); obj != nil {
			switch o := obj.(type) {
			case *types.Const:
				return un.constSV(o)
			case *types.Var:
				n := "|g_glob_" + sanitize(pkgKey(sc.pkg)+"."+name) + "|"
				if !un.u.declared[n] {
					un.u.declare(n, "Int")
					un.addFact("(< " + n + " 0)")
				}
				if isStructType(o.Type()) {
					return SV{t: n, typ: types.NewPointer(o.Type())}
				}
				p := &Place{comp: un.cellComp(o.Type()), keys: []string{n}, typ: o.Type()}
				return SV{t: un.loadPlace(sc.cur, p), typ: o.Type()}
			}
		}
	}
	return sc.fail("unknown identifier %q", name)
}

func (un *Unit) constSV(o *types.Const) SV {
	c := &ssa.Const{Value: o.Val()}
	_ = c
	v := un.constVal(ssa.NewConst(o.Val(), o.Type()))
	t := o.Type()
	if b, ok := t.Underlying().(*types.Basic); ok && b.Info()&types.IsUntyped != 0 {
		t = types.Default(t)
		v = un.constVal(ssa.NewConst(o.Val(), t))
	}
	return SV{t: v.t, typ: t}
}

func (un *Unit) isNilTest(x SV) string {
	if x.typ == nil {
		return eq(x.t, "0")
	}
	switch x.typ.Underlying().(type) {
	case *types.Slice:
		return eq("(s_arr "+x.t+")", "0")
	case *types.Interface:
		return eq("(i_tag "+x.t+")", "0")
	}
	return eq(x.t, "0")
}

func (un *Unit) evBinary(e *EBinary, sc *Scope) SV {
	switch e.Op {
	case "&&":
		return boolSV(and(un.ev(e.X, sc).t, un.ev(e.Y, sc).t))
	case "||":
		return boolSV(or(un.ev(e.X, sc).t, un.ev(e.Y, sc).t))
	case "==>":
		return boolSV(implies(un.ev(e.X, sc).t, un.ev(e.Y, sc).t))
	case "<==>":
		return boolSV(eq(un.ev(e.X, sc).t, un.ev(e.Y, sc).t))
	case "in":
		x := un.ev(e.X, sc)
		if c, ok := e.Y.(*ECall); ok && len(c.Args) == 1 && len(un.specs.GhostDefs[c.Fun]) > 0 {
			// x in ghost(a) where ghost is defined as a comprehension for a's type: substitute instead of building the set
			a := un.ev(c.Args[0], sc)
			if d := un.ghostDefFor(c.Fun, a); d != nil {
				if q, ok := d.E.(*EQuant); ok && q.Setof && len(q.Vars) == 1 {
					inner := sc.child()
					inner.vars = map[string]SV{d.Param: a, q.Vars[0].Name: x}
					inner.bound = nil
					if p := un.pkgByName(d.Pkg); p != nil {
						inner.pkg = p
					}
					r := un.ev(q.Body, inner)
					if inner.failed != nil && sc.failed == nil {
						sc.failed = inner.failed
					}
					return boolSV(r.t)
				}
			}
		}
		y := un.ev(e.Y, sc)
		if y.typ != nil {
			if mt, ok := y.typ.Underlying().(*types.Map); ok {
				d, _, _ := un.mapComps(mt)
				return boolSV(and(not(eq(y.t, "0")), sel(un.get(sc.cur, d), y.t, x.t)))
			}
		}
		return boolSV(sel(y.t, x.t))
	}
	x := un.ev(e.X, sc)
	y := un.ev(e.Y, sc)
	if e.Op == "==" || e.Op == "!=" {
		var r string
		switch {
		case x.sort == "nil" && y.sort == "nil":
			r = "true"
		case y.sort == "nil":
			r = un.isNilTest(x)
		case x.sort == "nil":
			r = un.isNilTest(y)
		default:
			x, y = un.coerceLit(x, y)
			r = eq(x.t, y.t)
		}
		if e.Op == "!=" {
			r = not(r)
		}
		return boolSV(r)
	}
	x, y = un.coerceLit(x, y)
	isStr := x.sortIn(un.u) == "String"
	if isStr {
		switch e.Op {
		case "+":
			return SV{t: "(str.++ " + x.t + " " + y.t + ")", typ: types.Typ[types.String], sort: "String"}
		case "<":
			return boolSV("(str.< " + x.t + " " + y.t + ")")
		case "<=":
			return boolSV("(str.<= " + x.t + " " + y.t + ")")
		}
	}
	t := x.typ
	if t == nil || x.lit {
		t = y.typ
	}
	if t == nil {
		t = types.Typ[types.Int]
	}
	bv := un.u.bv && strings.HasPrefix(x.sortIn(un.u), "(_ BitVec")
	if x.sortIn(un.u) == "Real" || y.sortIn(un.u) == "Real" {
		bv = false
	}
	res := SV{typ: t, sort: x.sort, lit: x.lit && y.lit}
	switch e.Op {
	case "<", "<=", ">", ">=":
		if bv {
			return boolSV(un.cmp(e.Op, t, x.t, y.t))
		}
		return boolSV("(" + e.Op + " " + x.t + " " + y.t + ")")
	case "+":
		if bv {
			res.t = "(bvadd " + x.t + " " + y.t + ")"
		} else {
			res.t = "(+ " + x.t + " " + y.t + ")"
		}
	case "-":
		if bv {
			res.t = "(bvsub " + x.t + " " + y.t + ")"
		} else {
			res.t = "(- " + x.t + " " + y.t + ")"
		}
	case "*":
		if bv {
			res.t = "(bvmul " + x.t + " " + y.t + ")"
		} else {
			res.t = "(* " + x.t + " " + y.t + ")"
		}
	case "/":
		if bv {
			if isUnsigned(t) {
				res.t = "(bvudiv " + x.t + " " + y.t + ")"
			} else {
				res.t = "(bvsdiv " + x.t + " " + y.t + ")"
			}
		} else {
			res.t = "(div " + x.t + " " + y.t + ")" // mathematical (floor) division in specs
		}
	case "%":
		if bv {
			if isUnsigned(t) {
				res.t = "(bvurem " + x.t + " " + y.t + ")"
			} else {
				res.t = "(bvsrem " + x.t + " " + y.t + ")"
			}
		} else {
			res.t = "(mod " + x.t + " " + y.t + ")"
		}
	case "&":
		if bv {
			res.t = "(bvand " + x.t + " " + y.t + ")"
		} else {
			return sc.fail("bit operation & needs arith bv")
		}
	case "|":
		if bv {
			res.t = "(bvor " + x.t + " " + y.t + ")"
		} else {
			return sc.fail("bit operation | needs arith bv")
		}
	case "^":
		if bv {
			res.t = "(bvxor " + x.t + " " + y.t + ")"
		} else {
			return sc.fail("bit operation ^ needs arith bv")
		}
	case "<<":
		if bv {
			res.t = "(bvshl " + x.t + " " + y.t + ")"
		} else {
			return sc.fail("<< needs arith bv")
		}
	case ">>":
		if bv {
			if isUnsigned(t) {
				res.t = "(bvlshr " + x.t + " " + y.t + ")"
			} else {
				res.t = "(bvashr " + x.t + " " + y.t + ")"
			}
		} else {
			return sc.fail(">> needs arith bv")
		}
	default:
		return sc.fail("operator %s", e.Op)
	}
	return res
}

func (un *Unit) evQuant(e *EQuant, sc *Scope) SV {
	un.u.usesQuant = true
	inner := sc.child()
	inner.inQuant = true
	var binds []string
	var guards []string
	for _, v := range e.Vars {
		t, s, err := sc.resolveType(v.Type)
		if err != nil {
			return sc.fail("%v", err)
		}
		un.u.fresh++
		name := fmt.Sprintf("q_%s!%d", sanitize(v.Name), un.u.fresh)
		binds = append(binds, "("+name+" "+s+")")
		inner.vars[v.Name] = SV{t: name, typ: t, sort: s}
		if t != nil {
			// typed quantified variables range over well-typed values only
			if tf := un.typeFactsQ(name, t); tf != "true" {
				guards = append(guards, tf)
			}
		}
	}
	body := un.ev(e.Body, inner)
	if inner.failed != nil && sc.failed == nil {
		sc.failed = inner.failed
	}
	if e.Setof {
		if len(e.Vars) != 1 {
			return sc.fail("setof takes one variable")
		}
		_, ks, _ := sc.resolveType(e.Vars[0].Type)
		srt := arraySort(ks, "Bool")
		v := inner.vars[e.Vars[0].Name].t
		def := and(and(guards...), body.t)
		// the same comprehension over the same state is the same set: one constant, one defining axiom
		key := srt + "|" + strings.ReplaceAll(def, v, "$v")
		if un.setofMemo == nil {
			un.setofMemo = map[string]string{}
		}
		a, seen := un.setofMemo[key]
		if !seen {
			a = un.u.freshConst("setof", srt)
			un.setofMemo[key] = a
			un.addFact(fmt.Sprintf("(forall (%s) (= (select %s %s) %s))", binds[0], a, v, def))
		}
		return SV{t: a, sort: srt, gtext: "set[" + e.Vars[0].Type + "]"}
	}
	g := and(guards...)
	q := "forall"
	b := implies(g, body.t)
	if !e.Forall {
		q = "exists"
		b = and(g, body.t)
	}
	return boolSV("(" + q + " (" + strings.Join(binds, " ") + ") " + b + ")")
}

// typeFactsQ: range facts for quantified variables (no allocation-frontier facts).
func (un *Unit) typeFactsQ(v string, t types.Type) string {
	if b, ok := t.Underlying().(*types.Basic); ok && b.Info()&types.IsInteger != 0 && !un.u.bv {
		if isUnsigned(t) {
			return "(<= 0 " + v + ")"
		}
	}
	return "true"
}

func (un *Unit) evSel(e *ESel, sc *Scope) SV {
	// package-qualified constant? (pkg.Name)
	if id, ok := e.X.(*EIdent); ok {
		if _, isVar := sc.vars[id.Name]; !isVar {
			if pkg := un.pkgByName(id.Name); pkg != nil {
				if obj := pkg.Scope().Lookup(e.Name); obj != nil {
					switch o := obj.(type) {
					case *types.Const:
						return un.constSV(o)
					case *types.Var:
						n := "|g_glob_" + sanitize(pkgKey(pkg)+"."+e.Name) + "|"
						if !un.u.declared[n] {
							un.u.declare(n, "Int")
							un.addFact("(< " + n + " 0)")
						}
						if isStructType(o.Type()) {
							return SV{t: n, typ: types.NewPointer(o.Type())}
						}
						p := &Place{comp: un.cellComp(o.Type()), keys: []string{n}, typ: o.Type()}
						return SV{t: un.loadPlace(sc.cur, p), typ: o.Type()}
					}
				}
			}
		}
	}
	x := un.ev(e.X, sc)
	if x.typ == nil {
		return sc.fail("field %s of a ghost value", e.Name)
	}
	return un.selectField(x, e.Name, sc)
}

func (un *Unit) selectField(x SV, name string, sc *Scope) SV {
	t := x.typ
	isPtr := false
	if pt, ok := t.Underlying().(*types.Pointer); ok {
		isPtr = true
		t = pt.Elem()
	}
	st, ok := t.Underlying().(*types.Struct)
	if !ok {
		return sc.fail("selecting %s from non-struct %s", name, x.typ)
	}
	// direct field, or promoted through embedded fields
	for i := 0; i < st.NumFields(); i++ {
		f := st.Field(i)
		if f.Name() == name {
			return un.fieldOf(x, isPtr, t, i, sc)
		}
	}
	for i := 0; i < st.NumFields(); i++ {
		f := st.Field(i)
		if f.Embedded() {
			inner := un.fieldOf(x, isPtr, t, i, sc)
			ft := f.Type()
			if pt, ok := ft.Underlying().(*types.Pointer); ok {
				ft = pt.Elem()
			}
			if _, ok := ft.Underlying().(*types.Struct); ok {
				sub := sc.child()
				r := un.selectField(inner, name, sub)
				if sub.failed == nil {
					return r
				}
			}
		}
	}
	return sc.fail("no field %s in %s", name, t)
}

func (un *Unit) fieldOf(x SV, isPtr bool, t types.Type, i int, sc *Scope) SV {
	st := t.Underlying().(*types.Struct)
	ft := st.Field(i).Type()
	if !isPtr {
		dt := un.u.sortOf(t)
		return SV{t: "(" + un.u.fieldSel(dt, i) + " " + x.t + ")", typ: ft}
	}
	if isStructType(ft) {
		// embedded struct value: the sub-object, typed as pointer so that further selection goes through the heap
		return SV{t: un.subRef(x.t, t, i), typ: types.NewPointer(ft)}
	}
	c, _ := un.fieldComp(t, i)
	v := sel(un.get(sc.cur, c), x.t)
	// heap well-formedness: references stored in this version of the field were allocated before it came into being
	switch ft.Underlying().(type) {
	case *types.Pointer, *types.Interface, *types.Slice, *types.Map:
		if len(v) < 400 && !sc.inQuant {
			bound := un.boundOf(sc.cur, c)
			un.nextOverride = bound
			tf := un.typeFacts(sc.cur, v, ft)
			un.nextOverride = ""
			// only for objects that already existed when this version of the field came into being: the fields of an
			// object allocated later (by a callee) are described by that callee's postcondition alone
			un.addFact(implies("(< "+x.t+" "+bound+")", tf))
		}
	}
	return SV{t: v, typ: ft, place: &Place{comp: c, keys: []string{x.t}, typ: ft}}
}

func (un *Unit) evIndex(e *EIndex, sc *Scope) SV {
	x := un.ev(e.X, sc)
	i := un.ev(e.I, sc)
	if x.typ == nil {
		// ghost array
		es := "Int"
		if strings.HasPrefix(x.sort, "(Array ") {
			_, es = splitArraySort(x.sort)
		}
		out := SV{t: sel(x.t, i.t), sort: es}
		if strings.HasPrefix(x.gtext, "map[") {
			// recover the value type of map[K]V
			d := 0
			for k := 3; k < len(x.gtext); k++ {
				if x.gtext[k] == '[' {
					d++
				}
				if x.gtext[k] == ']' {
					d--
					if d == 0 {
						vtext := strings.TrimSpace(x.gtext[k+1:])
						if vt, vs, err := sc.resolveType(vtext); err == nil {
							out.typ, out.sort, out.gtext = vt, vs, vtext
						}
						break
					}
				}
			}
		} else if strings.HasPrefix(x.gtext, "set[") {
			out.typ, out.sort = types.Typ[types.Bool], "Bool"
		}
		return out
	}
	switch xt := x.typ.Underlying().(type) {
	case *types.Slice:
		if i.lit && un.u.bv {
			i = un.litAs(i, SV{typ: types.Typ[types.Int]})
		}
		ec := un.elemComp(xt.Elem())
		pos := un.addI(types.Typ[types.Int], "(s_off "+x.t+")", i.t)
		if isStructType(xt.Elem()) {
			return SV{t: un.elemRef("(s_arr "+x.t+")", pos), typ: types.NewPointer(xt.Elem())}
		}
		return SV{t: un.gat(sel(un.get(sc.cur, ec), "(s_arr "+x.t+")"), "(s_off "+x.t+")", i.t, un.u.sortOf(xt.Elem())), typ: xt.Elem()}
	case *types.Map:
		_, vv, _ := un.mapComps(xt)
		return SV{t: sel(un.get(sc.cur, vv), x.t, i.t), typ: xt.Elem()}
	case *types.Array:
		if i.lit && un.u.bv {
			i = un.litAs(i, SV{typ: types.Typ[types.Int]})
		}
		return SV{t: sel(x.t, i.t), typ: xt.Elem()}
	case *types.Basic:
		return SV{t: "(str.to_code (str.at " + x.t + " " + i.t + "))", typ: types.Typ[types.Uint8]}
	case *types.Pointer:
		if at, ok := xt.Elem().Underlying().(*types.Array); ok {
			if i.lit && un.u.bv {
				i = un.litAs(i, SV{typ: types.Typ[types.Int]})
			}
			if x.place != nil {
				keys := append(append([]string{}, x.place.keys...), i.t)
				return SV{t: sel(un.get(sc.cur, x.place.comp), keys...), typ: at.Elem()}
			}
			c := un.elemComp(at.Elem())
			return SV{t: sel(un.get(sc.cur, c), x.t, i.t), typ: at.Elem()}
		}
	}
	return sc.fail("cannot index %s", x.typ)
}

func splitArraySort(s string) (string, string) {
	// "(Array K V)"
	inner := strings.TrimSuffix(strings.TrimPrefix(s, "(Array "), ")")
	d := 0
	for i := 0; i < len(inner); i++ {
		switch inner[i] {
		case '(':
			d++
		case ')':
			d--
		case ' ':
			if d == 0 {
				return inner[:i], inner[i+1:]
			}
		}
	}
	return inner, "Int"
}

func (un *Unit) evCall(e *ECall, sc *Scope) SV {
	arg := func(i int) SV { return un.ev(e.Args[i], sc) }
	need := func(n int) bool {
		if len(e.Args) != n {
			sc.fail("%s expects %d arguments", e.Fun, n)
			return false
		}
		return true
	}
	switch e.Fun {
	case "old":
		if !need(1) {
			return boolSV("false")
		}
		o := sc.child()
		o.cur = sc.old
		v := un.ev(e.Args[0], o)
		if o.failed != nil && sc.failed == nil {
			sc.failed = o.failed
		}
		return v
	case "acq":
		// acq(e): e evaluated in the state right after the most recent lock acquisition on this path
		if !need(1) {
			return boolSV("false")
		}
		if un.lastAcquireSnap == nil {
			return sc.fail("acq(): no lock acquisition")
		}
		o := sc.child()
		o.cur = un.lastAcquireSnap
		v := un.ev(e.Args[0], o)
		if o.failed != nil && sc.failed == nil {
			sc.failed = o.failed
		}
		return v
	case "len":
		if !need(1) {
			return intSV("0")
		}
		x := arg(0)
		if x.typ == nil {
			return sc.fail("len of ghost value")
		}
		switch t := x.typ.Underlying().(type) {
		case *types.Slice:
			return intSV("(s_len " + x.t + ")")
		case *types.Basic:
			return intSV("(str.len " + x.t + ")")
		case *types.Map:
			_, _, l := un.mapComps(t)
			return intSV(ite(eq(x.t, "0"), "0", sel(un.get(sc.cur, l), x.t)))
		case *types.Array:
			return intSV(un.intConst(t.Len(), types.Typ[types.Int]))
		}
		return sc.fail("len of %s", x.typ)
	case "cap":
		x := arg(0)
		return intSV("(s_cap " + x.t + ")")
	case "held", "nanos", "int", "int64", "mathint":
		if !need(1) {
			return intSV("0")
		}
		x := arg(0)
		if e.Fun == "mathint" && un.u.bv {
			return SV{t: "(bv2nat " + x.t + ")", sort: "Int"}
		}
		return SV{t: x.t, typ: types.Typ[types.Int], sort: x.sortIn(un.u)}
	case "visited":
		// visited(k): the (single) map iteration of this function has already yielded key k
		it, ok := sc.vars["$iter"]
		ks, ok2 := sc.vars["$iterKeySort"]
		if !ok || !ok2 {
			return sc.fail("visited(): no map iteration in scope")
		}
		comp := "It_visited_" + sanitize(ks.t)
		if _, known := un.compSort[comp]; !known {
			return sc.fail("visited(): iterator state not materialised")
		}
		return boolSV(sel(un.get(sc.cur, comp), it.t, arg(0).t))
	case "iterindex":
		// iterindex(k): how many keys the map iteration had yielded before it yielded k
		it, ok := sc.vars["$iter"]
		ks, ok2 := sc.vars["$iterKeySort"]
		if !ok || !ok2 {
			return sc.fail("iterindex(): no map iteration in scope")
		}
		comp := un.comp("It_index_"+sanitize(ks.t), arraySort("Int", arraySort(ks.t, "Int")), "iter")
		return intSV(sel(un.get(sc.cur, comp), it.t, arg(0).t))
	case "itercount":
		it, ok := sc.vars["$iter"]
		if !ok {
			return sc.fail("itercount(): no map iteration in scope")
		}
		un.comp("It_count", arraySort("Int", "Int"), "iter")
		return intSV(sel(un.get(sc.cur, "It_count"), it.t))
	case "payload":
		// payload(x): the pointer stored in interface value x (0 for a typed nil pointer or a nil interface)
		x := arg(0)
		return SV{t: "(i_val " + x.t + ")", sort: "Int"}
	case "now":
		return SV{t: un.clock(sc.cur), typ: types.Typ[types.Int]}
	case "fresh":
		x := arg(0)
		return boolSV("(>= " + un.refOf(x) + " " + un.next(sc.old) + ")")
	case "chlog", "lastsent", "lastrecv":
		// chlog(ch, i): the i-th value sent on ch; lastsent(ch) = chlog(ch, sent(ch)-1); lastrecv(ch) = chlog(ch, recvd(ch)-1)
		x := arg(0)
		var elem types.Type
		if x.typ != nil {
			elem = chanElem(x.typ)
		}
		if elem == nil {
			return sc.fail("%s: not a channel", e.Fun)
		}
		sent, recvd, _, log := un.chComps(elem)
		var idx string
		switch e.Fun {
		case "chlog":
			idx = arg(1).t
		case "lastsent":
			idx = "(- " + sel(un.get(sc.cur, sent), x.t) + " 1)"
		default:
			idx = "(- " + sel(un.get(sc.cur, recvd), x.t) + " 1)"
		}
		return SV{t: sel(un.get(sc.cur, log), x.t, idx), typ: elem}
	case "bytesof":
		// bytesof(page, off, n): the []byte window of n bytes at offset off of backing array `page`
		if len(e.Args) != 3 {
			return sc.fail("bytesof(page, off, n)")
		}
		return SV{t: "(mk_slice " + arg(0).t + " " + arg(1).t + " " + arg(2).t + " " + arg(2).t + ")", typ: types.NewSlice(types.Typ[types.Byte])}
	case "off":
		// off(b): the offset of slice b in its backing array
		return intSV("(s_off " + arg(0).t + ")")
	case "new":
		// new(e) in a modifies clause: e evaluated in the state the callee leaves behind (a location reached through
		// something the call itself assigns, e.g. the ghost state of a freshly linked list element)
		return arg(0)
	case "arr":
		// arr(b): the backing array (the page, for mmap'd memory) of slice b
		x := arg(0)
		return SV{t: "(s_arr " + x.t + ")", sort: "Int"}
	case "valid":
		// valid(x): x refers to an object that exists in the current state (or is nil)
		x := arg(0)
		return boolSV("(< " + un.refOf(x) + " " + un.next(sc.cur) + ")")
	case "allocated":
		x := arg(0)
		return boolSV("(< " + un.refOf(x) + " " + un.next(sc.old) + ")")
	case "unchanged":
		cur := arg(0)
		o := sc.child()
		o.cur = sc.old
		old := un.ev(e.Args[0], o)
		return boolSV(eq(cur.t, old.t))
	case "hasPrefix":
		return boolSV("(str.prefixof " + arg(1).t + " " + arg(0).t + ")")
	case "hasSuffix":
		return boolSV("(str.suffixof " + arg(1).t + " " + arg(0).t + ")")
	case "contains":
		return boolSV("(str.contains " + arg(0).t + " " + arg(1).t + ")")
	case "indexOf":
		return intSV("(str.indexof " + arg(0).t + " " + arg(1).t + " 0)")
	case "itoa":
		return SV{t: un.itoa(arg(0).t), typ: types.Typ[types.String], sort: "String"}
	case "upd":
		a := arg(0)
		return SV{t: "(store " + a.t + " " + arg(1).t + " " + arg(2).t + ")", sort: a.sort}
	case "istype":
		// istype(x, T): dynamic type of interface x is T
		x := arg(0)
		id, ok := e.Args[1].(*EIdent)
		tt := ""
		if ok {
			tt = id.Name
		} else if u, ok := e.Args[1].(*EUnary); ok {
			_ = u
		}
		t, _, err := sc.resolveType(exprText(e.Args[1]))
		_ = tt
		if err != nil || t == nil {
			return sc.fail("istype: %v", err)
		}
		return boolSV(eq("(i_tag "+x.t+")", fmt.Sprint(un.typeTag(t))))
	case "dyn":
		// dyn(x, T): payload of interface x viewed as T (pointer types)
		x := arg(0)
		t, _, err := sc.resolveType(exprText(e.Args[1]))
		if err != nil || t == nil {
			return sc.fail("dyn: %v", err)
		}
		switch t.Underlying().(type) {
		case *types.Pointer, *types.Map, *types.Chan, *types.Signature:
			return SV{t: "(i_val " + x.t + ")", typ: t}
		}
		return SV{t: sel(un.get(sc.cur, un.boxComp(t)), "(i_val "+x.t+")"), typ: t}
	case "ret":
		// ret(callee, k, i): i-th result of the k-th call to callee in the function under verification
		if len(e.Args) != 3 {
			return sc.fail("ret(callee, k, i)")
		}
		callee := exprText(e.Args[0])
		k, _ := strconv.Atoi(exprText(e.Args[1]))
		i, _ := strconv.Atoi(exprText(e.Args[2]))
		key := fmt.Sprintf("%s#%d", callee, k)
		if sc.fr != nil {
			if rs, ok := sc.fr.callRes[key]; ok && i < len(rs) {
				if sc.retGuards != nil && rs[i].callGuard != "" {
					sc.retGuards[rs[i].callGuard] = true
				}
				return SV{t: rs[i].t, typ: rs[i].typ}
			}
		}
		return sc.fail("no recorded call %s", key)
	case "ncalls":
		// ncalls(callee): how many call sites of callee (under contract) the function under verification executes,
		// inlined callees and callbacks included (a syntactic count over the unrolled body, not a run-time count)
		callee := exprText(e.Args[0])
		n := 0
		if sc.fr != nil {
			for k := range sc.fr.callRes {
				if strings.HasPrefix(k, callee+"#") {
					n++
				}
			}
		}
		return intSV(fmt.Sprint(n))
	case "arg":
		// arg(callee, k, name): the argument named `name` of the k-th call to callee in the function under verification
		if len(e.Args) != 3 {
			return sc.fail("arg(callee, k, name)")
		}
		callee := exprText(e.Args[0])
		k, _ := strconv.Atoi(exprText(e.Args[1]))
		pname := exprText(e.Args[2])
		key := fmt.Sprintf("%s#%d", callee, k)
		if sc.fr != nil {
			if as, ok := sc.fr.callArgs[key]; ok {
				if a, ok := as[pname]; ok {
					if sc.retGuards != nil && a.callGuard != "" {
						sc.retGuards[a.callGuard] = true
					}
					return SV{t: a.t, typ: a.typ}
				}
				return sc.fail("call %s has no argument named %s", key, pname)
			}
		}
		return sc.fail("no recorded call %s", key)
	case "mk":
		// mk(T, f1, f2, ...): a value of struct type T with the given field values (positional)
		if len(e.Args) < 1 {
			return sc.fail("mk(T, fields...)")
		}
		t, srt, err := sc.resolveType(exprText(e.Args[0]))
		if err != nil || t == nil {
			return sc.fail("mk: %v", err)
		}
		stt, ok := t.Underlying().(*types.Struct)
		if !ok || stt.NumFields() != len(e.Args)-1 {
			return sc.fail("mk(%s): wrong number of fields", exprText(e.Args[0]))
		}
		var fs []string
		for i := 1; i < len(e.Args); i++ {
			fs = append(fs, un.ev(e.Args[i], sc).t)
		}
		if len(fs) == 0 {
			return SV{t: "mk_" + srt, typ: t}
		}
		return SV{t: "(mk_" + srt + " " + strings.Join(fs, " ") + ")", typ: t}
	case "retis":
		// retis(callee, k, i, x): the k-th call to callee happened on this path and its i-th result is x
		if len(e.Args) != 4 {
			return sc.fail("retis(callee, k, i, x)")
		}
		callee := exprText(e.Args[0])
		k, _ := strconv.Atoi(exprText(e.Args[1]))
		i, _ := strconv.Atoi(exprText(e.Args[2]))
		key := fmt.Sprintf("%s#%d", callee, k)
		x := un.ev(e.Args[3], sc)
		if sc.fr != nil {
			if rs, ok := sc.fr.callRes[key]; ok && i < len(rs) {
				g := rs[i].callGuard
				if g == "" {
					g = "true"
				}
				if x.sort == "nil" {
					return boolSV(and(g, un.isNilTest(SV{t: rs[i].t, typ: rs[i].typ})))
				}
				return boolSV(and(g, eq(rs[i].t, x.t)))
			}
		}
		return boolSV("false") // no such call in this function: it did not happen
	case "called":
		// called(callee, k): the k-th call site of callee (in execution order over the unrolled body) was reached on this path
		if len(e.Args) != 2 {
			return sc.fail("called(callee, k)")
		}
		callee := exprText(e.Args[0])
		k, _ := strconv.Atoi(exprText(e.Args[1]))
		if sc.fr != nil {
			if g, ok := sc.fr.callG[fmt.Sprintf("%s#%d", callee, k)]; ok {
				if g == "" {
					g = "true"
				}
				return boolSV(g)
			}
		}
		return boolSV("false")
	}
	// ghost field access: name(x)
	if g, ok := un.specs.Ghosts[e.Fun]; ok && g.Field {
		_, s, err := sc.resolveType(g.Sort)
		if err != nil {
			return sc.fail("ghost %s: %v", e.Fun, err)
		}
		if !need(1) {
			return boolSV("false")
		}
		x := arg(0)
		if d, y := un.ghostDefFor2(e.Fun, x); d != nil {
			x = y
			inner := sc.child()
			inner.vars = map[string]SV{d.Param: x}
			inner.bound = nil
			if p := un.pkgByName(d.Pkg); p != nil {
				inner.pkg = p
			}
			r := un.ev(d.E, inner)
			if inner.failed != nil && sc.failed == nil {
				sc.failed = inner.failed
			}
			if r.sort == "" && r.typ == nil {
				r.sort = s
			}
			if r.gtext == "" {
				r.gtext = g.Sort
			}
			return r
		}
		ks := x.sortIn(un.u)
		c := un.comp("G_"+e.Fun, arraySort(ks, s), "ghost")
		return SV{t: sel(un.get(sc.cur, c), x.t), sort: s, gtext: g.Sort}
	}
	// spec function
	if sf, ok := un.specs.SpecFns[e.Fun]; ok {
		return un.applySpecFn(sf, e, sc)
	}
	return sc.fail("unknown function %q in contract", e.Fun)
}

func (un *Unit) refOf(x SV) string {
	if x.typ != nil {
		switch x.typ.Underlying().(type) {
		case *types.Slice:
			return "(s_arr " + x.t + ")"
		case *types.Interface:
			return "(i_val " + x.t + ")"
		}
	}
	return x.t
}

func exprText(e Expr) string {
	switch e := e.(type) {
	case *EIdent:
		return e.Name
	case *EInt:
		return e.V
	case *EStr:
		return e.V
	case *ESel:
		return exprText(e.X) + "." + e.Name
	case *EUnary:
		return e.Op + exprText(e.X)
	case *EBinary:
		if e.Op == "*" {
			return exprText(e.X) + "*" + exprText(e.Y)
		}
	}
	return fmt.Sprint(e)
}

func (un *Unit) applySpecFn(sf *SpecFn, e *ECall, sc *Scope) SV {
	if len(e.Args) != len(sf.Params) {
		return sc.fail("spec fn %s expects %d arguments", sf.Name, len(sf.Params))
	}
	_, rs, err := sc.resolveType(sf.Sort)
	rt, _, _ := sc.resolveType(sf.Sort)
	if err != nil {
		return sc.fail("spec fn %s: %v", sf.Name, err)
	}
	var args []SV
	for i := range e.Args {
		a := un.ev(e.Args[i], sc)
		if a.lit && un.u.bv {
			pt, ps, _ := sc.resolveType(sf.Params[i].Type)
			a = un.litAs(a, SV{typ: pt, sort: ps})
		}
		if a.sort == "nil" {
			// nil for a pointer-like parameter is the null reference
			pt, ps, _ := sc.resolveType(sf.Params[i].Type)
			if ps != "Int" {
				return sc.fail("spec fn %s: nil argument for parameter %s of sort %s is not supported", sf.Name, sf.Params[i].Name, ps)
			}
			a = SV{t: "0", typ: pt, sort: ps}
		}
		args = append(args, a)
	}
	if sf.E != nil {
		// defined function: expand (non-recursive)
		inner := &Scope{un: un, vars: map[string]SV{}, cur: sc.cur, old: sc.old, pkg: sc.pkg, fr: sc.fr, inQuant: sc.inQuant}
		for i, p := range sf.Params {
			pt, ps, err := sc.resolveType(p.Type)
			if err != nil {
				return sc.fail("spec fn %s: %v", sf.Name, err)
			}
			inner.vars[p.Name] = SV{t: args[i].t, typ: pt, sort: ps}
		}
		r := un.ev(sf.E, inner)
		if inner.failed != nil && sc.failed == nil {
			sc.failed = inner.failed
		}
		r.typ, r.sort = rt, rs
		return r
	}
	var as []string
	var ts []string
	for i, p := range sf.Params {
		_, ps, err := sc.resolveType(p.Type)
		if err != nil {
			return sc.fail("spec fn %s: %v", sf.Name, err)
		}
		as = append(as, ps)
		ts = append(ts, args[i].t)
	}
	name := "sf_" + sf.Name
	un.u.declareFun(name, as, rs)
	if len(ts) == 0 {
		return SV{t: name, typ: rt, sort: rs}
	}
	return SV{t: "(" + name + " " + strings.Join(ts, " ") + ")", typ: rt, sort: rs}
}

// ---------- contract application at a call site ----------

func (un *Unit) applyContract(fr *Frame, st *State, fc *FuncContract, names []string, sig *types.Signature, args []Val, calleeKey string, pos token.Pos) Val {
	pre := st.clone()
	preFacts := len(un.facts)
	sc := &Scope{un: un, vars: map[string]SV{}, cur: st, old: pre, pkg: un.pkgByName(fc.Pkg), fr: fr}
	if sc.pkg == nil {
		sc.pkg = un.pkgOf(fr.fn)
	}
	// parameter types: receiver first if names has one more entry than the signature's params
	var ptypes []types.Type
	if len(names) == sig.Params().Len()+1 {
		if sig.Recv() != nil {
			ptypes = append(ptypes, sig.Recv().Type())
		} else if len(args) > 0 && args[0].typ != nil {
			ptypes = append(ptypes, args[0].typ)
		} else {
			ptypes = append(ptypes, nil)
		}
	}
	for i := 0; i < sig.Params().Len(); i++ {
		ptypes = append(ptypes, sig.Params().At(i).Type())
	}
	for i, n := range names {
		if i >= len(args) {
			break
		}
		var t types.Type
		if i < len(ptypes) {
			t = ptypes[i]
		}
		if t == nil {
			t = args[i].typ
		}
		sc.vars[n] = SV{t: args[i].t, typ: t, place: args[i].place}
	}
	if un.pendingClosure != nil && len(un.pendingClosure.FreeVars) > 0 {
		cs := un.closureScope(un.pendingClosure, un.pendingBinds, st, fr)
		for k, v := range cs.vars {
			if _, clash := sc.vars[k]; !clash {
				sc.vars[k] = v
			}
		}
		un.pendingClosure, un.pendingBinds = nil, nil
	}
	// function-typed parameters declared with a funcspec: the actual argument must be a function known to implement it
	for pn, fsName := range fc.Params {
		for i, n := range names {
			if n != pn || i >= len(args) {
				continue
			}
			a := args[i]
			okImpl := false
			if a.fn != nil {
				if ac := un.lookupFuncContract(a.fn); ac != nil && ac.Impl == fsName {
					okImpl = true
				}
			}
			if !okImpl && fr.contract != nil {
				// passing on one's own parameter of the same funcspec
				for _, p := range fr.fn.Params {
					if fr.env[p].t == a.t && fr.contract.Params[p.Name()] == fsName {
						okImpl = true
					}
				}
			}
			goal := "false"
			if okImpl {
				goal = "true"
			}
			if goal != "true" {
				un.oblige(st, "pre", un.uniqueName(fmt.Sprintf("%s/call-pre/%s:%s-implements-%s", funcKey(un.fn), shortKey(calleeKey), pn, fsName)), nil, goal, pos,
					"the function passed as "+pn+" is declared to implement funcspec "+fsName)
			}
		}
	}
	fr.calls[calleeKey]++
	ord := fr.calls[calleeKey]
	// preconditions
	for _, cl := range fc.Clauses {
		if cl.Kind != "requires" {
			continue
		}
		t, _ := un.evalSpec(cl.E, sc)
		if cl.Ghost {
			// a ghost requires on an assumed contract is still the caller's duty
		}
		label := cl.Label
		if label == "" {
			label = "requires"
		}
		name := fmt.Sprintf("%s/call-pre/%s:%s", funcKey(un.fn), shortKey(calleeKey), label)
		if ord > 1 {
			name += fmt.Sprintf("#%d", ord)
		}
		if fr.fn != un.fn {
			name += ">" + shortFn(fr.fn)
		}
		un.oblige(st, "pre", name, cl.Props, t, pos, cl.Text)
	}
	if un.preOnly {
		// a spawned call: only its precondition is the spawner's business
		return un.havocResults(st, sig, "spawned")
	}
	// frame
	if !fc.Pure {
		un.bumpNext(st)
		un.havocVolatile(st)
		// time passes inside the callee: the clock it leaves behind is not earlier than the one it found
		oldClock := un.clock(st)
		newClock := un.havocComp(st, "G_clock")
		un.addFact("(>= " + newClock + " " + oldClock + ")")
	}
	for _, cl := range fc.Clauses {
		if cl.Kind == "modifies" && !mentionsResult(cl.Text) {
			un.havocLvalue(cl.Text, sc, st)
		}
	}
	cbVars := map[string]SV{}
	if cbName := fc.Opts["callback"]; cbName != "" {
		un.applyCallback(fr, st, fc, names, args, cbName, cbVars, pos)
		if un.outside != "" {
			return Val{t: "0"}
		}
	}
	res := un.havocResults(st, sig, shortKey(calleeKey))
	var rvals []Val
	if sig.Results().Len() == 1 {
		rvals = []Val{res}
	} else {
		rvals = res.tuple
	}
	for i := range rvals {
		rvals[i].typ = sig.Results().At(i).Type()
	}
	for i := range rvals {
		rvals[i].callGuard = pre.guard
	}
	fr.callRes[fmt.Sprintf("%s#%d", shortKey(calleeKey), ord)] = rvals
	last := calleeKey
	if i := strings.LastIndex(calleeKey, "."); i >= 0 {
		last = calleeKey[i+1:]
		fr.callRes[fmt.Sprintf("%s#%d", last, ord)] = rvals
	}
	argRec := map[string]Val{}
	for i, n := range names {
		if i < len(args) {
			a := args[i]
			a.callGuard = pre.guard
			if v, ok := sc.vars[n]; ok && v.typ != nil {
				a.typ = v.typ
			}
			argRec[n] = a
		}
	}
	fr.callArgs[fmt.Sprintf("%s#%d", shortKey(calleeKey), ord)] = argRec
	fr.callArgs[fmt.Sprintf("%s#%d", last, ord)] = argRec
	fr.callG[fmt.Sprintf("%s#%d", shortKey(calleeKey), ord)] = pre.guard
	fr.callG[fmt.Sprintf("%s#%d", last, ord)] = pre.guard
	// calls made by inlined callees are also visible, in execution order, to the enclosing frames
	for f := fr.parent; f != nil; f = f.parent {
		f.calls[calleeKey]++
		o := f.calls[calleeKey]
		f.callRes[fmt.Sprintf("%s#%d", shortKey(calleeKey), o)] = rvals
		f.callRes[fmt.Sprintf("%s#%d", last, o)] = rvals
		f.callArgs[fmt.Sprintf("%s#%d", shortKey(calleeKey), o)] = argRec
		f.callArgs[fmt.Sprintf("%s#%d", last, o)] = argRec
		f.callG[fmt.Sprintf("%s#%d", shortKey(calleeKey), o)] = pre.guard
		f.callG[fmt.Sprintf("%s#%d", last, o)] = pre.guard
	}
	post := sc.child()
	post.cur = st
	post.old = pre
	for k, v := range cbVars {
		post.vars[k] = v
	}
	un.bindResults(post, sig, rvals, fc)
	// locations named through the result (e.g. ghost state of a returned object) are havoc'd once the result exists
	for _, cl := range fc.Clauses {
		if cl.Kind == "modifies" && mentionsResult(cl.Text) {
			hs := post.child()
			hs.old = st
			hs.cur = st
			un.havocLvalue(cl.Text, hs, st)
		}
	}
	nEns := 0
	for _, cl := range fc.Clauses {
		if cl.Kind != "ensures" {
			continue
		}
		if calleeInternalRe.MatchString(cl.Text) {
			continue // speaks about the callee's internal calls / critical sections: checked there, meaningless to a caller
		}
		t, _ := un.evalSpec(cl.E, post)
		un.assume(st, t)
		nEns++
	}
	hasGhost := false
	for _, cl := range fc.Clauses {
		if cl.Ghost {
			hasGhost = true
		}
	}
	if nEns > 0 && (hasGhost || fc.Trusted || un.wantCallCovers) {
		// vacuity guard: the assumed postcondition must be consistent with what is known at this call site:
		// "reachable before the call" and "unreachable after it" together mean the contract contradicts the context
		name := un.uniqueName(fmt.Sprintf("%s/cover:call-%s", funcKey(un.fn), shortKey(calleeKey)))
		un.obls = append(un.obls, &Obl{Name: name + "@before", Kind: "cover", Guard: "true", Goal: pre.guard, NFacts: preFacts, Fn: funcKey(un.fn), Cover: true, OptionalCover: true,
			Text: "call site reachable"})
		un.obls = append(un.obls, &Obl{Name: name + "@after", Kind: "cover", Guard: "true", Goal: st.guard, NFacts: len(un.facts), Fn: funcKey(un.fn), Cover: true, OptionalCover: true,
			Text: "the callee's assumed postcondition is consistent with the call site's context"})
	}
	return res
}

// clauses that speak about the callee's own calls or critical sections (whole words only: not "randomsecret(")
var calleeInternalRe = regexp.MustCompile(`(^|[^A-Za-z0-9_])(ret|retis|acq|arg|ncalls)\(`)

func shortKey(k string) string {
	// pkg.(*T).M -> (*T).M ; pkg.F -> F
	if i := strings.Index(k, "."); i >= 0 && !strings.HasPrefix(k, "(") {
		return k[i+1:]
	}
	return k
}

// havocLvalue havocs the location(s) named by a modifies entry.
func (un *Unit) havocLvalue(text string, sc *Scope, st *State) {
	text = strings.TrimSpace(text)
	// ghost var or whole ghost field
	if g, ok := un.specs.Ghosts[text]; ok {
		_, s, err := sc.resolveType(g.Sort)
		if err != nil {
			un.outside = "contract error: " + err.Error()
			return
		}
		if g.Field {
			// whole field: all locations
			c := "G_" + text
			if _, ok := un.compSort[c]; !ok {
				ks := "Int"
				if g.Type != "" {
					if _, ksort, err := sc.resolveType(g.Type); err == nil && ksort != "" {
						ks = ksort
					}
				}
				un.comp(c, arraySort(ks, s), "ghost")
			}
			un.havocComp(st, c)
			return
		}
		c := un.comp("G_"+text, s, "ghost")
		before := un.get(st, c)
		after := un.havocComp(st, c)
		if g.Counter {
			un.addFact("(>= " + after + " " + before + ")")
		}
		return
	}
	if strings.HasPrefix(text, "pointee(") && strings.HasSuffix(text, ")") {
		// pointee(x): every field of the struct that the interface value x points to (x = a boxed pointer whose
		// dynamic type is known at the call site, e.g. the &v handed to an unmarshaller)
		e, err := parseExpr(text[len("pointee(") : len(text)-1])
		if err != nil {
			un.outside = "contract error: " + err.Error()
			return
		}
		o := sc.child()
		o.cur = sc.old
		x := un.ev(e, o)
		if strings.HasPrefix(x.t, "(mk_iface ") {
			rest := strings.TrimSuffix(strings.TrimPrefix(x.t, "(mk_iface "), ")")
			if sp := strings.Index(rest, " "); sp > 0 {
				var tag int
				if _, err := fmt.Sscanf(rest[:sp], "%d", &tag); err == nil {
					if pt, ok := typeTagTypes[tag]; ok {
						if ptr, ok := pt.Underlying().(*types.Pointer); ok && isStructType(ptr.Elem()) {
							var ms []modEntry
							un.modObject(&ms, rest[sp+1:], ptr.Elem())
							for _, m := range ms {
								srt := elemSortOf(un.compSort[m.comp])
								fresh := un.u.freshConst("mod_pointee", srt)
								un.set(st, m.comp, sto(un.get(st, m.comp), fresh, m.key))
							}
							return
						}
					}
				}
			}
		}
		un.fullHavoc(st, "pointee of an interface value of unknown dynamic type")
		return
	}
	if strings.HasPrefix(text, "all ") {
		cs, err := un.allComps(strings.TrimSpace(text[4:]), sc)
		if err != nil {
			un.outside = "contract error: " + err.Error()
			return
		}
		for _, c := range cs {
			un.havocComp(st, c)
		}
		return
	}
	if text == "clock" {
		old := un.clock(st)
		n := un.havocComp(st, "G_clock")
		un.addFact("(>= " + n + " " + old + ")")
		return
	}
	if strings.HasSuffix(text, "[*]") {
		e, err := parseExpr(strings.TrimSuffix(text, "[*]"))
		if err != nil {
			un.outside = "contract error: " + err.Error()
			return
		}
		o := sc.child()
		o.cur = sc.old
		x := un.ev(e, o)
		if x.typ != nil {
			switch xt := x.typ.Underlying().(type) {
			case *types.Slice:
				ec := un.elemComp(xt.Elem())
				// only the window [off, off+len) changes
				old := un.get(st, ec)
				fresh := un.u.freshConst("mod_elems", arraySort("Int", un.u.sortOf(xt.Elem())))
				qi := "qi!" + fmt.Sprint(un.u.fresh)
				un.u.usesQuant = true
				arr := "(s_arr " + x.t + ")"
				un.addFact(fmt.Sprintf("(forall ((%s Int)) (=> (or (< %s (s_off %s)) (>= %s (+ (s_off %s) (s_len %s)))) (= (select %s %s) (select %s %s))))",
					qi, qi, x.t, qi, x.t, x.t, fresh, qi, sel(old, arr), qi))
				if isByte(xt.Elem()) && !un.u.bv {
					un.addFact(fmt.Sprintf("(forall ((%s Int)) (and (<= 0 (select %s %s)) (<= (select %s %s) 255)))", qi, fresh, qi, fresh, qi))
				}
				un.set(st, ec, sto(old, fresh, arr))
				return
			case *types.Map:
				d, vv, l := un.mapComps(xt)
				for _, c := range []string{d, vv, l} {
					fresh := un.u.freshConst("mod_map", elemSortOf(un.compSort[c]))
					un.set(st, c, sto(un.get(st, c), fresh, x.t))
				}
				ln := sel(un.get(st, l), x.t)
				un.addFact("(>= " + ln + " 0)")
				return
			}
		}
		un.outside = "modifies " + text + ": not a slice or map"
		return
	}
	e, err := parseExpr(text)
	if err != nil {
		un.outside = "contract error: " + err.Error()
		return
	}
	// ghost field location name(x)
	if c, ok := e.(*ECall); ok {
		if g, ok := un.specs.Ghosts[c.Fun]; ok && g.Field && len(c.Args) == 1 {
			_, s, _ := sc.resolveType(g.Sort)
			o := sc.child()
			o.cur = sc.old
			x := un.ev(c.Args[0], o)
			comp := un.comp("G_"+c.Fun, arraySort(x.sortIn(un.u), s), "ghost")
			fresh := un.u.freshConst("mod_"+c.Fun, s)
			un.set(st, comp, sto(un.get(st, comp), fresh, x.t))
			return
		}
	}
	o := sc.child()
	o.cur = sc.old
	x := un.ev(e, o)
	if o.failed != nil {
		un.outside = "contract error in modifies: " + o.failed.Error()
		return
	}
	if x.place != nil {
		fresh := un.u.freshConst("mod", un.u.sortOf(x.place.typ))
		un.assume(st, un.typeFacts(st, fresh, x.place.typ))
		un.storePlace(st, x.place, fresh)
		return
	}
	// whole object: x is a pointer to struct -> all its fields
	if x.typ != nil {
		if pt, ok := x.typ.Underlying().(*types.Pointer); ok && isStructType(pt.Elem()) {
			un.havocObject(st, x.t, pt.Elem())
			return
		}
	}
	un.outside = "modifies " + text + ": not a location"
}

func elemSortOf(arr string) string {
	_, v := splitArraySort(arr)
	return v
}

func (un *Unit) havocObject(st *State, ref string, t types.Type) {
	stt := t.Underlying().(*types.Struct)
	for i := 0; i < stt.NumFields(); i++ {
		ft := stt.Field(i).Type()
		if isStructType(ft) {
			un.havocObject(st, un.subRef(ref, t, i), ft)
			continue
		}
		c, _ := un.fieldComp(t, i)
		fresh := un.u.freshConst("mod", un.u.sortOf(ft))
		un.assume(st, un.typeFacts(st, fresh, ft))
		un.set(st, c, sto(un.get(st, c), fresh, ref))
	}
}

// ---------- loop invariants ----------

func (un *Unit) loopScope(fr *Frame, li *loopInfo, st *State) *Scope {
	sc := un.scopeFor(fr, st, un.entryFor(fr), nil)
	// loop variables: phis of the header by their source names
	for _, in := range li.header.Instrs {
		phi, ok := in.(*ssa.Phi)
		if !ok {
			break
		}
		v := fr.env[phi]
		name := phiName(phi)
		sc.vars[name] = SV{t: v.t, typ: phi.Type()}
		if name == "rangeindex" {
			sc.vars["iter"] = SV{t: un.addI(phi.Type(), v.t, un.intConst(1, phi.Type())), typ: phi.Type()}
		}
	}
	if _, ok := sc.vars["iter"]; !ok {
		// a plain counting loop: its single integer loop variable is the iteration index
		var cand []SV
		for _, in := range li.header.Instrs {
			phi, ok := in.(*ssa.Phi)
			if !ok {
				break
			}
			if isInteger(phi.Type()) {
				cand = append(cand, SV{t: fr.env[phi].t, typ: phi.Type()})
			}
		}
		if len(cand) == 1 {
			sc.vars["iter"] = cand[0]
		}
	}
	return sc
}

func (un *Unit) entryFor(fr *Frame) *State {
	// with `opt old-at-acquire`, old(...) in loop invariants denotes the state right after the first acquisition too
	if fr.fn == un.fn && un.acquireSnap != nil {
		return un.acquireSnap
	}
	return un.entry
}

func (un *Unit) checkLoopInvEntry(fr *Frame, li *loopInfo, st *State) {
	sc := un.loopScope(fr, li, st)
	for _, cl := range li.invs {
		t, _ := un.evalSpec(cl.E, sc)
		name := fmt.Sprintf("%s/loop%d/inv-entry:%s", funcKey(fr.fn), li.ordinal, labelOr(cl.Label, "inv"))
		un.oblige(st, "inv", name, cl.Props, t, li.header.Instrs[0].Pos(), cl.Text)
	}
}

func (un *Unit) checkLoopInv(fr *Frame, li *loopInfo, from *ssa.BasicBlock, st *State, entry bool) {
	// bind phis to the values flowing along the back-edge
	saved := map[*ssa.Phi]Val{}
	for _, in := range li.header.Instrs {
		phi, ok := in.(*ssa.Phi)
		if !ok {
			break
		}
		saved[phi] = fr.env[phi]
	}
	newVals := map[*ssa.Phi]Val{}
	for phi := range saved {
		newVals[phi] = un.phiOperand(fr, phi, from, li.header)
	}
	for phi, v := range newVals {
		fr.env[phi] = v
	}
	sc := un.loopScope(fr, li, st)
	for _, cl := range li.invs {
		t, _ := un.evalSpec(cl.E, sc)
		name := fmt.Sprintf("%s/loop%d/inv-preserved:%s", funcKey(fr.fn), li.ordinal, labelOr(cl.Label, "inv"))
		un.oblige(st, "inv", name, cl.Props, t, li.header.Instrs[0].Pos(), cl.Text)
	}
	for phi, v := range saved {
		fr.env[phi] = v
	}
}

func (un *Unit) assumeLoopInv(fr *Frame, li *loopInfo, st *State) {
	sc := un.loopScope(fr, li, st)
	for _, cl := range li.invs {
		t, _ := un.evalSpec(cl.E, sc)
		un.assume(st, t)
	}
}

func labelOr(l, d string) string {
	if l == "" {
		return d
	}
	return l
}


// applyCallback models a higher-order callee that invokes its function argument at most once
// (opt callback <param>): the call happens under a fresh boolean cb_called; its results are cb_ret0, cb_ret1, ...
// The argument passed to the callback is a fresh byte slice (the callee's private view of its data).
func (un *Unit) applyCallback(fr *Frame, st *State, fc *FuncContract, names []string, args []Val, cbName string, vars map[string]SV, pos token.Pos) {
	idx := -1
	for i, n := range names {
		if n == cbName {
			idx = i
		}
	}
	if idx < 0 || idx >= len(args) {
		un.outside = "callback parameter " + cbName + " not found"
		return
	}
	fv := args[idx]
	var cbSig *types.Signature
	if fv.typ != nil {
		cbSig, _ = fv.typ.Underlying().(*types.Signature)
	}
	if cbSig == nil && fv.fn != nil {
		cbSig = fv.fn.Signature
	}
	if cbSig == nil {
		un.outside = "callback " + cbName + ": unknown signature"
		return
	}
	called := un.u.freshConst("cb_called", "Bool")
	skip := st.clone()
	skip.guard = and(st.guard, not(called))
	run := st.clone()
	run.guard = and(st.guard, called)
	// arguments: fresh slices / havoc values
	var cargs []Val
	var cats []types.Type
	for i := 0; i < cbSig.Params().Len(); i++ {
		pt := cbSig.Params().At(i).Type()
		cats = append(cats, pt)
		if _, ok := pt.Underlying().(*types.Slice); ok {
			arr := un.allocRef(run, "cbarg")
			ln := un.u.freshConst("cbarg_len", "Int")
			un.addFact("(>= " + ln + " 0)")
			cargs = append(cargs, Val{t: fmt.Sprintf("(mk_slice %s 0 %s %s)", arr, ln, ln), typ: pt})
		} else {
			c := un.u.freshConst("cbarg", un.u.sortOf(pt))
			un.assume(run, un.typeFacts(run, c, pt))
			cargs = append(cargs, Val{t: c, typ: pt})
		}
	}
	// what the callee guarantees about the arguments it hands to the callback (cbassume clauses over cb_arg0.. and the
	// callee's own parameters)
	{
		csc := &Scope{un: un, vars: map[string]SV{}, cur: run, old: run, pkg: un.pkgByName(fc.Pkg), fr: fr}
		for i, n := range names {
			if i < len(args) {
				csc.vars[n] = SV{t: args[i].t, typ: args[i].typ}
			}
		}
		for i, ca := range cargs {
			csc.vars[fmt.Sprintf("cb_arg%d", i)] = SV{t: ca.t, typ: ca.typ}
		}
		for _, cl := range fc.Clauses {
			if cl.Kind == "cbassume" {
				t, _ := un.evalSpec(cl.E, csc)
				un.assume(run, t)
			}
		}
	}
	var r Val
	switch {
	case fv.fn != nil:
		r = un.callStatic(fr, run, fv.fn, fv.binds, cargs, cats, pos)
	default:
		handled := false
		// a function-typed parameter of the unit with a funcspec
		if fr.contract != nil {
			for pn, fsName := range fr.contract.Params {
				for _, p := range fr.fn.Params {
					if p.Name() == pn && fr.env[p].t == fv.t {
						if fs := un.specs.FuncSpecs[fsName]; fs != nil {
							r = un.applyContract(fr, run, fs, sigNames(cbSig, fs), cbSig, cargs, pn, pos)
							handled = true
						}
					}
				}
			}
		}
		if !handled {
			un.fullHavoc(run, "callback with unknown function value")
			r = un.havocResults(run, cbSig, "cb")
		}
	}
	if un.outside != "" {
		return
	}
	var rs []Val
	if cbSig.Results().Len() == 1 {
		rs = []Val{r}
	} else {
		rs = r.tuple
	}
	m := un.mergeStates([]*State{run, skip})
	st.guard, st.heap, st.base = m.guard, m.heap, m.base
	vars["cb_called"] = boolSV(called)
	for i := range rs {
		rt := cbSig.Results().At(i).Type()
		vars[fmt.Sprintf("cb_ret%d", i)] = SV{t: rs[i].t, typ: rt}
	}
}


// closureScope: the captured variables of a closure, by name, as they are in state st.
func (un *Unit) closureScope(fn *ssa.Function, binds []Val, st *State, fr *Frame) *Scope {
	sc := &Scope{un: un, vars: map[string]SV{}, cur: st, old: st, pkg: un.pkgOf(fn), fr: fr}
	for i, fv := range fn.FreeVars {
		if i >= len(binds) {
			break
		}
		v := binds[i]
		if pt, ok := fv.Type().(*types.Pointer); ok {
			if isStructType(pt.Elem()) {
				sc.vars[fv.Name()] = SV{t: v.t, typ: fv.Type()}
			} else {
				p := un.placeOf(st, v, pt.Elem())
				sc.vars[fv.Name()] = SV{t: un.loadPlace(st, p), typ: pt.Elem()}
			}
		}
	}
	return sc
}

// attrFacts: for a closure value ref, the definitions of its contract's abstract predicates.
func (un *Unit) attrFacts(ref string, fn *ssa.Function, binds []Val, st *State, fr *Frame) {
	fc := un.lookupFuncContract(fn)
	if fc == nil || len(fc.Attrs) == 0 {
		return
	}
	for _, at := range fc.Attrs {
		sf, ok := un.specs.SpecFns[at.Name]
		if !ok {
			un.outside = "attr " + at.Name + ": no spec fn of that name"
			return
		}
		sc := un.closureScope(fn, binds, st, fr)
		var bindsQ, args []string
		args = append(args, ref)
		for _, p := range at.Params {
			t, srt, err := sc.resolveType(p.Type)
			if err != nil {
				un.outside = "attr " + at.Name + ": " + err.Error()
				return
			}
			un.u.fresh++
			qn := fmt.Sprintf("qa_%s!%d", sanitize(p.Name), un.u.fresh)
			bindsQ = append(bindsQ, "("+qn+" "+srt+")")
			sc.vars[p.Name] = SV{t: qn, typ: t, sort: srt}
			args = append(args, qn)
		}
		body, _ := un.evalSpec(at.E, sc)
		// declare the spec fn symbol (first parameter is the function value)
		var as []string
		for _, p := range sf.Params {
			_, ps, _ := sc.resolveType(p.Type)
			as = append(as, ps)
		}
		_, rs, _ := sc.resolveType(sf.Sort)
		un.u.declareFun("sf_"+sf.Name, as, rs)
		app := "(sf_" + sf.Name + " " + strings.Join(args, " ") + ")"
		un.u.usesQuant = true
		if len(bindsQ) == 0 {
			un.addFact(eq(app, body))
		} else {
			un.addFact("(forall (" + strings.Join(bindsQ, " ") + ") " + eq(app, body) + ")")
		}
	}
}


func mentionsResult(t string) bool {
	for _, w := range []string{"result", "ret0", "ret1", "new("} {
		if strings.Contains(t, w) {
			return true
		}
	}
	return false
}

// ghostDefFor: the definition of ghost field name for x's static type, if x is a pointer to a concrete type that has one.
func (un *Unit) ghostDefFor(name string, x SV) *GhostDef {
	d, _ := un.ghostDefFor2(name, x)
	return d
}

// ghostDefFor2 also resolves an interface value whose dynamic type is syntactically known, (mk_iface tag payload):
// the definition for that concrete type applies to the payload.
func (un *Unit) ghostDefFor2(name string, x SV) (*GhostDef, SV) {
	ds := un.specs.GhostDefs[name]
	if len(ds) == 0 || x.typ == nil {
		return nil, x
	}
	if _, isIface := x.typ.Underlying().(*types.Interface); isIface && strings.HasPrefix(x.t, "(mk_iface ") {
		rest := strings.TrimSuffix(strings.TrimPrefix(x.t, "(mk_iface "), ")")
		if sp := strings.Index(rest, " "); sp > 0 {
			var tag int
			if _, err := fmt.Sscanf(rest[:sp], "%d", &tag); err == nil && tag != 0 {
				if ct, ok := typeTagTypes[tag]; ok {
					if _, isPtr := ct.Underlying().(*types.Pointer); isPtr {
						y := SV{t: rest[sp+1:], typ: ct}
						if d := un.ghostDefPtr(ds, y); d != nil {
							return d, y
						}
					}
				}
			}
		}
		return nil, x
	}
	return un.ghostDefPtr(ds, x), x
}

func (un *Unit) ghostDefPtr(ds []*GhostDef, x SV) *GhostDef {
	pt, ok := x.typ.Underlying().(*types.Pointer)
	if !ok {
		return nil
	}
	n := namedOf(pt.Elem())
	if n == nil || n.Obj().Pkg() == nil {
		return nil
	}
	for _, d := range ds {
		if d.Type == n.Obj().Name() && d.Pkg == pkgKey(n.Obj().Pkg()) {
			return d
		}
	}
	return nil
}
