package main

import (
	"reflect"
	"fmt"
	"go/types"
	"regexp"
	"strings"

	"golang.org/x/tools/go/ssa"
)

type UnitOpts struct {
	Safety   bool
	MaxDepth int
}

func newUnit(prog *Prog, specs *Specs, fn *ssa.Function, fc *FuncContract, opts UnitOpts) *Unit {
	u := newUniverse(prog)
	if fc != nil && fc.Arith == "bv" {
		u.bv = true
	}
	un := &Unit{u: u, prog: prog, specs: specs, fn: fn, contract: fc, compSort: map[string]string{}, compKind: map[string]string{},
		layers: map[string][]string{}, notes: map[string]bool{}, assumed: map[string]bool{}, safetyN: map[string]int{},
		fnVals: map[string]*ssa.Function{}, closures: map[string]Val{}, compVolatileType: map[string]bool{}, verBound: map[string]string{}, wantSafety: opts.Safety, oblNames: map[string]int{}}
	un.maxDepth = opts.MaxDepth
	if un.maxDepth == 0 {
		un.maxDepth = 12
	}
	return un
}

// verifyFunc generates the obligations of one function against its contract.
func verifyFunc(prog *Prog, specs *Specs, fn *ssa.Function, fc *FuncContract, opts UnitOpts) *Unit {
	un := newUnit(prog, specs, fn, fc, opts)
	defer func() {
		if r := recover(); r != nil {
			un.outside = fmt.Sprintf("generator panic: %v", r)
		}
	}()
	st := &State{guard: "true", heap: map[string]string{}, base: "0"}
	un.entry = st.clone()
	fr := un.newFrame(fn, nil)
	fr.contract = fc
	un.curFrame = fr
	un.addAxioms(fr)
	un.addFact("(>= " + un.get(st, un.comp("G_heldlocks", "Int", "ghost")) + " 0)")
	// parameters and free variables are symbolic
	for _, p := range fn.Params {
		c := un.u.freshConst(fn.Name()+"."+p.Name(), un.u.sortOf(p.Type()))
		un.addFact(un.typeFacts(st, c, p.Type()))
		fr.env[p] = Val{t: c, typ: p.Type()}
	}
	for _, fv := range fn.FreeVars {
		c := un.u.freshConst(fn.Name()+".fv."+fv.Name(), un.u.sortOf(fv.Type()))
		un.addFact(un.typeFacts(st, c, fv.Type()))
		un.addFact("(> " + c + " 0)") // a captured variable's cell always exists
		fr.env[fv] = Val{t: c, typ: fv.Type()}
	}
	un.ghostDefaults(fr, st)
	if fn.Parent() != nil || (fc != nil && fc.Impl != "") {
		un.selfRef = un.u.freshConst(fn.Name()+".self", "Int")
		var binds []Val
		for _, fv := range fn.FreeVars {
			binds = append(binds, fr.env[fv])
		}
		un.attrFacts(un.selfRef, fn, binds, st, fr)
	}
	if fc != nil {
		sc := un.scopeFor(fr, st, un.entry, nil)
		for _, cl := range fc.Clauses {
			if cl.Kind == "requires" {
				t, _ := un.evalSpec(cl.E, sc)
				un.addFact(t)
			}
		}
	}
	if un.outside != "" {
		return un
	}
	rets, out := un.execFunc(fr, st)
	if un.outside != "" {
		return un
	}
	un.exitState, un.exitRets = out, rets
	coverFacts := len(un.facts)
	if fc != nil {
		oldSt := un.entry
		if un.acquireSnap != nil {
			oldSt = un.acquireSnap
		}
		sc := un.scopeFor(fr, out, oldSt, rets)
		n := 0
		for _, cl := range fc.Clauses {
			if cl.Kind != "ensures" {
				continue
			}
			if cl.Ghost {
				un.assumed["ghost ensures of "+funcKey(fn)+" (assumed by callers, not checked against the body): "+cl.Text] = true
				continue
			}
			n++
			var t string
			var curParts []string
			if len(un.topRets) >= 2 && len(un.topRets) <= 12 {
				// one conjunct per return site, each over that site's own (unmerged) state: keeps the terms small
				var parts []string
				for _, r := range un.topRets {
					rs := un.scopeFor(fr, r.st, oldSt, r.vals)
					rs.retGuards = map[string]bool{}
					pt, _ := un.evalSpec(cl.E, rs)
					for g := range rs.retGuards {
						pt = implies(g, pt)
					}
					parts = append(parts, implies(r.st.guard, pt))
				}
				t = and(parts...)
				curParts = parts
			} else {
				sc.retGuards = map[string]bool{}
				t, _ = un.evalSpec(cl.E, sc)
				// a clause about ret(callee, k, i) speaks only about executions in which that call happened
				for g := range sc.retGuards {
					t = implies(g, t)
				}
				sc.retGuards = nil
			}
			label := cl.Label
			if label == "" {
				// unlabelled clauses are named by their text so that inserting a clause does not rename the others
				label = fmt.Sprintf("ensures~%06x", hashStr(cl.Text)&0xffffff)
			}
			po := un.oblige(out, "post", fmt.Sprintf("%s/post:%s", funcKey(fn), label), cl.Props, t, fn.Pos(), cl.Text)
			if len(curParts) > 1 {
				po.Parts = curParts
			}
		}
	}
	// every return site must be reachable under the requires and the assumed contracts (vacuity guard per path)
	if len(un.topRets) >= 2 {
		for i, r := range un.topRets {
			un.obls = append(un.obls, &Obl{Name: fmt.Sprintf("%s/cover:return%d-reachable", funcKey(fn), i+1), Kind: "cover", Guard: "true", Goal: r.st.guard,
				NFacts: coverFacts, Fn: funcKey(fn), Cover: true, Text: "return site reachable: the contracts assumed along this path are consistent"})
		}
	}
	un.frameObligations(fr, out)
	// reachability of the normal exit (vacuity guard): must be SAT
	un.obls = append(un.obls, &Obl{Name: funcKey(fn) + "/cover:exit-reachable", Kind: "cover", Guard: "true", Goal: out.guard,
		NFacts: coverFacts, Fn: funcKey(fn), Cover: true, Text: "requires and assumed contracts are consistent and the exit is reachable"})
	return un
}

func (un *Unit) addAxioms(fr *Frame) {
	for _, l := range un.specs.Lemmas {
		if !l.Axiom {
			continue
		}
		sc := &Scope{un: un, vars: map[string]SV{}, cur: un.entry, old: un.entry, pkg: un.pkgByName(l.Pkg), fr: fr}
		t, _ := un.evalSpec(l.E, sc)
		un.addFact(t)
		un.assumed["axiom "+l.Name+": "+l.Text] = true
	}
}

// verifyLemma generates the single obligation of a lemma over spec functions.
func verifyLemma(prog *Prog, specs *Specs, l *Lemma) *Unit {
	un := newUnit(prog, specs, nil, nil, UnitOpts{})
	st := &State{guard: "true", heap: map[string]string{}, base: "0"}
	un.entry = st.clone()
	// axioms other than this one
	for _, a := range specs.Lemmas {
		if a.Axiom {
			sc := &Scope{un: un, vars: map[string]SV{}, cur: st, old: st, pkg: un.pkgByName(a.Pkg)}
			t, _ := un.evalSpec(a.E, sc)
			un.addFact(t)
			un.assumed["axiom "+a.Name+": "+a.Text] = true
		}
	}
	sc := &Scope{un: un, vars: map[string]SV{}, cur: st, old: st, pkg: un.pkgByName(l.Pkg)}
	t, _ := un.evalSpec(l.E, sc)
	o := &Obl{Name: "lemma/" + l.Name, Kind: "lemma", Props: l.Props, Guard: "true", Goal: t, NFacts: len(un.facts), Fn: "lemma " + l.Name, Text: l.Text}
	un.obls = append(un.obls, o)
	return un
}

// smtFor renders the query for one obligation.
func (un *Unit) smtFor(o *Obl, produceModels bool) string { return un.smtForOpt(o, produceModels, false) }

// smtForOpt with dropQuant omits quantified hypotheses: the query becomes (nearly) quantifier-free, so a false goal
// yields a model instead of `unknown`. Dropping hypotheses only weakens them: `unsat` is still a proof, `sat` only a candidate.
var famRe = regexp.MustCompile(`\|([^|@]+)@[^|]*\|`)

var fnRe = regexp.MustCompile(`\((sf_[A-Za-z0-9_]+|g_at_[A-Za-z0-9_.]+|g_perm![0-9]+|g_pinv![0-9]+)[ )]`)

// families: the heap components (by name, ignoring versions) and the spec / model function symbols a term mentions.
func families(t string) map[string]bool {
	out := map[string]bool{}
	for _, m := range famRe.FindAllStringSubmatch(t, -1) {
		out[m[1]] = true
	}
	for _, m := range fnRe.FindAllStringSubmatch(t, -1) {
		out[m[1]] = true
	}
	return out
}

// smtPruned: quantified hypotheses that speak only about heap components the goal never mentions are left out
// (sound: fewer hypotheses); unrelated quantified facts over nested arrays otherwise derail the solvers' instantiation.
func (un *Unit) smtPruned(o *Obl) (string, bool) {
	goalFam := families(o.Goal + " " + o.Guard)
	var sb strings.Builder
	sb.WriteString("(set-logic ALL)\n")
	sb.WriteString(un.u.prelude())
	for _, d := range un.u.decls {
		sb.WriteString(d + "\n")
	}
	dropped := false
	for _, f := range un.facts {
		if f.At >= o.NFacts {
			continue
		}
		if strings.Contains(f.T, "(forall ") || strings.Contains(f.T, "(exists ") {
			fam := families(f.T)
			keep := false
			for k := range fam {
				if goalFam[k] {
					keep = true
				}
			}
			if !keep {
				dropped = true
				continue
			}
		}
		sb.WriteString("(assert " + f.T + ")\n")
	}
	sb.WriteString("(assert (not " + implies(o.Guard, o.Goal) + "))\n(check-sat)\n")
	return sb.String(), dropped
}

func (un *Unit) smtForOpt(o *Obl, produceModels bool, dropQuant bool) string {
	var sb strings.Builder
	if produceModels {
		sb.WriteString("(set-option :produce-models true)\n")
	}
	sb.WriteString("(set-logic ALL)\n")
	sb.WriteString(un.u.prelude())
	for _, d := range un.u.decls {
		sb.WriteString(d + "\n")
	}
	for _, f := range un.facts {
		if f.At < o.NFacts {
			if dropQuant && (strings.Contains(f.T, "(forall ") || strings.Contains(f.T, "(exists ")) {
				continue
			}
			if o.Cover && f.FromObl {
				continue // reachability is judged under the genuine assumptions only, not under checked assertions
			}
			if f.At == -1 && strings.Contains(f.T, "(g_at_") {
				// definitional axiom of an accessor that the rest of the query never mentions: leaving it out is
				// conservative (the function can always be interpreted accordingly) and keeps the query quantifier-free
				name := f.T[strings.Index(f.T, "(g_at_")+1:]
				name = name[:strings.IndexAny(name, " )")]
				if !gatUsed(un, o, name) {
					continue
				}
			}
			sb.WriteString("(assert " + f.T + ")\n")
		}
	}
	if o.Cover {
		sb.WriteString("(assert " + and(o.Guard, o.Goal) + ")\n")
	} else {
		sb.WriteString("(assert (not " + implies(o.Guard, o.Goal) + "))\n")
	}
	sb.WriteString("(check-sat)\n")
	if produceModels {
		sb.WriteString("(get-model)\n")
	}
	return sb.String()
}

func (un *Unit) usesStrings() bool { return un.u.usesStr }

var _ = types.Typ


// modEntry is one location set named by a modifies clause, resolved against the entry state.
type modEntry struct {
	comp   string
	key    string // object / array / map ref; "" = whole component
	window [2]string
	hasWin bool
}

func (un *Unit) resolveModifies(fr *Frame) []modEntry {
	var out []modEntry
	if fr.contract == nil {
		return nil
	}
	sc := un.scopeFor(fr, un.entry, un.entry, nil)
	for _, cl := range fr.contract.Clauses {
		if cl.Kind != "modifies" {
			continue
		}
		text := strings.TrimSpace(cl.Text)
		if text == "clock" || mentionsResult(text) {
			continue
		}
		if g, ok := un.specs.Ghosts[text]; ok {
			_ = g
			out = append(out, modEntry{comp: "G_" + text})
			continue
		}
		if strings.HasPrefix(text, "all ") {
			cs, err := un.allComps(strings.TrimSpace(text[4:]), sc)
			if err != nil {
				un.outside = "contract error: " + err.Error()
				return nil
			}
			for _, c := range cs {
				out = append(out, modEntry{comp: c})
			}
			continue
		}
		if strings.HasSuffix(text, "[*]") {
			e, err := parseExpr(strings.TrimSuffix(text, "[*]"))
			if err != nil {
				un.outside = "contract error: " + err.Error()
				return nil
			}
			x := un.ev(e, sc)
			if x.typ != nil {
				switch xt := x.typ.Underlying().(type) {
				case *types.Slice:
					off := "(s_off " + x.t + ")"
					out = append(out, modEntry{comp: un.elemComp(xt.Elem()), key: "(s_arr " + x.t + ")", window: [2]string{off, "(+ " + off + " (s_len " + x.t + "))"}, hasWin: true})
					continue
				case *types.Map:
					d, vv, l := un.mapComps(xt)
					for _, c := range []string{d, vv, l} {
						out = append(out, modEntry{comp: c, key: x.t})
					}
					continue
				}
			}
			un.outside = "modifies " + text + ": not a slice or map"
			return nil
		}
		e, err := parseExpr(text)
		if err != nil {
			un.outside = "contract error: " + err.Error()
			return nil
		}
		if c, ok := e.(*ECall); ok {
			if g, ok := un.specs.Ghosts[c.Fun]; ok && g.Field && len(c.Args) == 1 {
				x := un.ev(c.Args[0], sc)
				out = append(out, modEntry{comp: "G_" + c.Fun, key: x.t})
				continue
			}
		}
		x := un.ev(e, sc)
		if sc.failed != nil {
			un.outside = "contract error in modifies: " + sc.failed.Error()
			return nil
		}
		if x.place != nil && len(x.place.keys) >= 1 {
			out = append(out, modEntry{comp: x.place.comp, key: x.place.keys[0]})
			continue
		}
		if x.typ != nil {
			if pt, ok := x.typ.Underlying().(*types.Pointer); ok && isStructType(pt.Elem()) {
				un.modObject(&out, x.t, pt.Elem())
				continue
			}
		}
		un.outside = "modifies " + text + ": not a location"
		return nil
	}
	return out
}

func (un *Unit) modObject(out *[]modEntry, ref string, t types.Type) {
	stt := t.Underlying().(*types.Struct)
	for i := 0; i < stt.NumFields(); i++ {
		ft := stt.Field(i).Type()
		if isStructType(ft) {
			un.modObject(out, un.subRef(ref, t, i), ft)
			continue
		}
		c, _ := un.fieldComp(t, i)
		*out = append(*out, modEntry{comp: c, key: ref})
	}
}

// frameFormula: "every location of comp that existed at entry and is not named by a modifies clause has its entry value in cur".
// Returns "" when the component is exempt or wholly modifiable.
func (un *Unit) frameFormula(c, cur string) string {
	if !un.modsDone {
		un.modsDone = true
		top := un.curFrame
		un.mods = un.resolveModifies(top)
	}
	kind := un.compKind[c]
	if kind == "local" || kind == "next" || kind == "iter" || kind == "box" || c == "G_clock" || c == "G_heldlocks" || un.isVolatile(c) {
		return ""
	}
	old := un.get(un.entry, c)
	if cur == old {
		return ""
	}
	next0 := un.next(un.entry)
	un.u.declareFun("g_sub_base", []string{"Int"}, "Int")
	un.u.declareFun("g_elem_arr", []string{"Int"}, "Int")
	un.u.declareFun("g_kind", []string{"Int"}, "Int")
	existed := func(r string) string {
		return or(and("(> "+r+" 0)", "(< "+r+" "+next0+")"),
			and("(< "+r+" 0)", eq("(g_kind "+r+")", "1"), "(> (g_sub_base "+r+") 0)", "(< (g_sub_base "+r+") "+next0+")"),
			and("(< "+r+" 0)", eq("(g_kind "+r+")", "2"), "(> (g_elem_arr "+r+") 0)", "(< (g_elem_arr "+r+") "+next0+")"))
	}
	var listed []modEntry
	for _, m := range un.mods {
		if m.comp == c {
			if m.key == "" {
				return ""
			}
			listed = append(listed, m)
		}
	}
	un.u.usesQuant = true
	sort := un.compSort[c]
	ks, _ := splitArraySort(sort)
	switch {
	case kind == "ghost":
		if !strings.HasPrefix(sort, "(Array ") {
			return eq(cur, old)
		}
		q := "fr_k"
		var ex []string
		for _, m := range listed {
			ex = append(ex, eq(q, m.key))
		}
		if ks == "Int" {
			// ghost state of objects that did not exist at entry is not part of the caller's frame
			ex = append(ex, "(>= "+q+" "+next0+")")
		}
		return fmt.Sprintf("(forall ((%s %s)) %s)", q, ks, or(or(ex...), eq(sel(cur, q), sel(old, q))))
	case kind == "elem":
		q, qi := "fr_a", "fr_i"
		var ex []string
		for _, m := range listed {
			if m.hasWin {
				ex = append(ex, and(eq(q, m.key), "(<= "+m.window[0]+" "+qi+")", "(< "+qi+" "+m.window[1]+")"))
			} else {
				ex = append(ex, eq(q, m.key))
			}
		}
		return fmt.Sprintf("(forall ((%s Int) (%s Int)) (=> %s %s))", q, qi, existed(q), or(or(ex...), eq(sel(cur, q, qi), sel(old, q, qi))))
	}
	q := "fr_r"
	var ex []string
	for _, m := range listed {
		ex = append(ex, eq(q, m.key))
	}
	// guarded fields of a monitor whose lock was free at entry may change (other threads could change them anyway)
	if strings.HasPrefix(kind, "field:") {
		if lockSel := un.guardLockAtEntry(kind, q); lockSel != "" {
			ex = append(ex, eq(lockSel, "0"))
		}
	}
	return fmt.Sprintf("(forall ((%s Int)) (=> %s %s))", q, existed(q), or(or(ex...), eq(sel(cur, q), sel(old, q))))
}

// frameObligations: every heap location that existed at entry and is not named by a modifies clause is unchanged at exit.
func (un *Unit) frameObligations(fr *Frame, out *State) {
	if un.contract == nil {
		return
	}
	if _, noFrame := un.contract.Opts["no-frame"]; noFrame {
		return
	}
	for _, c := range sortedKeys(out.heap) {
		goal := un.frameFormula(c, out.heap[c])
		if un.outside != "" {
			return
		}
		if goal == "" {
			continue
		}
		un.oblige(out, "frame", fmt.Sprintf("%s/frame:%s", funcKey(un.fn), c), nil, goal, un.fn.Pos(), "only locations named by modifies change: "+c)
	}
}

// guardLockAtEntry: if kind names a monitor-guarded field pkg.T.f, return the entry-state lock value of object q.
func (un *Unit) guardLockAtEntry(kind, q string) string {
	tf := strings.TrimPrefix(kind, "field:")
	for _, m := range un.specs.Monitors {
		for _, g := range m.Guards {
			if tf == m.Pkg+"."+m.Type+"."+g {
				pkg := un.pkgByName(m.Pkg)
				if pkg == nil {
					return ""
				}
				obj := pkg.Scope().Lookup(m.Type)
				if obj == nil {
					return ""
				}
				stt, ok := obj.Type().Underlying().(*types.Struct)
				if !ok {
					return ""
				}
				mi := fieldIndex(stt, m.Mu)
				if mi < 0 {
					return ""
				}
				if _, isPtr := stt.Field(mi).Type().Underlying().(*types.Pointer); isPtr {
					return ""
				}
				c, _ := un.fieldComp(obj.Type(), mi)
				return sel(un.get(un.entry, c), q)
			}
		}
	}
	return ""
}


// ghostDefaults: a ghost field with a declared default has that value at every key denoting an object that does not exist yet.
func (un *Unit) ghostDefaults(fr *Frame, st *State) {
	sc := &Scope{un: un, vars: map[string]SV{}, cur: st, old: st, pkg: un.pkgOf(fr.fn), fr: fr}
	for _, name := range sortedKeys(un.specs.Ghosts) {
		g := un.specs.Ghosts[name]
		if !g.Field || g.Default == "" {
			continue
		}
		_, vs, err := sc.resolveType(g.Sort)
		if err != nil {
			continue
		}
		ks := "Int"
		if g.Type != "" {
			if _, k2, err := sc.resolveType(g.Type); err == nil && k2 != "" {
				ks = k2
			}
		}
		comp := un.comp("G_"+name, arraySort(ks, vs), "ghost")
		ref := "gd_k"
		switch ks {
		case "g_Iface":
			ref = "(i_val gd_k)"
		case "g_Slice":
			ref = "(s_arr gd_k)"
		case "Int":
		default:
			continue
		}
		def := g.Default
		un.u.usesQuant = true
		un.addFact(fmt.Sprintf("(forall ((gd_k %s)) (=> (>= %s %s) (= (select %s gd_k) %s)))", ks, ref, un.next(st), un.get(st, comp), def))
	}
}


// gatUsed: does any hypothesis visible to o (other than the accessor's own axiom) or its goal mention the accessor?
func gatUsed(un *Unit, o *Obl, name string) bool {
	needle := "(" + name + " "
	if strings.Contains(o.Goal, needle) || strings.Contains(o.Guard, needle) {
		return true
	}
	for _, f := range un.facts {
		if f.At < o.NFacts && f.At != -1 && strings.Contains(f.T, needle) {
			return true
		}
	}
	return false
}

// allComps resolves `all T` / `all T.f`: the heap components holding every field (or field f) of every object of struct type T.
func (un *Unit) allComps(text string, sc *Scope) ([]string, error) {
	tname, fname := text, ""
	t, _, err := sc.resolveType(tname)
	if err != nil || t == nil {
		if i := strings.LastIndex(text, "."); i >= 0 {
			tname, fname = text[:i], text[i+1:]
			t, _, err = sc.resolveType(tname)
		}
	}
	if err != nil {
		return nil, err
	}
	if t == nil {
		return nil, fmt.Errorf("all %s: unknown type", text)
	}
	if mt, ok := t.Underlying().(*types.Map); ok {
		d, vv, l := un.mapComps(mt)
		return []string{d, vv, l}, nil
	}
	stt, ok := t.Underlying().(*types.Struct)
	if !ok {
		return nil, fmt.Errorf("all %s: not a struct or map type", text)
	}
	var out []string
	var walk func(t types.Type, stt *types.Struct)
	walk = func(t types.Type, stt *types.Struct) {
		for i := 0; i < stt.NumFields(); i++ {
			if fname != "" && stt.Field(i).Name() != fname {
				continue
			}
			ft := stt.Field(i).Type()
			if isStructType(ft) {
				walk(ft, ft.Underlying().(*types.Struct))
				continue
			}
			c, _ := un.fieldComp(t, i)
			out = append(out, c)
		}
	}
	walk(t, stt)
	if len(out) == 0 {
		return nil, fmt.Errorf("all %s: no such field", text)
	}
	return out, nil
}

// verifyWire checks a wire declaration against the struct type in the tree: same fields in the same order, same Go
// types, same json tags. One obligation per declaration, decided by the generator.
func verifyWire(prog *Prog, specs *Specs, w *WireDecl) *Unit {
	un := newUnit(prog, specs, nil, nil, UnitOpts{})
	un.entry = &State{guard: "true", heap: map[string]string{}, base: "0"}
	name := fmt.Sprintf("wire/%s.%s:%s", w.Pkg, w.Type, labelOr(w.Label, "shape"))
	o := &Obl{Name: name, Kind: "wire", Props: w.Props, Guard: "true", Goal: "true", Fn: "wire " + w.Pkg + "." + w.Type, Text: w.Text, noSplit: true}
	un.obls = append(un.obls, o)
	fail := func(format string, a ...any) *Unit {
		o.Status, o.Output, o.Solver = "failed", fmt.Sprintf(format, a...), "generator"
		o.Decided = true
		return un
	}
	// several packages of one module may share a short name: take the one that declares the type
	var obj types.Object
	for _, sp := range prog.ssaPkgs {
		if sp != nil && pkgKey(sp.Pkg) == w.Pkg {
			if o2 := sp.Pkg.Scope().Lookup(w.Type); o2 != nil {
				obj = o2
			}
		}
	}
	if obj == nil {
		return fail("type %s.%s not found", w.Pkg, w.Type)
	}
	st, ok := obj.Type().Underlying().(*types.Struct)
	if !ok {
		return fail("%s.%s is not a struct", w.Pkg, w.Type)
	}
	var have []string
	for i := 0; i < st.NumFields(); i++ {
		f := st.Field(i)
		if !f.Exported() {
			continue // encoding/json and the protobuf / database mappers only see exported fields
		}
		tag := reflect.StructTag(st.Tag(i)).Get(w.TagKey)
		have = append(have, fmt.Sprintf("%s:%s:%q", f.Name(), types.TypeString(f.Type(), func(p *types.Package) string { return "" }), tag))
	}
	var want []string
	for _, f := range w.Fields {
		want = append(want, fmt.Sprintf("%s:%s:%q", f.Name, f.Type, f.Tag))
	}
	if strings.Join(have, " ") != strings.Join(want, " ") {
		return fail("declared shape differs: tree has [%s], contract says [%s]", strings.Join(have, " "), strings.Join(want, " "))
	}
	o.Status, o.Output, o.Solver = "discharged", "field names, types and "+w.TagKey+" tags match the declaration", "generator"
	o.Decided = true
	return un
}
