#!/bin/sh
# builds gocv from /verif/gocv, offline
set -e
cd "$(dirname "$0")/gocv"
export GOFLAGS=-mod=mod GOPROXY=off GOSUMDB=off GOTOOLCHAIN=local
go build -o ../bin/gocv .
