#!/usr/bin/env python3
"""Must-fail corpus: applies each deliberate property-breaking change (selftest/mutants/*.json + seeded/*/patch.diff)
to a scratch copy of /repo and expects the property's quick check to fail on the named obligation.
Usage: selftest/run.py [name-substring]"""
import json, os, subprocess, sys, shutil, glob, tempfile, functools
print = functools.partial(print, flush=True)
root = os.path.dirname(os.path.dirname(os.path.abspath(__file__)))
flts = sys.argv[1:]
cases = []
for f in sorted(glob.glob(os.path.join(root, 'selftest', 'mutants', '*.json')) + glob.glob(os.path.join(root, 'selftest', 'harmless', '*.json'))):
    m = json.load(open(f)); m['name'] = os.path.basename(f)[:-5]; cases.append(m)
for d in sorted(glob.glob(os.path.join(root, 'seeded', '*'))):
    mf = os.path.join(d, 'meta.json')
    if os.path.exists(mf):
        meta = json.load(open(mf))
        exp = [x.split(': ', 1)[1].split(' ')[0] for x in meta.get('detected_by', []) if ': ' in x]
        cases.append({'name': 'seed-' + meta['id'], 'property': meta['property'], 'patch_file': os.path.join(d, 'patch.diff'), 'expect': exp, 'known_miss': meta.get('missed')})
# one snapshot of /repo for the whole run: /repo may be edited while the corpus runs
base = tempfile.mkdtemp(prefix='gocv-selftest-base-', dir='/var/tmp')
subprocess.run(['rsync', '-a', '--exclude', '.git', '/repo/', base + '/'], check=True)
ok = bad = 0
for c in cases:
    if flts and not any(f in c['name'] for f in flts):
        continue
    scratch = tempfile.mkdtemp(prefix='gocv-selftest-', dir='/var/tmp')
    try:
        subprocess.run(['rsync', '-a', base + '/', scratch + '/'], check=True)
        if 'patch_file' in c:
            r = subprocess.run(['patch', '-p1', '-s', '-i', c['patch_file']], cwd=scratch, capture_output=True, text=True)
            if r.returncode != 0:
                print(f"BROKEN {c['name']}: patch does not apply: {r.stdout}{r.stderr}"); bad += 1; continue
        else:
            p = os.path.join(scratch, c['file']); s = open(p).read()
            edits = c.get('edits') or [{'old': c['old'], 'new': c['new']}]
            missing = [e['old'][:40] for e in edits if e['old'] not in s]
            if missing:
                print(f"BROKEN {c['name']}: text to replace not found in {c['file']}: {missing}"); bad += 1; continue
            for e in edits:
                s = s.replace(e['old'], e['new'], 1)
            open(p, 'w').write(s)
        env = dict(os.environ, GOCV_REPO=scratch)
        env['GOCV_EVIDENCE_DIR'] = os.path.join(root, '.work', 'evidence-selftest')
        r = subprocess.run([os.path.join(root, 'check'), c['property'], 'quick'], cwd=root, env=env, capture_output=True, text=True)
        failed = [l.split()[1] for l in r.stdout.splitlines() if l.startswith('FAILED ')]
        if c.get('expect_pass'):
            # a harmless edit (behaviour-preserving refactoring): the check must stay quiet
            if r.returncode == 0 and 'VIOLATION' not in r.stdout:
                ok += 1; print(f"quiet   {c['name']} [{c['property']}]")
            else:
                bad += 1; print(f"FALSE-ALARM {c['name']} [{c['property']}] rc={r.returncode} failed={failed[:4]}\n   " + '\n   '.join(r.stdout.splitlines()[-3:]))
            continue
        hit = r.returncode == 1 and 'VIOLATION' in r.stdout and (not c.get('expect') or any(any(e in f for f in failed) for e in c['expect']))
        if c.get('known_miss') and not hit:
            print(f"known-miss {c['name']} [{c['property']}]: {c['known_miss'][:120]}"); continue
        if hit:
            ok += 1; print(f"caught  {c['name']} [{c['property']}] -> {', '.join(failed)[:200]}")
        else:
            bad += 1; print(f"MISSED  {c['name']} [{c['property']}] rc={r.returncode} failed={failed[:5]}\n   " + '\n   '.join(r.stdout.splitlines()[-4:]))
    finally:
        shutil.rmtree(scratch, ignore_errors=True)
shutil.rmtree(base, ignore_errors=True)
print(f"selftest: {ok} caught, {bad} missed/broken", flush=True)
sys.exit(1 if bad else 0)
