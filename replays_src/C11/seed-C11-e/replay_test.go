// +build !windows

// PLACE THIS FILE AT: go/securememory/protectedmemory/secret_finalizer_reader_test.go
//
// RUN WITH (from the repository root):
//
//	export GOPROXY=off GOSUMDB=off GOTOOLCHAIN=local GOFLAGS=-mod=mod
//	(cd go/securememory && go test -vet=off -count=1 -run 'TestSeedC11e' -v ./protectedmemory/)
//
// Do not add -race or -gcflags='-N -l': both keep dead variables alive longer than the
// optimised build does, which hides the scenario (it never changes the outcome on a correct tree).
//
// What it demonstrates (property C11): a reader callback must see the original bytes for its whole
// duration, and the pages may only be wiped/unmapped once no reader is in flight. The scenario is a
// caller that hands out the LAST reference to a secret in the very call that reads it (for example
// `return key.WithBytesFunc(...)` on a key that was just dropped from a cache), followed by a garbage
// collection while the callback is still running.
package protectedmemory

import (
	"bytes"
	"runtime"
	"runtime/debug"
	"sync/atomic"
	"testing"
	"time"

	"github.com/godaddy/asherah/go/securememory"
	"github.com/godaddy/asherah/go/securememory/internal/memcall"
)

// seedC11eHeapMemcall is a memcall implementation on ordinary heap memory that records what was asked of it.
// Because the memory stays mapped, a premature wipe shows up as changed bytes instead of as a SIGSEGV.
type seedC11eHeapMemcall struct {
	freed    int32
	unlocked int32
	// keeps the struct out of the runtime's tiny-object allocator, see seedC11eTinyPad
	_ [4]uint64
}

func (m *seedC11eHeapMemcall) Alloc(size int) ([]byte, error) { return make([]byte, size), nil }
func (m *seedC11eHeapMemcall) Lock([]byte) error              { return nil }
func (m *seedC11eHeapMemcall) Protect([]byte, memcall.MemoryProtectionFlag) error {
	return nil
}
func (m *seedC11eHeapMemcall) Unlock([]byte) error { atomic.AddInt32(&m.unlocked, 1); return nil }
func (m *seedC11eHeapMemcall) Free([]byte) error   { atomic.AddInt32(&m.freed, 1); return nil }

// seedC11eCollect forces garbage collections and gives finalizer goroutines time to run, until stop() says so
// or roughly two seconds have passed.
func seedC11eCollect(stop func() bool) {
	for i := 0; i < 100; i++ {
		runtime.GC()
		time.Sleep(20 * time.Millisecond)

		if stop() {
			return
		}
	}
}

var seedC11eSink []*byte

// seedC11eTinyPad moves the runtime's tiny-object allocator on to a fresh 16-byte block. The finalizer of a secret
// hangs off a one-byte object (secret.dummy); the runtime packs such objects together with other pointer-free
// objects smaller than 16 bytes and only runs the finalizer once everything in the block is dead. Padding before and
// after the allocation of the secret makes sure that dummy does not share its block with a long-lived neighbour
// (which would merely delay the finalizer and make this demonstration depend on allocation luck).
//
//go:noinline
func seedC11eTinyPad() {
	seedC11eSink = make([]*byte, 0, 64)
	for i := 0; i < 64; i++ {
		seedC11eSink = append(seedC11eSink, new(byte))
	}

	seedC11eSink = nil
}

// seedC11eReadLastReference creates a secret and reads it through the only reference that exists to it.
// Nothing refers to the secret after the WithBytes call has been dispatched.
//
//go:noinline
func seedC11eReadLastReference(f *SecretFactory, orig []byte, during func(in *secretInternal, b []byte) error) (*secretInternal, error) {
	data := append([]byte(nil), orig...)

	var sec securememory.Secret

	seedC11eTinyPad()

	sec, err := f.New(data)
	if err != nil {
		return nil, err
	}

	seedC11eTinyPad()

	in := sec.(*secret).secretInternal

	return in, sec.WithBytes(func(b []byte) error {
		return during(in, b)
	})
}

func TestSeedC11e_ReaderOnLastReference_HeapMemcall(t *testing.T) {
	orig := []byte("0123456789abcdef0123456789abcdef")
	mc := new(seedC11eHeapMemcall)
	f := &SecretFactory{mc: mc}

	var (
		sawClosed   bool
		sawFreed    bool
		seenAtEnd   []byte
		counterSeen int
	)

	in, err := seedC11eReadLastReference(f, orig, func(in *secretInternal, b []byte) error {
		// a long-running reader: collections happen while it is in flight
		seedC11eCollect(func() bool {
			return atomic.LoadInt32(&mc.freed) != 0
		})

		sawFreed = atomic.LoadInt32(&mc.freed) != 0
		sawClosed = in.isClosed()
		seenAtEnd = append([]byte(nil), b...)

		in.rw.RLock()
		counterSeen = in.accessCounter
		in.rw.RUnlock()

		return nil
	})
	if in == nil {
		t.Fatalf("unable to create the secret: %v", err)
	}

	if err != nil {
		t.Errorf("WithBytes returned an error: %v", err)
	}

	if counterSeen != 1 {
		t.Errorf("expected exactly one reader in flight inside the callback, saw %d", counterSeen)
	}

	if sawFreed {
		t.Errorf("pages were unlocked/freed while a reader callback was still running")
	}

	if sawClosed {
		t.Errorf("secret reported closed while a reader callback was still running")
	}

	if !bytes.Equal(orig, seenAtEnd) {
		t.Errorf("reader did not see the original bytes for its whole duration:\n want %q\n  got %q", orig, seenAtEnd)
	}

	// Once the reader is gone the finalizer is allowed (and expected) to clean up.
	seedC11eCollect(in.isClosed)

	if !in.isClosed() {
		t.Errorf("secret was never finalized after the reader finished")
	}

	if n := atomic.LoadInt32(&mc.freed); n != 1 {
		t.Errorf("expected exactly one Free, got %d", n)
	}
}

// The same scenario on real protected memory. With the pages unmapped under the reader, touching them faults;
// SetPanicOnFault turns that into a panic so that the test can report it instead of killing the test binary.
func TestSeedC11e_ReaderOnLastReference_RealMemory(t *testing.T) {
	orig := []byte("0123456789abcdef0123456789abcdef")
	f := new(SecretFactory)

	var (
		faulted   interface{}
		sawClosed bool
		seenAtEnd []byte
	)

	in, err := seedC11eReadLastReference(f, orig, func(in *secretInternal, b []byte) error {
		seedC11eCollect(in.isClosed)

		sawClosed = in.isClosed()

		func() {
			old := debug.SetPanicOnFault(true)
			defer debug.SetPanicOnFault(old)
			defer func() { faulted = recover() }()

			seenAtEnd = append([]byte(nil), b...)
		}()

		return nil
	})
	if in == nil {
		t.Fatalf("unable to create the secret: %v", err)
	}

	if err != nil {
		t.Errorf("WithBytes returned an error: %v", err)
	}

	if sawClosed {
		t.Errorf("secret reported closed while a reader callback was still running")
	}

	if faulted != nil {
		t.Errorf("reading the secret inside the reader callback faulted: %v", faulted)
	} else if !bytes.Equal(orig, seenAtEnd) {
		t.Errorf("reader did not see the original bytes for its whole duration:\n want %q\n  got %q", orig, seenAtEnd)
	}

	seedC11eCollect(in.isClosed)

	if !in.isClosed() {
		t.Errorf("secret was never finalized after the reader finished")
	}
}
