// Demonstration for seed C11-d.
//
// Placement: go/securememory/memguard/secret_c11_demo_test.go  (package memguard, in-package test)
//
// Run with:
//   cd go/securememory && GOPROXY=off GOSUMDB=off GOTOOLCHAIN=local GOFLAGS=-mod=mod \
//     go test -vet=off -count=1 -run 'TestC11Demo' -v ./memguard/
//
// Scenario (forced deterministically with channels and by polling the closing flag):
//   1. reader R1 enters WithBytes and parks inside its callback (access counter = 1, pages read-only)
//   2. Close is called on another goroutine; it marks the secret as closing and waits for R1
//   3. a second reader R2 calls WithBytes; it is (correctly) rejected with "secret has already been destroyed"
//   4. R1, still inside its callback, reads the secret again
//
// Expected (unchanged code): the rejected R2 has no effect. Close keeps waiting, the pages stay
// read-only, R1 sees the original bytes, and only once R1 leaves does Close destroy the buffer.
package memguard

import (
	"runtime/debug"
	"sync"
	"testing"
	"time"

	"github.com/godaddy/asherah/go/securememory/internal/memcall"
)

// recordingMemcall delegates to the real memcall and remembers the last protection applied.
type recordingMemcall struct {
	memcall.Interface

	mu   sync.Mutex
	last memcall.MemoryProtectionFlag
	n    int
}

func (r *recordingMemcall) Protect(b []byte, f memcall.MemoryProtectionFlag) error {
	r.mu.Lock()
	r.last = f
	r.n++
	r.mu.Unlock()

	return r.Interface.Protect(b, f)
}

func (r *recordingMemcall) lastFlag() memcall.MemoryProtectionFlag {
	r.mu.Lock()
	defer r.mu.Unlock()

	return r.last
}

// sameBytes compares in plain Go code so that a fault is reported as a recoverable panic.
func sameBytes(a, b []byte) bool {
	if len(a) != len(b) {
		return false
	}

	same := true

	for i := range a {
		if a[i] != b[i] {
			same = false
		}
	}

	return same
}

func TestC11Demo_RejectedReaderDuringCloseMustNotDisturbInFlightReader(t *testing.T) {
	for _, size := range []int{1, 32, 3*4096 + 17} {
		size := size

		orig := make([]byte, size)
		for i := range orig {
			orig[i] = byte(i%251) + 1
		}

		want := append([]byte(nil), orig...)

		rec := &recordingMemcall{Interface: memcall.Default}
		f := &SecretFactory{mc: rec}

		sec, err := f.New(orig)
		if err != nil {
			t.Fatalf("size %d: New: %v", size, err)
		}

		s := sec.(*secret)

		inCallback := make(chan struct{})
		proceed := make(chan struct{})
		r1Done := make(chan string, 1)

		// step 1: R1 parks inside its callback
		go func() {
			result := "ok"

			err := s.WithBytes(func(b []byte) (cbErr error) {
				// turn a fault on the secret's pages into a panic we can report instead of killing the test binary
				old := debug.SetPanicOnFault(true)
				defer debug.SetPanicOnFault(old)
				defer func() {
					if r := recover(); r != nil {
						result = "in-flight reader faulted while reading the secret"
					}
				}()

				if !sameBytes(b, want) {
					result = "first read: wrong bytes"
				}

				close(inCallback)
				<-proceed

				// step 4: read every byte again while still inside the callback
				if !sameBytes(b, want) {
					result = "second read: reader did not see the original bytes"
				}

				return nil
			})
			if err != nil && result == "ok" {
				result = "WithBytes returned error: " + err.Error()
			}

			r1Done <- result
		}()

		<-inCallback

		// step 2: Close on another goroutine; wait until it has marked the secret as closing
		closeDone := make(chan error, 1)

		go func() { closeDone <- s.Close() }()

		deadline := time.Now().Add(10 * time.Second)

		for {
			s.rw.RLock()
			closing := s.closing
			s.rw.RUnlock()

			if closing {
				break
			}

			if time.Now().After(deadline) {
				t.Fatalf("size %d: Close never started", size)
			}

			time.Sleep(time.Millisecond)
		}

		// step 3: R2 is rejected
		err = s.WithBytes(func([]byte) error {
			t.Errorf("size %d: late reader's callback must not run", size)
			return nil
		})
		if err == nil || err.Error() != string(secretClosedErr) {
			t.Errorf("size %d: late reader: want %q, got %v", size, secretClosedErr, err)
		}

		// Give a (wrongly) woken Close plenty of time to run.
		time.Sleep(300 * time.Millisecond)

		failed := false

		select {
		case <-closeDone:
			t.Errorf("size %d: Close returned while a reader was still inside its callback", size)

			failed = true
		default:
		}

		if s.IsClosed() {
			t.Errorf("size %d: secret reported closed while a reader was still inside its callback", size)

			failed = true
		}

		if got := rec.lastFlag(); got != memcall.ReadOnly() {
			t.Errorf("size %d: pages are not read-only while a reader is inside its callback (last Protect flag = %v)", size, got)

			failed = true
		}

		s.rw.RLock()
		counter := s.accessCounter
		s.rw.RUnlock()

		if counter != 1 {
			t.Errorf("size %d: access counter = %d with exactly one reader in flight", size, counter)

			failed = true
		}

		// step 4
		close(proceed)

		if res := <-r1Done; res != "ok" {
			t.Errorf("size %d: %s", size, res)

			failed = true
		}

		if !failed {
			select {
			case err := <-closeDone:
				if err != nil {
					t.Errorf("size %d: Close: %v", size, err)
				}
			case <-time.After(10 * time.Second):
				t.Fatalf("size %d: Close did not return after the reader left", size)
			}

			if !s.IsClosed() {
				t.Errorf("size %d: secret not closed after Close returned", size)
			}
		}
	}
}
