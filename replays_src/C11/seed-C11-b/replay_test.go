//go:build !windows
// +build !windows

// Demonstration for seeded change C11-b.
//
// Placement: go/securememory/protectedmemory/seed_c11b_demo_test.go
//            (package protectedmemory, module github.com/godaddy/asherah/go/securememory)
//
// Run with:
//   export GOPROXY=off GOSUMDB=off GOTOOLCHAIN=local GOFLAGS=-mod=mod
//   cd go/securememory && go test -vet=off -count=1 -run 'TestSeedC11b' -v ./protectedmemory/
//
// Expected: PASS on the unchanged tree, FAIL with the seeded change applied.
//
// Scenario (forced deterministically with channels, no reliance on scheduling luck):
//   1. two readers A and B are inside their WithBytes callbacks at the same time (accessCounter == 2);
//   2. a third goroutine calls Close, which must block until BOTH readers have left;
//   3. reader A leaves its callback (accessCounter == 1) while B is still inside;
//   4. Close must still be blocked, the pages must still be mapped read-only, and B must still
//      see the original bytes;
//   5. B leaves, and only now Close may wipe, unlock and unmap the pages.

package protectedmemory

import (
	"bytes"
	"fmt"
	"runtime/debug"
	"sync"
	"testing"
	"time"

	"github.com/godaddy/asherah/go/securememory"
	"github.com/godaddy/asherah/go/securememory/internal/memcall"
)

// how long we give a (wrongly) unblocked Close to make progress before we conclude it is still waiting.
const seedC11bSettle = 1 * time.Second

// how long we wait for things that must eventually happen.
const seedC11bDeadline = 20 * time.Second

// pageModel is a memcall.Interface that keeps a ghost model of the page state instead of touching real pages.
type pageModel struct {
	mu     sync.Mutex
	prot   string // "rw", "ro", "none"
	locked bool
	freed  bool
	events []string
}

func (p *pageModel) Alloc(size int) ([]byte, error) {
	p.mu.Lock()
	defer p.mu.Unlock()
	p.prot = "rw"

	return make([]byte, size), nil
}

func (p *pageModel) Lock([]byte) error {
	p.mu.Lock()
	defer p.mu.Unlock()
	p.locked = true

	return nil
}

func (p *pageModel) Unlock([]byte) error {
	p.mu.Lock()
	defer p.mu.Unlock()
	p.locked = false
	p.events = append(p.events, "unlock")

	return nil
}

func (p *pageModel) Free([]byte) error {
	p.mu.Lock()
	defer p.mu.Unlock()
	p.freed = true
	p.events = append(p.events, "free")

	return nil
}

func (p *pageModel) Protect(_ []byte, mpf memcall.MemoryProtectionFlag) error {
	p.mu.Lock()
	defer p.mu.Unlock()

	switch mpf {
	case memcall.NoAccess():
		p.prot = "none"
	case memcall.ReadOnly():
		p.prot = "ro"
	case memcall.ReadWrite():
		p.prot = "rw"
	}

	p.events = append(p.events, "protect:"+p.prot)

	return nil
}

func (p *pageModel) snapshot() string {
	p.mu.Lock()
	defer p.mu.Unlock()

	return fmt.Sprintf("prot=%s locked=%v freed=%v", p.prot, p.locked, p.freed)
}

type seedC11bResult struct {
	closeReturnedEarly bool
	closeErr           error
	bSaw               []byte // what reader B saw after reader A had left
	bFault             interface{}
	bErr               error
	aErr               error
	stateWhileBInside  string
	closedWhileBInside bool
	closedAtEnd        bool
	closeNeverReturned bool
}

// runSeedC11bScenario drives the interleaving described at the top of the file against s.
// model may be nil (real pages).
func runSeedC11bScenario(t *testing.T, s securememory.Secret, model *pageModel) seedC11bResult {
	t.Helper()

	var res seedC11bResult

	internal := s.(*secret).secretInternal

	aIn, bIn := make(chan struct{}), make(chan struct{})
	aGo, bGo := make(chan struct{}), make(chan struct{})
	bLook := make(chan struct{})
	bLooked := make(chan struct{})
	aDone, bDone, closeDone := make(chan struct{}), make(chan struct{}), make(chan struct{})

	// reader A
	go func() {
		defer close(aDone)

		res.aErr = s.WithBytes(func([]byte) error {
			close(aIn)
			<-aGo

			return nil
		})
	}()

	// reader B
	go func() {
		defer close(bDone)

		// a read of an unmapped / PROT_NONE page becomes a recoverable panic instead of killing the test binary
		debug.SetPanicOnFault(true)

		res.bErr = s.WithBytes(func(b []byte) error {
			close(bIn)
			<-bLook

			func() {
				defer func() { res.bFault = recover() }()

				res.bSaw = append([]byte(nil), b...)
			}()

			close(bLooked)
			<-bGo

			return nil
		})
	}()

	waitFor(t, aIn, "reader A to enter its callback")
	waitFor(t, bIn, "reader B to enter its callback")

	// closer
	go func() {
		defer close(closeDone)

		res.closeErr = s.Close()
	}()

	// Wait until Close has taken the lock, announced itself and gone to sleep on the condition variable:
	// closing is set under the lock, and the lock is only given up again by Wait (or by returning).
	deadline := time.Now().Add(seedC11bDeadline)

	for {
		internal.rw.RLock()
		closing := internal.closing
		internal.rw.RUnlock()

		if closing {
			break
		}

		if time.Now().After(deadline) {
			t.Fatal("Close never started")
		}

		time.Sleep(time.Millisecond)
	}

	// reader A leaves; reader B is still inside
	close(aGo)
	waitFor(t, aDone, "reader A to return")

	select {
	case <-closeDone:
		res.closeReturnedEarly = true
	case <-time.After(seedC11bSettle):
	}

	if model != nil {
		res.stateWhileBInside = model.snapshot()
	}

	res.closedWhileBInside = s.IsClosed()

	// reader B now looks at the bytes it was handed
	close(bLook)
	waitFor(t, bLooked, "reader B to read the secret")

	// reader B leaves
	close(bGo)
	waitFor(t, bDone, "reader B to return")

	select {
	case <-closeDone:
	case <-time.After(seedC11bDeadline):
		res.closeNeverReturned = true
	}

	res.closedAtEnd = s.IsClosed()

	return res
}

func waitFor(t *testing.T, ch <-chan struct{}, what string) {
	t.Helper()

	select {
	case <-ch:
	case <-time.After(seedC11bDeadline):
		t.Fatalf("timed out waiting for %s", what)
	}
}

func checkSeedC11bResult(t *testing.T, res seedC11bResult, want []byte) {
	t.Helper()

	if res.closeReturnedEarly {
		t.Errorf("Close returned while reader B was still inside its WithBytes callback")
	}

	if res.closedWhileBInside {
		t.Errorf("IsClosed() == true while reader B was still inside its WithBytes callback")
	}

	if res.bFault != nil {
		t.Errorf("reader B faulted reading the secret it was handed: %v", res.bFault)
	} else if !bytes.Equal(res.bSaw, want) {
		t.Errorf("reader B did not see the original bytes: got %d bytes starting %#x, want %d bytes starting %#x",
			len(res.bSaw), res.bSaw[:min(len(res.bSaw), 4)], len(want), want[:min(len(want), 4)])
	}

	if res.aErr != nil {
		t.Errorf("reader A: unexpected error: %v", res.aErr)
	}

	if res.bErr != nil {
		t.Errorf("reader B: unexpected error: %v", res.bErr)
	}

	if res.closeNeverReturned {
		t.Errorf("Close never returned after all readers had left")
	}

	if res.closeErr != nil {
		t.Errorf("Close: unexpected error: %v", res.closeErr)
	}

	if !res.closedAtEnd {
		t.Errorf("secret not closed after Close returned")
	}
}

// TestSeedC11b_GhostPages runs the scenario against a model of the pages, for several secret sizes.
func TestSeedC11b_GhostPages(t *testing.T) {
	for _, size := range []int{1, 32, 4096, 3*4096 + 17} {
		size := size

		t.Run(fmt.Sprintf("size=%d", size), func(t *testing.T) {
			model := new(pageModel)
			f := &SecretFactory{mc: model}

			orig := bytes.Repeat([]byte{0xA5}, size)
			want := append([]byte(nil), orig...)

			s, err := f.New(orig)
			if err != nil {
				t.Fatal(err)
			}

			res := runSeedC11bScenario(t, s, model)

			checkSeedC11bResult(t, res, want)

			if got, wantState := res.stateWhileBInside, "prot=ro locked=true freed=false"; got != wantState {
				t.Errorf("page state while reader B was inside its callback: got %q, want %q", got, wantState)
			}

			if got, wantState := model.snapshot(), "prot=rw locked=false freed=true"; got != wantState {
				t.Errorf("page state after Close: got %q, want %q", got, wantState)
			}

			t.Logf("memcall events: %v", model.events)
		})
	}
}

// TestSeedC11b_RealPages runs the scenario against real mmap'd / mlock'd / mprotect'd pages.
func TestSeedC11b_RealPages(t *testing.T) {
	for _, size := range []int{1, 32, 3*4096 + 17} {
		size := size

		t.Run(fmt.Sprintf("size=%d", size), func(t *testing.T) {
			orig := bytes.Repeat([]byte{0x5A}, size)
			want := append([]byte(nil), orig...)

			s, err := new(SecretFactory).New(orig)
			if err != nil {
				t.Fatal(err)
			}

			res := runSeedC11bScenario(t, s, nil)

			checkSeedC11bResult(t, res, want)
		})
	}
}
