// C04 demonstration: expired keys must never be used to protect new data.
//
// PLACE THIS FILE AT:  go/appencryption/zz_c04_demo_test.go
// RUN WITH:
//
//	export GOPROXY=off GOSUMDB=off GOTOOLCHAIN=local
//	cd go/appencryption && go test -vet=off -count=1 -run 'TestC04Demo' -v .
//
// (do NOT set GOFLAGS=-mod=mod in go/appencryption; the module uses go.work)
//
// The tests use only the public API (SessionFactory + in-memory metastore +
// static KMS + real AES-256-GCM) and real time. Key lifetime is 3s and the
// revoke-check interval is 1h, i.e. the caches stay "fresh" for the whole test,
// exactly like a production process (90d / 60min) in the hour around a key's
// expiry. Total run time is ~10s because of the sleeps that let keys expire.
package appencryption_test

import (
	"context"
	"testing"
	"time"

	"github.com/stretchr/testify/assert"
	"github.com/stretchr/testify/require"

	"github.com/godaddy/asherah/go/appencryption"
	"github.com/godaddy/asherah/go/appencryption/pkg/crypto/aead"
	"github.com/godaddy/asherah/go/appencryption/pkg/kms"
	"github.com/godaddy/asherah/go/appencryption/pkg/persistence"
)

const (
	c04Expire     = 3 * time.Second
	c04PastExpiry = 4500 * time.Millisecond // > c04Expire + 1s of timestamp truncation
	c04StaticKey  = "thisIsAStaticMasterKeyForTesting"
)

func c04Policy() *appencryption.CryptoPolicy {
	p := appencryption.NewCryptoPolicy(
		appencryption.WithExpireAfterDuration(c04Expire),
		appencryption.WithRevokeCheckInterval(time.Hour),
	)
	// second-granular key timestamps, otherwise a 3s key would be born expired
	p.CreateDatePrecision = 0

	return p
}

func c04Factory(t *testing.T, store appencryption.Metastore) *appencryption.SessionFactory {
	t.Helper()

	crypto := aead.NewAES256GCM()

	km, err := kms.NewStatic(c04StaticKey, crypto)
	require.NoError(t, err)

	return appencryption.NewSessionFactory(&appencryption.Config{
		Service: "c04svc",
		Product: "c04prod",
		Policy:  c04Policy(),
	}, store, km, crypto)
}

// expiredAt reports whether a key created at `created` is expired at time t under the demo policy.
func c04ExpiredAt(created int64, t time.Time) bool {
	return t.After(time.Unix(created, 0).Add(c04Expire))
}

// Clause 1: a DRR produced at time t never names an IK whose age at t exceeds the key lifetime.
// Scenario: ONE long-lived session; its IK cache was filled while the IK was valid, then the IK expires
// while the cache entry is still "fresh" w.r.t. the revoke-check interval.
func TestC04Demo_LongLivedSession_CachedIKExpires(t *testing.T) {
	ctx := context.Background()
	store := persistence.NewMemoryMetastore()

	factory := c04Factory(t, store)
	defer factory.Close()

	session, err := factory.GetSession("partition-a")
	require.NoError(t, err)

	defer session.Close()

	drr1, err := session.Encrypt(ctx, []byte("payload-1"))
	require.NoError(t, err)

	drr2, err := session.Encrypt(ctx, []byte("payload-2"))
	require.NoError(t, err)
	require.Equal(t, drr1.Key.ParentKeyMeta.Created, drr2.Key.ParentKeyMeta.Created,
		"sanity: while the IK is valid the cached IK is reused")

	time.Sleep(c04PastExpiry) // IK (and SK) are now expired; nothing else happened to the session

	before := time.Now()
	drr3, err := session.Encrypt(ctx, []byte("payload-3"))
	require.NoError(t, err)

	ikCreated := drr3.Key.ParentKeyMeta.Created

	assert.False(t, c04ExpiredAt(ikCreated, before),
		"C04 violated: record produced at %v names IK created=%d (age %v) but key lifetime is %v",
		before.Unix(), ikCreated, before.Sub(time.Unix(ikCreated, 0)), c04Expire)
	assert.NotEqual(t, drr1.Key.ParentKeyMeta.Created, ikCreated,
		"C04 violated: the expired IK is still used for new records (no inline rotation)")

	// the new IK must have been persisted and the record must be readable
	ekr, err := store.Load(ctx, drr3.Key.ParentKeyMeta.ID, ikCreated)
	require.NoError(t, err)
	require.NotNil(t, ekr, "IK named by the record is in the metastore")

	pt, err := session.Decrypt(ctx, *drr3)
	require.NoError(t, err)
	assert.Equal(t, []byte("payload-3"), pt)
}

// Clause 2: no IK is ever created under an SK that is expired at that time.
// Scenario: long-lived factory (shared SK cache filled long ago). After the SK expired, a session for a
// partition that has never been seen before needs a brand-new IK.
func TestC04Demo_LongLivedFactory_CachedSKExpires_NewIKParent(t *testing.T) {
	ctx := context.Background()
	store := persistence.NewMemoryMetastore()

	factory := c04Factory(t, store)
	defer factory.Close()

	sa, err := factory.GetSession("partition-a")
	require.NoError(t, err)

	_, err = sa.Encrypt(ctx, []byte("warm up: creates SK1, fills the factory's SK cache"))
	require.NoError(t, err)
	require.NoError(t, sa.Close())

	time.Sleep(c04PastExpiry) // SK1 is now expired

	sb, err := factory.GetSession("partition-b")
	require.NoError(t, err)

	defer sb.Close()

	before := time.Now()
	drr, err := sb.Encrypt(ctx, []byte("payload-b"))
	require.NoError(t, err)

	ikEkr, err := store.Load(ctx, drr.Key.ParentKeyMeta.ID, drr.Key.ParentKeyMeta.Created)
	require.NoError(t, err)
	require.NotNil(t, ikEkr)
	require.NotNil(t, ikEkr.ParentKeyMeta)

	skCreated := ikEkr.ParentKeyMeta.Created

	assert.False(t, c04ExpiredAt(skCreated, before),
		"C04 violated: IK created=%d was created at ~%d under SK created=%d (age %v), key lifetime is %v",
		ikEkr.Created, before.Unix(), skCreated, before.Sub(time.Unix(skCreated, 0)), c04Expire)

	// and a new SK must have been persisted
	skEkr, err := store.LoadLatest(ctx, ikEkr.ParentKeyMeta.ID)
	require.NoError(t, err)
	require.NotNil(t, skEkr)
	assert.False(t, c04ExpiredAt(skEkr.Created, before), "C04 violated: no new SK was persisted after the old one expired")
}

// Control (passes with and without the seeded change): the same clock advance, but observed through a
// *new* factory/session (cold caches) rotates correctly. This is the only shape of expiry scenario that
// can be built without keeping a cache alive across the expiry instant.
func TestC04Demo_Control_ColdCachesRotate(t *testing.T) {
	ctx := context.Background()
	store := persistence.NewMemoryMetastore()

	f1 := c04Factory(t, store)
	s1, err := f1.GetSession("partition-a")
	require.NoError(t, err)

	drr1, err := s1.Encrypt(ctx, []byte("payload-1"))
	require.NoError(t, err)
	require.NoError(t, s1.Close())
	require.NoError(t, f1.Close())

	time.Sleep(c04PastExpiry)

	f2 := c04Factory(t, store)
	defer f2.Close()

	s2, err := f2.GetSession("partition-a")
	require.NoError(t, err)

	defer s2.Close()

	before := time.Now()
	drr2, err := s2.Encrypt(ctx, []byte("payload-2"))
	require.NoError(t, err)

	assert.False(t, c04ExpiredAt(drr2.Key.ParentKeyMeta.Created, before))
	assert.NotEqual(t, drr1.Key.ParentKeyMeta.Created, drr2.Key.ParentKeyMeta.Created)
}
