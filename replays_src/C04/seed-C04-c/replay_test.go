// Demonstration for seed C04-c (property C04: expired keys are never used to protect new data).
//
// PLACE THIS FILE AT:   go/appencryption/c04_created_precision_demo_test.go
// RUN IT WITH:
//
//	cd go/appencryption && \
//	  GOPROXY=off GOSUMDB=off GOTOOLCHAIN=local \
//	  go test -vet=off -count=1 -run 'TestC04_NoIntermediateKeyIsCreatedUnderAnExpiredSystemKey' -v .
//
// What it does (no sleeps, no goroutines, fully deterministic):
//
//  1. A first "process" (SessionFactory #1) encrypts once against an empty in-memory metastore, which makes
//     the library create and persist a system key SK1 and an intermediate key IK1.
//  2. The stored records are then back-dated so that both keys are *just* past the policy's key lifetime:
//     their age is ExpireKeyAfter + a fraction of CreateDatePrecision. (This stands in for "the clock
//     advanced to shortly after the keys expired"; the metastore keeps accepting writes throughout.)
//  3. A second "process" (SessionFactory #2, empty caches) encrypts a new payload.
//
// C04 demands that, at that moment, no new intermediate key is created under the expired SK1 and no data row
// record names an expired intermediate key: the library has to create + persist a new SK and a new IK under it.
// The test looks up, in the metastore, the IK named by the new data row record and that IK's parent SK and checks
// that neither is older than ExpireKeyAfter.
package appencryption_test

import (
	"context"
	"testing"
	"time"

	"github.com/stretchr/testify/require"

	"github.com/godaddy/asherah/go/appencryption"
	"github.com/godaddy/asherah/go/appencryption/pkg/crypto/aead"
	"github.com/godaddy/asherah/go/appencryption/pkg/kms"
	"github.com/godaddy/asherah/go/appencryption/pkg/persistence"
)

const (
	c04StaticKey = "thisIsAStaticMasterKeyForTesting"
	c04Partition = "c04-partition"
)

// backdate rewrites every key record in the metastore so that it was created at newCreated (unix seconds).
// AES-GCM key wrapping in this library does not bind the created timestamp, so the records stay decryptable.
func backdate(ms *persistence.MemoryMetastore, newCreated int64) {
	ms.Lock()
	defer ms.Unlock()

	for id, byCreated := range ms.Envelopes {
		moved := make(map[int64]*appencryption.EnvelopeKeyRecord, len(byCreated))

		for _, ekr := range byCreated {
			ekr.Created = newCreated
			if ekr.ParentKeyMeta != nil {
				ekr.ParentKeyMeta.Created = newCreated
			}

			moved[newCreated] = ekr
		}

		ms.Envelopes[id] = moved
	}
}

func runC04Scenario(t *testing.T, lifetime, precision, pastLifetime time.Duration) {
	t.Helper()

	ctx := context.Background()
	crypto := aead.NewAES256GCM()

	km, err := kms.NewStatic(c04StaticKey, crypto)
	require.NoError(t, err)

	defer km.Close()

	policy := appencryption.NewCryptoPolicy(appencryption.WithExpireAfterDuration(lifetime))
	policy.CreateDatePrecision = precision

	newFactory := func(ms appencryption.Metastore) *appencryption.SessionFactory {
		return appencryption.NewSessionFactory(
			&appencryption.Config{Service: "svc", Product: "prod", Policy: policy},
			ms, km, crypto,
		)
	}

	metastore := persistence.NewMemoryMetastore()

	// 1. first process: creates + persists SK1 and IK1
	func() {
		f1 := newFactory(metastore)
		defer f1.Close()

		s1, err := f1.GetSession(c04Partition)
		require.NoError(t, err)

		defer s1.Close()

		_, err = s1.Encrypt(ctx, []byte("old payload"))
		require.NoError(t, err)
	}()

	require.Len(t, metastore.Envelopes, 2, "expected exactly one SK id and one IK id in the metastore")

	// 2. both keys are now a little older than the key lifetime
	oldCreated := time.Now().Add(-lifetime - pastLifetime).Unix()
	backdate(metastore, oldCreated)

	// 3. second process, empty caches: encrypt new data
	f2 := newFactory(metastore)
	defer f2.Close()

	s2, err := f2.GetSession(c04Partition)
	require.NoError(t, err)

	defer s2.Close()

	drr, err := s2.Encrypt(ctx, []byte("new payload"))
	require.NoError(t, err)

	now := time.Now()
	expiredAt := func(created int64) bool { return now.After(time.Unix(created, 0).Add(lifetime)) }

	// the IK named by the new record
	ikMeta := drr.Key.ParentKeyMeta
	require.NotNil(t, ikMeta)
	require.Falsef(t, expiredAt(ikMeta.Created),
		"new data row record names intermediate key created=%d whose age %s exceeds the key lifetime %s",
		ikMeta.Created, now.Sub(time.Unix(ikMeta.Created, 0)), lifetime)

	ikEkr, err := metastore.Load(ctx, ikMeta.ID, ikMeta.Created)
	require.NoError(t, err)
	require.NotNil(t, ikEkr, "the intermediate key named by the record must have been persisted")
	require.NotNil(t, ikEkr.ParentKeyMeta)

	// ... and the SK it was created under
	skMeta := ikEkr.ParentKeyMeta
	require.Falsef(t, expiredAt(skMeta.Created),
		"intermediate key created=%d (age %s) was created under system key created=%d whose age %s exceeds the key lifetime %s",
		ikEkr.Created, now.Sub(time.Unix(ikEkr.Created, 0)),
		skMeta.Created, now.Sub(time.Unix(skMeta.Created, 0)), lifetime)

	skEkr, err := metastore.Load(ctx, skMeta.ID, skMeta.Created)
	require.NoError(t, err)
	require.NotNil(t, skEkr, "the system key the intermediate key was created under must have been persisted")

	// the record still round-trips
	out, err := s2.Decrypt(ctx, *drr)
	require.NoError(t, err)
	require.Equal(t, "new payload", string(out))
}

func TestC04_NoIntermediateKeyIsCreatedUnderAnExpiredSystemKey(t *testing.T) {
	// default CreateDatePrecision (one minute), keys are 20s past a one hour lifetime
	t.Run("default precision, 20s past lifetime", func(t *testing.T) {
		runC04Scenario(t, time.Hour, appencryption.DefaultCreateDatePrecision, 20*time.Second)
	})

	// a deployment that limits key creation to one key per day: keys are 12h past a two day lifetime
	t.Run("24h precision, 12h past lifetime", func(t *testing.T) {
		runC04Scenario(t, 48*time.Hour, 24*time.Hour, 12*time.Hour)
	})

	// control: well past lifetime + precision (behaves the same with and without the change)
	t.Run("default precision, 10m past lifetime", func(t *testing.T) {
		runC04Scenario(t, time.Hour, appencryption.DefaultCreateDatePrecision, 10*time.Minute)
	})
}
