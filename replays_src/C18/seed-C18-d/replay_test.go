// Demonstration for seed C18-d (key ids of region-suffixed partitions).
//
// Placement: go/appencryption/c18_keyid_format_demo_test.go
// Run with:
//
//	export GOPROXY=off GOSUMDB=off GOTOOLCHAIN=local
//	cd go/appencryption && go test -vet=off -count=1 -run 'TestC18KeyIDFormat' -v .
//
// The test plays the role of an independent implementation written from the
// documentation (docs/DesignAndArchitecture.md, docs/Metastore.md): it only uses
// the Go standard library (AES-256-GCM, ciphertext|tag(16)|nonce(12)) and the
// documented key id layout
//
//	_SK_<service>_<product>[_<region>]
//	_IK_<partition>_<service>_<product>[_<region>]
//
// to read what the SDK has written and to write what the SDK has to read.
package appencryption_test

import (
	"context"
	"crypto/aes"
	"crypto/cipher"
	"crypto/rand"
	"fmt"
	"regexp"
	"sort"
	"testing"
	"time"

	"github.com/stretchr/testify/assert"
	"github.com/stretchr/testify/require"

	"github.com/godaddy/asherah/go/appencryption"
	"github.com/godaddy/asherah/go/appencryption/pkg/crypto/aead"
	"github.com/godaddy/asherah/go/appencryption/pkg/kms"
	"github.com/godaddy/asherah/go/appencryption/pkg/persistence"
)

const (
	c18Service   = "svc"
	c18Product   = "prod"
	c18StaticKey = "thisIsAStaticMasterKeyForTesting" // 32 bytes
)

// regionalMetastore is an in-memory metastore that reports a region suffix, the way
// the DynamoDB metastores do when the region-suffix option (global tables) is enabled.
type regionalMetastore struct {
	*persistence.MemoryMetastore
	region string
}

func (m *regionalMetastore) GetRegionSuffix() string { return m.region }

// ---- reference implementation (stdlib only) --------------------------------

func refSystemKeyID(service, product, region string) string {
	id := "_SK_" + service + "_" + product
	if region != "" {
		id += "_" + region
	}

	return id
}

func refIntermediateKeyID(partition, service, product, region string) string {
	id := "_IK_" + partition + "_" + service + "_" + product
	if region != "" {
		id += "_" + region
	}

	return id
}

func refGCM(key []byte) (cipher.AEAD, error) {
	block, err := aes.NewCipher(key)
	if err != nil {
		return nil, err
	}

	return cipher.NewGCM(block)
}

// refOpen decrypts ciphertext | 16-byte tag | 12-byte nonce.
func refOpen(key, blob []byte) ([]byte, error) {
	gcm, err := refGCM(key)
	if err != nil {
		return nil, err
	}

	if len(blob) < 12+16 {
		return nil, fmt.Errorf("reference: blob too short (%d)", len(blob))
	}

	n := len(blob) - 12

	return gcm.Open(nil, blob[n:], blob[:n], nil)
}

// refSeal produces ciphertext | 16-byte tag | 12-byte nonce.
func refSeal(key, plain []byte) []byte {
	gcm, err := refGCM(key)
	if err != nil {
		panic(err)
	}

	nonce := make([]byte, 12)
	if _, err := rand.Read(nonce); err != nil {
		panic(err)
	}

	return append(gcm.Seal(nil, nonce, plain, nil), nonce...)
}

// refDecrypt is the documented read path: the data row record names its intermediate key,
// which has to be this partition's key id; the intermediate key record names its system key,
// which has to be this service/product's key id; the system key is unwrapped with the master key.
func refDecrypt(
	store appencryption.Metastore,
	partition, region string,
	drr *appencryption.DataRowRecord,
) ([]byte, error) {
	ctx := context.Background()

	wantIK := refIntermediateKeyID(partition, c18Service, c18Product, region)
	if got := drr.Key.ParentKeyMeta.ID; got != wantIK {
		return nil, fmt.Errorf("reference: data row names intermediate key %q, this partition's key id is %q", got, wantIK)
	}

	ikRec, err := store.Load(ctx, wantIK, drr.Key.ParentKeyMeta.Created)
	if err != nil || ikRec == nil {
		return nil, fmt.Errorf("reference: intermediate key %q/%d not in metastore (err=%v)", wantIK, drr.Key.ParentKeyMeta.Created, err)
	}

	wantSK := refSystemKeyID(c18Service, c18Product, region)
	if got := ikRec.ParentKeyMeta.ID; got != wantSK {
		return nil, fmt.Errorf("reference: intermediate key names system key %q, this service's key id is %q", got, wantSK)
	}

	skRec, err := store.Load(ctx, wantSK, ikRec.ParentKeyMeta.Created)
	if err != nil || skRec == nil {
		return nil, fmt.Errorf("reference: system key %q/%d not in metastore (err=%v)", wantSK, ikRec.ParentKeyMeta.Created, err)
	}

	sk, err := refOpen([]byte(c18StaticKey), skRec.EncryptedKey)
	if err != nil {
		return nil, fmt.Errorf("reference: system key: %w", err)
	}

	ik, err := refOpen(sk, ikRec.EncryptedKey)
	if err != nil {
		return nil, fmt.Errorf("reference: intermediate key: %w", err)
	}

	drk, err := refOpen(ik, drr.Key.EncryptedKey)
	if err != nil {
		return nil, fmt.Errorf("reference: data row key: %w", err)
	}

	return refOpen(drk, drr.Data)
}

// refEncrypt is the documented write path on an empty metastore: it creates the system key and the
// intermediate key under the documented ids and returns the data row record.
func refEncrypt(
	t *testing.T,
	store appencryption.Metastore,
	partition, region string,
	payload []byte,
) *appencryption.DataRowRecord {
	t.Helper()

	ctx := context.Background()
	now := time.Now().Unix()
	created := now - now%60 // minute precision, like every SDK

	newKey := func() []byte {
		k := make([]byte, 32)
		_, err := rand.Read(k)
		require.NoError(t, err)

		return k
	}

	skID := refSystemKeyID(c18Service, c18Product, region)
	ikID := refIntermediateKeyID(partition, c18Service, c18Product, region)
	sk, ik, drk := newKey(), newKey(), newKey()

	ok, err := store.Store(ctx, skID, created, &appencryption.EnvelopeKeyRecord{
		ID:           skID,
		Created:      created,
		EncryptedKey: refSeal([]byte(c18StaticKey), sk),
	})
	require.NoError(t, err)
	require.True(t, ok)

	ok, err = store.Store(ctx, ikID, created, &appencryption.EnvelopeKeyRecord{
		ID:            ikID,
		Created:       created,
		EncryptedKey:  refSeal(sk, ik),
		ParentKeyMeta: &appencryption.KeyMeta{ID: skID, Created: created},
	})
	require.NoError(t, err)
	require.True(t, ok)

	return &appencryption.DataRowRecord{
		Key: &appencryption.EnvelopeKeyRecord{
			Created:       now,
			EncryptedKey:  refSeal(ik, drk),
			ParentKeyMeta: &appencryption.KeyMeta{ID: ikID, Created: created},
		},
		Data: refSeal(drk, payload),
	}
}

// ---- SDK side ----------------------------------------------------------------

func newC18Factory(t *testing.T, store appencryption.Metastore) *appencryption.SessionFactory {
	t.Helper()

	crypto := aead.NewAES256GCM()

	k, err := kms.NewStatic(c18StaticKey, crypto)
	require.NoError(t, err)
	t.Cleanup(k.Close)

	f := appencryption.NewSessionFactory(
		&appencryption.Config{Service: c18Service, Product: c18Product, Policy: appencryption.NewCryptoPolicy()},
		store, k, crypto,
	)
	t.Cleanup(func() { f.Close() })

	return f
}

func storedKeyIDs(m *persistence.MemoryMetastore) []string {
	m.RLock()
	defer m.RUnlock()

	ids := make([]string, 0, len(m.Envelopes))
	for id := range m.Envelopes {
		ids = append(ids, id)
	}

	sort.Strings(ids)

	return ids
}

type c18Case struct {
	name      string
	partition string
	region    string
}

var c18Cases = []c18Case{
	// controls: behave identically with and without the change
	{name: "plain id, no region suffix", partition: "user-42", region: ""},
	{name: "plain id, region suffix", partition: "user-42", region: "us-west-2"},
	{name: "url-encoded id, no region suffix", partition: "user%40example.com", region: ""},
	// the combination that matters: a partition id carrying a percent sign (here a URL-encoded
	// e-mail address) in a deployment that uses regional key ids (DynamoDB global tables)
	{name: "url-encoded id, region suffix", partition: "user%40example.com", region: "us-west-2"},
	{name: "percent id, region suffix", partition: "tier-100%", region: "eu-central-1"},
}

// SDK writes, reference reads.
func TestC18KeyIDFormat_SDKWrites_ReferenceReads(t *testing.T) {
	for _, tc := range c18Cases {
		t.Run(tc.name, func(t *testing.T) {
			mem := persistence.NewMemoryMetastore()

			var store appencryption.Metastore = mem
			if tc.region != "" {
				store = &regionalMetastore{MemoryMetastore: mem, region: tc.region}
			}

			sess, err := newC18Factory(t, store).GetSession(tc.partition)
			require.NoError(t, err)

			defer sess.Close()

			payload := []byte("payload for " + tc.partition)

			drr, err := sess.Encrypt(context.Background(), payload)
			require.NoError(t, err)

			// the SDK reads its own output in any case
			back, err := sess.Decrypt(context.Background(), *drr)
			require.NoError(t, err)
			require.Equal(t, payload, back)

			// the key ids the SDK has emitted follow the documented layout ...
			wantSK := refSystemKeyID(c18Service, c18Product, tc.region)
			wantIK := refIntermediateKeyID(tc.partition, c18Service, c18Product, tc.region)

			assert.Equal(t, wantIK, drr.Key.ParentKeyMeta.ID, "intermediate key id named by the data row record")
			assert.Equal(t, []string{wantIK, wantSK}, storedKeyIDs(mem), "key ids written to the metastore")

			// ... so the independent implementation decrypts the record
			got, err := refDecrypt(mem, tc.partition, tc.region, drr)
			if assert.NoError(t, err, "reference implementation could not decrypt what the SDK emitted") {
				assert.Equal(t, payload, got)
			}
		})
	}
}

// Reference writes, SDK reads and then keeps writing under the keys it has found.
func TestC18KeyIDFormat_ReferenceWrites_SDKReads(t *testing.T) {
	layout := regexp.MustCompile(`^_(SK|IK)_`)

	for _, tc := range c18Cases {
		t.Run(tc.name, func(t *testing.T) {
			mem := persistence.NewMemoryMetastore()

			var store appencryption.Metastore = mem
			if tc.region != "" {
				store = &regionalMetastore{MemoryMetastore: mem, region: tc.region}
			}

			payload := []byte("reference payload for " + tc.partition)
			drr := refEncrypt(t, mem, tc.partition, tc.region, payload)

			wantSK := refSystemKeyID(c18Service, c18Product, tc.region)
			wantIK := refIntermediateKeyID(tc.partition, c18Service, c18Product, tc.region)
			require.Equal(t, []string{wantIK, wantSK}, storedKeyIDs(mem))

			sess, err := newC18Factory(t, store).GetSession(tc.partition)
			require.NoError(t, err)

			defer sess.Close()

			got, err := sess.Decrypt(context.Background(), *drr)
			require.NoError(t, err)
			require.Equal(t, payload, got)

			// The keys the reference has created are current, so a write by the SDK for the same
			// partition has to go under them: same key ids, no further key records.
			drr2, err := sess.Encrypt(context.Background(), []byte("second write"))
			require.NoError(t, err)

			assert.Equal(t, wantIK, drr2.Key.ParentKeyMeta.ID)

			for _, id := range storedKeyIDs(mem) {
				assert.Regexp(t, layout, id)
			}

			assert.Equal(t, []string{wantIK, wantSK}, storedKeyIDs(mem),
				"SDK created key records under ids the documentation does not describe")

			got2, err := refDecrypt(mem, tc.partition, tc.region, drr2)
			if assert.NoError(t, err, "reference implementation could not decrypt the SDK's second write") {
				assert.Equal(t, []byte("second write"), got2)
			}
		})
	}
}
