// C18 demonstration: cross-language layout of the DynamoDB (aws-v2) key record.
//
// Placement:  go/appencryption/plugins/aws-v2/dynamodb/metastore/c18_interop_demo_test.go
// Run with:
//
//	cd go/appencryption && GOPROXY=off GOSUMDB=off GOTOOLCHAIN=local \
//	  go test -vet=off -count=1 -run 'TestC18Interop' ./plugins/aws-v2/dynamodb/metastore/
//
// The file contains a small "reference implementation" written only from the documentation
// (docs/Metastore.md, docs/KeyManagementService.md, docs/DesignAndArchitecture.md): key ids
// _SK_service_product / _IK_partition_service_product, KeyRecord map with a base64 "Key" string,
// "Created" number and ParentKeyMeta{KeyId,Created}; AES-256-GCM blobs laid out as
// ciphertext | 16-byte tag | 12-byte nonce; DataRowRecord JSON {Key{Created,Key,ParentKeyMeta},Data}.
// It uses nothing from the SDK except the public API that is under test.
//
// What makes the difference visible: the system key is protected by a KMS whose output is NOT a bare
// 60-byte AES-GCM blob (here: a JSON envelope shaped like the documented AWS KMS one), so its length is
// not a multiple of three and its standard base64 form carries '=' padding.
package metastore_test

import (
	"context"
	"crypto/aes"
	"crypto/cipher"
	"crypto/rand"
	"encoding/base64"
	"encoding/json"
	"errors"
	"fmt"
	"sort"
	"strconv"
	"sync"
	"testing"
	"time"

	"github.com/aws/aws-sdk-go-v2/service/dynamodb"
	"github.com/aws/aws-sdk-go-v2/service/dynamodb/types"
	"github.com/stretchr/testify/assert"
	"github.com/stretchr/testify/require"

	"github.com/godaddy/asherah/go/appencryption"
	"github.com/godaddy/asherah/go/appencryption/pkg/crypto/aead"
	"github.com/godaddy/asherah/go/appencryption/plugins/aws-v2/dynamodb/metastore"
)

// ---------------------------------------------------------------------------------------------------
// fake DynamoDB table (deterministic, in memory)
// ---------------------------------------------------------------------------------------------------

type c18Table struct {
	mu    sync.Mutex
	items map[string]map[int64]map[string]types.AttributeValue // Id -> Created -> item
}

func newC18Table() *c18Table {
	return &c18Table{items: map[string]map[int64]map[string]types.AttributeValue{}}
}

func c18KeyOf(m map[string]types.AttributeValue) (string, int64, error) {
	id, ok := m["Id"].(*types.AttributeValueMemberS)
	if !ok {
		return "", 0, errors.New("Id must be S")
	}

	cr, ok := m["Created"].(*types.AttributeValueMemberN)
	if !ok {
		return "", 0, errors.New("Created must be N")
	}

	n, err := strconv.ParseInt(cr.Value, 10, 64)

	return id.Value, n, err
}

func (t *c18Table) GetItem(_ context.Context, in *dynamodb.GetItemInput, _ ...func(*dynamodb.Options)) (*dynamodb.GetItemOutput, error) {
	t.mu.Lock()
	defer t.mu.Unlock()

	id, created, err := c18KeyOf(in.Key)
	if err != nil {
		return nil, err
	}

	return &dynamodb.GetItemOutput{Item: t.items[id][created]}, nil
}

func (t *c18Table) PutItem(_ context.Context, in *dynamodb.PutItemInput, _ ...func(*dynamodb.Options)) (*dynamodb.PutItemOutput, error) {
	t.mu.Lock()
	defer t.mu.Unlock()

	id, created, err := c18KeyOf(in.Item)
	if err != nil {
		return nil, err
	}

	if _, dup := t.items[id][created]; dup && in.ConditionExpression != nil {
		return nil, &types.ConditionalCheckFailedException{}
	}

	if t.items[id] == nil {
		t.items[id] = map[int64]map[string]types.AttributeValue{}
	}

	t.items[id][created] = in.Item

	return &dynamodb.PutItemOutput{}, nil
}

// Query supports exactly what LoadLatest needs: "Id = :v", newest first, limit 1.
func (t *c18Table) Query(_ context.Context, in *dynamodb.QueryInput, _ ...func(*dynamodb.Options)) (*dynamodb.QueryOutput, error) {
	t.mu.Lock()
	defer t.mu.Unlock()

	var id string

	for _, v := range in.ExpressionAttributeValues {
		if s, ok := v.(*types.AttributeValueMemberS); ok {
			id = s.Value
		}
	}

	var createds []int64
	for c := range t.items[id] {
		createds = append(createds, c)
	}

	sort.Slice(createds, func(i, j int) bool { return createds[i] > createds[j] })

	out := &dynamodb.QueryOutput{}
	if len(createds) > 0 {
		out.Items = append(out.Items, t.items[id][createds[0]])
	}

	return out, nil
}

func (t *c18Table) Options() dynamodb.Options { return dynamodb.Options{Region: "us-west-2"} }

// ---------------------------------------------------------------------------------------------------
// reference implementation, written from the documentation only
// ---------------------------------------------------------------------------------------------------

// refSeal / refOpen: AES-256-GCM, output laid out as ciphertext | tag(16) | nonce(12).
func refSeal(plain, key []byte) []byte {
	blk, err := aes.NewCipher(key)
	if err != nil {
		panic(err)
	}

	gcm, err := cipher.NewGCM(blk)
	if err != nil {
		panic(err)
	}

	nonce := make([]byte, 12)
	if _, err := rand.Read(nonce); err != nil {
		panic(err)
	}

	return append(gcm.Seal(nil, nonce, plain, nil), nonce...)
}

func refOpen(blob, key []byte) ([]byte, error) {
	if len(blob) < 28 {
		return nil, errors.New("ref: blob too short")
	}

	blk, err := aes.NewCipher(key)
	if err != nil {
		return nil, err
	}

	gcm, err := cipher.NewGCM(blk)
	if err != nil {
		return nil, err
	}

	return gcm.Open(nil, blob[len(blob)-12:], blob[:len(blob)-12], nil)
}

// refKMS protects system keys with a JSON envelope shaped like the documented AWS KMS one
// (docs/KeyManagementService.md). The same code is plugged into the SDK as its KeyManagementService
// (a KMS is an external service shared by all implementations) and used by the reference side.
type refKMS struct{ master []byte }

type refKMSKek struct {
	Region       string `json:"region"`
	ARN          string `json:"arn"`
	EncryptedKek []byte `json:"encryptedKek"`
}

type refKMSEnvelope struct {
	EncryptedKey []byte      `json:"encryptedKey"`
	KMSKeks      []refKMSKek `json:"kmsKeks"`
}

func (k refKMS) EncryptKey(_ context.Context, key []byte) ([]byte, error) {
	kek := make([]byte, 32)
	if _, err := rand.Read(kek); err != nil {
		return nil, err
	}

	return json.Marshal(refKMSEnvelope{
		EncryptedKey: refSeal(key, kek),
		KMSKeks: []refKMSKek{{
			Region:       "us-west-2",
			ARN:          "arn:aws:kms:us-west-2:123456789012:key/c18demo",
			EncryptedKek: refSeal(kek, k.master),
		}},
	})
}

func (k refKMS) DecryptKey(_ context.Context, blob []byte) ([]byte, error) {
	var env refKMSEnvelope
	if err := json.Unmarshal(blob, &env); err != nil {
		return nil, fmt.Errorf("kms envelope: %w", err)
	}

	if len(env.KMSKeks) == 0 {
		return nil, errors.New("kms envelope: no keks")
	}

	kek, err := refOpen(env.KMSKeks[0].EncryptedKek, k.master)
	if err != nil {
		return nil, err
	}

	return refOpen(env.EncryptedKey, kek)
}

// refKeyRecord is the documented key record.
type refKeyRecord struct {
	Created    int64
	Key        []byte
	ParentID   string // empty for system keys
	ParentTime int64
	Revoked    bool
}

// refItem builds the documented DynamoDB item: Id (S), Created (N), KeyRecord (M) with Key as a
// standard (padded) base64 string, Created (N), ParentKeyMeta{KeyId,Created}, Revoked only when true.
func refItem(id string, r refKeyRecord) map[string]types.AttributeValue {
	kr := map[string]types.AttributeValue{
		"Key":     &types.AttributeValueMemberS{Value: base64.StdEncoding.EncodeToString(r.Key)},
		"Created": &types.AttributeValueMemberN{Value: strconv.FormatInt(r.Created, 10)},
	}

	if r.ParentID != "" {
		kr["ParentKeyMeta"] = &types.AttributeValueMemberM{Value: map[string]types.AttributeValue{
			"KeyId":   &types.AttributeValueMemberS{Value: r.ParentID},
			"Created": &types.AttributeValueMemberN{Value: strconv.FormatInt(r.ParentTime, 10)},
		}}
	}

	if r.Revoked {
		kr["Revoked"] = &types.AttributeValueMemberBOOL{Value: true}
	}

	return map[string]types.AttributeValue{
		"Id":        &types.AttributeValueMemberS{Value: id},
		"Created":   &types.AttributeValueMemberN{Value: strconv.FormatInt(r.Created, 10)},
		"KeyRecord": &types.AttributeValueMemberM{Value: kr},
	}
}

// refParseItem is the strict reader for the documented item layout.
func refParseItem(item map[string]types.AttributeValue) (refKeyRecord, error) {
	var r refKeyRecord

	krM, ok := item["KeyRecord"].(*types.AttributeValueMemberM)
	if !ok {
		return r, errors.New("ref: KeyRecord must be M")
	}

	kr := krM.Value

	keyS, ok := kr["Key"].(*types.AttributeValueMemberS)
	if !ok {
		return r, errors.New("ref: KeyRecord.Key must be S")
	}

	var err error
	if r.Key, err = base64.StdEncoding.Strict().DecodeString(keyS.Value); err != nil {
		return r, fmt.Errorf("ref: KeyRecord.Key (%d chars, ends %q) is not standard padded base64: %w",
			len(keyS.Value), keyS.Value[max(0, len(keyS.Value)-8):], err)
	}

	crN, ok := kr["Created"].(*types.AttributeValueMemberN)
	if !ok {
		return r, errors.New("ref: KeyRecord.Created must be N")
	}

	if r.Created, err = strconv.ParseInt(crN.Value, 10, 64); err != nil {
		return r, err
	}

	if pm, ok := kr["ParentKeyMeta"].(*types.AttributeValueMemberM); ok {
		idS, ok1 := pm.Value["KeyId"].(*types.AttributeValueMemberS)
		cN, ok2 := pm.Value["Created"].(*types.AttributeValueMemberN)

		if !ok1 || !ok2 {
			return r, errors.New("ref: malformed ParentKeyMeta")
		}

		r.ParentID = idS.Value
		if r.ParentTime, err = strconv.ParseInt(cN.Value, 10, 64); err != nil {
			return r, err
		}
	}

	if rv, ok := kr["Revoked"].(*types.AttributeValueMemberBOOL); ok {
		r.Revoked = rv.Value
	}

	return r, nil
}

// documented DataRowRecord JSON.
type refMeta struct {
	KeyID   string `json:"KeyId"`
	Created int64  `json:"Created"`
}

type refDRRKey struct {
	Created       int64    `json:"Created"`
	Key           string   `json:"Key"` // base64
	ParentKeyMeta *refMeta `json:"ParentKeyMeta"`
}

type refDRR struct {
	Key  *refDRRKey `json:"Key"`
	Data string     `json:"Data"` // base64
}

// refDecrypt reads a DataRowRecord JSON and walks DRK <- IK <- SK <- KMS through the table.
func refDecrypt(t *c18Table, kms refKMS, drrJSON []byte) ([]byte, error) {
	var drr refDRR
	if err := json.Unmarshal(drrJSON, &drr); err != nil {
		return nil, err
	}

	if drr.Key == nil || drr.Key.ParentKeyMeta == nil {
		return nil, errors.New("ref: incomplete DataRowRecord")
	}

	ikItem := t.items[drr.Key.ParentKeyMeta.KeyID][drr.Key.ParentKeyMeta.Created]
	if ikItem == nil {
		return nil, errors.New("ref: intermediate key not found")
	}

	ikRec, err := refParseItem(ikItem)
	if err != nil {
		return nil, fmt.Errorf("intermediate key record: %w", err)
	}

	skItem := t.items[ikRec.ParentID][ikRec.ParentTime]
	if skItem == nil {
		return nil, errors.New("ref: system key not found")
	}

	skRec, err := refParseItem(skItem)
	if err != nil {
		return nil, fmt.Errorf("system key record: %w", err)
	}

	sk, err := kms.DecryptKey(context.Background(), skRec.Key)
	if err != nil {
		return nil, err
	}

	ik, err := refOpen(ikRec.Key, sk)
	if err != nil {
		return nil, err
	}

	encDRK, err := base64.StdEncoding.DecodeString(drr.Key.Key)
	if err != nil {
		return nil, err
	}

	drk, err := refOpen(encDRK, ik)
	if err != nil {
		return nil, err
	}

	data, err := base64.StdEncoding.DecodeString(drr.Data)
	if err != nil {
		return nil, err
	}

	return refOpen(data, drk)
}

// refEncrypt creates a fresh SK and IK in the table (documented layout) and returns the DataRowRecord JSON.
func refEncrypt(t *c18Table, kms refKMS, partition, service, product string, payload []byte) ([]byte, error) {
	now := time.Now().Unix()
	created := now - now%60

	skID := "_SK_" + service + "_" + product
	ikID := "_IK_" + partition + "_" + service + "_" + product

	sk, ik, drk := make([]byte, 32), make([]byte, 32), make([]byte, 32)
	for _, k := range [][]byte{sk, ik, drk} {
		if _, err := rand.Read(k); err != nil {
			return nil, err
		}
	}

	encSK, err := kms.EncryptKey(context.Background(), sk)
	if err != nil {
		return nil, err
	}

	t.items[skID] = map[int64]map[string]types.AttributeValue{
		created: refItem(skID, refKeyRecord{Created: created, Key: encSK}),
	}
	t.items[ikID] = map[int64]map[string]types.AttributeValue{
		created: refItem(ikID, refKeyRecord{Created: created, Key: refSeal(ik, sk), ParentID: skID, ParentTime: created}),
	}

	return json.Marshal(refDRR{
		Key: &refDRRKey{
			Created:       now,
			Key:           base64.StdEncoding.EncodeToString(refSeal(drk, ik)),
			ParentKeyMeta: &refMeta{KeyID: ikID, Created: created},
		},
		Data: base64.StdEncoding.EncodeToString(refSeal(payload, drk)),
	})
}

// ---------------------------------------------------------------------------------------------------
// tests
// ---------------------------------------------------------------------------------------------------

const (
	c18Service   = "svc"
	c18Product   = "prod"
	c18Partition = "p1"
)

func c18Master() []byte { return []byte("0123456789abcdef0123456789abcdef") }

func c18Factory(t *testing.T, table *c18Table, kms refKMS) *appencryption.SessionFactory {
	t.Helper()

	store, err := metastore.NewDynamoDB(metastore.WithDynamoDBClient(table))
	require.NoError(t, err)

	return appencryption.NewSessionFactory(
		&appencryption.Config{Service: c18Service, Product: c18Product, Policy: appencryption.NewCryptoPolicy()},
		store, kms, aead.NewAES256GCM(),
	)
}

// The precondition that makes the demonstration meaningful: the KMS output needs base64 padding.
func c18RequireOddKMSBlob(t *testing.T, kms refKMS) {
	t.Helper()

	blob, err := kms.EncryptKey(context.Background(), make([]byte, 32))
	require.NoError(t, err)
	require.NotZero(t, len(blob)%3, "demo precondition: KMS blob length (%d) must not be a multiple of 3", len(blob))
}

// Direction 1: the SDK writes (keys into DynamoDB, DataRowRecord as JSON), the reference reads.
func TestC18Interop_SDKWrites_ReferenceReads(t *testing.T) {
	kms := refKMS{master: c18Master()}
	c18RequireOddKMSBlob(t, kms)

	table := newC18Table()
	factory := c18Factory(t, table, kms)

	defer factory.Close()

	sess, err := factory.GetSession(c18Partition)
	require.NoError(t, err)

	defer sess.Close()

	payload := []byte("payload written by the Go SDK")

	drr, err := sess.Encrypt(context.Background(), payload)
	require.NoError(t, err)

	drrJSON, err := json.Marshal(drr)
	require.NoError(t, err)

	// key ids follow the documented scheme
	require.Contains(t, table.items, "_SK_svc_prod")
	require.Contains(t, table.items, "_IK_p1_svc_prod")

	got, err := refDecrypt(table, kms, drrJSON)
	if assert.NoError(t, err, "an implementation written from the documentation must be able to read what the SDK stored") {
		assert.Equal(t, payload, got)
	}
}

// Direction 2: the reference writes (keys into DynamoDB, DataRowRecord as JSON), the SDK reads.
func TestC18Interop_ReferenceWrites_SDKReads(t *testing.T) {
	kms := refKMS{master: c18Master()}
	c18RequireOddKMSBlob(t, kms)

	table := newC18Table()
	payload := []byte("payload written by the reference implementation")

	drrJSON, err := refEncrypt(table, kms, c18Partition, c18Service, c18Product, payload)
	require.NoError(t, err)

	// sanity: the reference can read its own output
	self, err := refDecrypt(table, kms, drrJSON)
	require.NoError(t, err)
	require.Equal(t, payload, self)

	factory := c18Factory(t, table, kms)

	defer factory.Close()

	sess, err := factory.GetSession(c18Partition)
	require.NoError(t, err)

	defer sess.Close()

	var drr appencryption.DataRowRecord
	require.NoError(t, json.Unmarshal(drrJSON, &drr))

	got, err := sess.Decrypt(context.Background(), drr)
	if assert.NoError(t, err, "the SDK must be able to read what an implementation written from the documentation stored") {
		assert.Equal(t, payload, got)
	}
}

// Item level, both directions, for a range of key lengths (the metastore must not care what the KMS emits).
func TestC18Interop_KeyRecordItem_AllKeyLengths(t *testing.T) {
	for _, n := range []int{59, 60, 61, 62, 63, 500, 1226, 1227} {
		n := n

		t.Run(fmt.Sprintf("len=%d", n), func(t *testing.T) {
			key := make([]byte, n)
			for i := range key {
				key[i] = byte(i*7 + n)
			}

			// reference writes, SDK loads
			table := newC18Table()
			table.items["_SK_svc_prod"] = map[int64]map[string]types.AttributeValue{
				1700000040: refItem("_SK_svc_prod", refKeyRecord{Created: 1700000040, Key: key}),
			}

			store, err := metastore.NewDynamoDB(metastore.WithDynamoDBClient(table))
			require.NoError(t, err)

			ekr, err := store.Load(context.Background(), "_SK_svc_prod", 1700000040)
			if assert.NoError(t, err, "Load of a documented-layout item") && assert.NotNil(t, ekr) {
				assert.Equal(t, key, ekr.EncryptedKey)
				assert.EqualValues(t, 1700000040, ekr.Created)
			}

			latest, err := store.LoadLatest(context.Background(), "_SK_svc_prod")
			if assert.NoError(t, err, "LoadLatest of a documented-layout item") && assert.NotNil(t, latest) {
				assert.Equal(t, key, latest.EncryptedKey)
			}

			// SDK stores, reference parses
			table2 := newC18Table()
			store2, err := metastore.NewDynamoDB(metastore.WithDynamoDBClient(table2))
			require.NoError(t, err)

			ok, err := store2.Store(context.Background(), "_SK_svc_prod", 1700000040, &appencryption.EnvelopeKeyRecord{
				ID:           "_SK_svc_prod",
				Created:      1700000040,
				EncryptedKey: key,
			})
			require.NoError(t, err)
			require.True(t, ok)

			rec, err := refParseItem(table2.items["_SK_svc_prod"][1700000040])
			if assert.NoError(t, err, "reference parse of an SDK-written item") {
				assert.Equal(t, key, rec.Key)
				assert.EqualValues(t, 1700000040, rec.Created)
				assert.False(t, rec.Revoked)
			}
		})
	}
}
