// Demonstration for seeded change C09-c (pkg/cache/tlfu.go, tinyLFU.Victim).
//
// PLACE THIS FILE AT:   go/appencryption/c09_seed_tinylfu_demo_test.go
// RUN WITH:
//
//	export GOPROXY=off GOSUMDB=off GOTOOLCHAIN=local
//	cd go/appencryption && go test -vet=off -count=1 -run 'TestC09Seed_' -v .
//
// Expected: PASS on the unchanged tree, FAIL with the seeded change applied.
//
// What it does: a SessionFactory with a shared intermediate-key cache using the "tinylfu" eviction policy and a
// capacity of 100 (so the TinyLFU admission window is 1 entry and the main SLRU segment is 99). All secrets are
// allocated through a counting SecretFactory. The test
//
//  1. encrypts once in each of 100 partitions (fills the IK cache; partition 99's key sits in the admission window),
//  2. encrypts a few more times in partition 99 (its key becomes "hot", still in the admission window),
//  3. encrypts once more in partitions 50, 60 and 70 (their keys move to the protected segment of the SLRU),
//  4. encrypts in a 101st partition: the cache is full, TinyLFU compares the hot window candidate (partition 99)
//     with the cold SLRU victim (partition 0), the candidate wins and is moved into the main segment,
//  5. closes every session and the factory,
//
// and then requires that every secret ever allocated has been released exactly once.
package appencryption_test

import (
	"bytes"
	"context"
	"crypto/rand"
	"errors"
	"fmt"
	"io"
	"sync"
	"testing"

	"github.com/godaddy/asherah/go/securememory"

	"github.com/godaddy/asherah/go/appencryption"
	"github.com/godaddy/asherah/go/appencryption/pkg/crypto/aead"
	"github.com/godaddy/asherah/go/appencryption/pkg/kms"
	"github.com/godaddy/asherah/go/appencryption/pkg/persistence"
)

// c09Secret is a plain in-memory securememory.Secret that records how often it was closed and whether it was
// touched after having been closed.
type c09Secret struct {
	mu            sync.Mutex
	id            int
	b             []byte
	closes        int
	usedAfterFree int
}

func (s *c09Secret) WithBytes(action func([]byte) error) error {
	s.mu.Lock()
	defer s.mu.Unlock()

	if s.closes > 0 {
		s.usedAfterFree++
		return errors.New("secret has already been destroyed")
	}

	return action(s.b)
}

func (s *c09Secret) WithBytesFunc(action func([]byte) ([]byte, error)) ([]byte, error) {
	s.mu.Lock()
	defer s.mu.Unlock()

	if s.closes > 0 {
		s.usedAfterFree++
		return nil, errors.New("secret has already been destroyed")
	}

	return action(s.b)
}

func (s *c09Secret) IsClosed() bool {
	s.mu.Lock()
	defer s.mu.Unlock()

	return s.closes > 0
}

func (s *c09Secret) Close() error {
	s.mu.Lock()
	defer s.mu.Unlock()

	s.closes++
	for i := range s.b {
		s.b[i] = 0
	}

	return nil
}

func (s *c09Secret) NewReader() io.Reader {
	s.mu.Lock()
	defer s.mu.Unlock()

	return bytes.NewReader(append([]byte(nil), s.b...))
}

// c09SecretFactory hands out c09Secrets and remembers all of them.
type c09SecretFactory struct {
	mu      sync.Mutex
	secrets []*c09Secret
}

func (f *c09SecretFactory) add(b []byte) *c09Secret {
	f.mu.Lock()
	defer f.mu.Unlock()

	s := &c09Secret{id: len(f.secrets), b: b}
	f.secrets = append(f.secrets, s)

	return s
}

func (f *c09SecretFactory) New(b []byte) (securememory.Secret, error) {
	cp := append([]byte(nil), b...)

	// like the real factories, wipe the source
	for i := range b {
		b[i] = 0
	}

	return f.add(cp), nil
}

func (f *c09SecretFactory) CreateRandom(size int) (securememory.Secret, error) {
	b := make([]byte, size)
	if _, err := rand.Read(b); err != nil {
		return nil, err
	}

	return f.add(b), nil
}

// tally returns (allocated, still live, closed more than once, touched after close).
func (f *c09SecretFactory) tally() (total, live, multi, uaf int, liveIDs []int) {
	f.mu.Lock()
	defer f.mu.Unlock()

	for _, s := range f.secrets {
		s.mu.Lock()

		switch {
		case s.closes == 0:
			live++

			liveIDs = append(liveIDs, s.id)
		case s.closes > 1:
			multi++
		}

		uaf += s.usedAfterFree

		s.mu.Unlock()
	}

	return len(f.secrets), live, multi, uaf, liveIDs
}

func TestC09Seed_TinyLFUSharedIKCache_AllSecretsReleasedAfterClose(t *testing.T) {
	const capacity = 100

	ctx := context.Background()
	crypto := aead.NewAES256GCM()

	staticKMS, err := kms.NewStatic("thisIsAStaticMasterKeyForTesting", crypto)
	if err != nil {
		t.Fatal(err)
	}

	policy := appencryption.NewCryptoPolicy(appencryption.WithSharedIntermediateKeyCache(capacity))
	policy.IntermediateKeyCacheEvictionPolicy = "tinylfu"

	secrets := new(c09SecretFactory)

	factory := appencryption.NewSessionFactory(
		&appencryption.Config{Service: "svc", Product: "prod", Policy: policy},
		persistence.NewMemoryMetastore(),
		staticKMS,
		crypto,
		appencryption.WithSecretFactory(secrets),
	)

	encrypt := func(partition int) {
		t.Helper()

		s, err := factory.GetSession(fmt.Sprintf("partition-%03d", partition))
		if err != nil {
			t.Fatalf("GetSession(%d): %v", partition, err)
		}

		drr, err := s.Encrypt(ctx, []byte("payload"))
		if err != nil {
			t.Fatalf("Encrypt(%d): %v", partition, err)
		}

		got, err := s.Decrypt(ctx, *drr)
		if err != nil || string(got) != "payload" {
			t.Fatalf("Decrypt(%d): %q, %v", partition, got, err)
		}

		if err := s.Close(); err != nil {
			t.Fatalf("Session.Close(%d): %v", partition, err)
		}
	}

	// 1. fill the shared IK cache: one intermediate key per partition. (Decrypt uses the key's exact KeyMeta, which is
	//    a cache hit as well, so each key has been accessed exactly once after its admission.)
	for p := 0; p < capacity; p++ {
		encrypt(p)
	}

	// 2. partition 99's key is the one in the admission window; make it clearly hotter than everything else.
	for i := 0; i < 5; i++ {
		encrypt(capacity - 1)
	}

	// 3. a few keys of the main segment are used again, which moves them to its protected part.
	for _, p := range []int{50, 60, 70} {
		encrypt(p)
		encrypt(p)
	}

	// 4. one more partition: the cache is full, so an eviction takes place. The hot window candidate (99) beats the
	//    cold main-segment victim and is moved into the main segment.
	encrypt(capacity)

	// 5. close the factory (sessions are already closed): every cached key must be released now.
	if err := factory.Close(); err != nil {
		t.Fatalf("factory.Close: %v", err)
	}

	total, live, multi, uaf, liveIDs := secrets.tally()
	t.Logf("secrets allocated=%d live-after-close=%d closed-more-than-once=%d touched-after-close=%d", total, live, multi, uaf)

	if live != 0 {
		t.Errorf("C09 violated: %d of %d secrets are still live after all sessions and the factory were closed (secret ids %v)",
			live, total, liveIDs)
	}

	if multi != 0 {
		t.Errorf("C09 violated: %d secrets were closed more than once", multi)
	}

	if uaf != 0 {
		t.Errorf("C09 violated: %d accesses to already released secrets", uaf)
	}
}
