package cache

import (
	"fmt"
	"testing"
)

// Replays the failed obligation (*tinyLFU).Admit/post:tinylfu-every-tracked-item-has-its-list-on-file on the real cache:
// with a capacity below 100 the admission window is empty, Admit files the item in the main segment without recording
// which list holds it, and the next Get / Set / Delete / eviction of that key calls a method on a nil policy.
func TestGocvReplay_TinyLFUSmallCapacity(t *testing.T) {
	for _, capacity := range []int{1, 2, 50, 99} {
		capacity := capacity
		t.Run(fmt.Sprintf("capacity=%d", capacity), func(t *testing.T) {
			defer func() {
				if r := recover(); r != nil {
					t.Fatalf("capacity %d: panic: %v", capacity, r)
				}
			}()
			evicted := 0
			c := New[string, int](capacity).TinyLFU().Synchronous().WithEvictFunc(func(string, int) { evicted++ }).Build()
			c.Set("a", 1)
			if v, ok := c.Get("a"); !ok || v != 1 {
				t.Fatalf("Get(a) = %v, %v", v, ok)
			}
			c.Set("a", 2)
			for i := 0; i < capacity+3; i++ {
				c.Set(fmt.Sprint("k", i), i)
			}
			if c.Len() > capacity {
				t.Fatalf("len %d > capacity %d", c.Len(), capacity)
			}
			c.Delete("k1")
			if err := c.Close(); err != nil {
				t.Fatal(err)
			}
		})
	}
}
