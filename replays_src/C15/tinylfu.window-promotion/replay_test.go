// Demonstration for seeded change C15-a.
//
// Placement: go/appencryption/pkg/cache/seed_c15_demo_test.go
// Run with:
//
//	export GOPROXY=off GOSUMDB=off GOTOOLCHAIN=local
//	cd go/appencryption && go test -vet=off -count=1 -run 'TestSeedC15' ./pkg/cache/
//
// Expected: PASS on the unchanged tree, FAIL with the change applied.
package cache_test

import (
	"fmt"
	"testing"

	"github.com/godaddy/asherah/go/appencryption/pkg/cache"
)

type seedC15Recorder struct {
	calls map[int][]string
	order []int
}

func newSeedC15Recorder() *seedC15Recorder {
	return &seedC15Recorder{calls: make(map[int][]string)}
}

func (r *seedC15Recorder) onEvict(key int, value string) {
	r.calls[key] = append(r.calls[key], value)
	r.order = append(r.order, key)
}

// seedC15Prepare builds a synchronous TinyLFU cache of capacity 100 (the
// smallest capacity with a non-empty admission window), fills it, and then
// makes the window candidate (key 99) win the admission contest against the
// main segment's victim (key 0), so that key 99 is moved from the window into
// the main (SLRU) segment.
func seedC15Prepare(t *testing.T, rec *seedC15Recorder) cache.Interface[int, string] {
	t.Helper()

	c := cache.New[int, string](100).TinyLFU().Synchronous().WithEvictFunc(rec.onEvict).Build()

	for i := 0; i < 100; i++ {
		c.Set(i, fmt.Sprintf("v%d", i))
	}

	if c.Len() != 100 {
		t.Fatalf("setup: len = %d, want 100", c.Len())
	}

	// key 99 sits in the admission window; give it a higher frequency than
	// the main segment's victim.
	if v, ok := c.Get(99); !ok || v != "v99" {
		t.Fatalf("setup: Get(99) = %q, %v", v, ok)
	}

	// cache is full: 99 wins the contest, is promoted to the main segment and
	// the main segment's victim (key 0) is evicted instead.
	c.Set(100, "v100")

	if len(rec.order) != 1 || rec.order[0] != 0 {
		t.Fatalf("setup: expected exactly key 0 to be evicted, got %v", rec.order)
	}

	if v, ok := c.Get(99); !ok || v != "v99" {
		t.Fatalf("setup: Get(99) after promotion = %q, %v", v, ok)
	}

	return c
}

// A deleted entry must never be reported through the eviction callback, and
// Close must report every entry that is still held, exactly once.
func TestSeedC15_DeleteAfterWindowPromotion(t *testing.T) {
	rec := newSeedC15Recorder()
	c := seedC15Prepare(t, rec)

	if !c.Delete(99) {
		t.Fatal("Delete(99) = false, want true")
	}

	if _, ok := c.Get(99); ok {
		t.Fatal("Get(99) found a deleted key")
	}

	// live entries now: 1..98 and 100
	if c.Len() != 99 {
		t.Fatalf("len after delete = %d, want 99", c.Len())
	}

	c.Set(101, "v101")

	if c.Len() != 100 {
		t.Fatalf("len after set = %d, want 100", c.Len())
	}

	if err := c.Close(); err != nil {
		t.Fatal(err)
	}

	if got := rec.calls[99]; len(got) != 0 {
		t.Errorf("eviction callback fired for deleted key 99: %v", got)
	}

	live := []int{100, 101}
	for i := 1; i <= 98; i++ {
		live = append(live, i)
	}

	for _, k := range live {
		got := rec.calls[k]
		if len(got) != 1 || got[0] != fmt.Sprintf("v%d", k) {
			t.Errorf("key %d: eviction callbacks = %v, want exactly [v%d]", k, got, k)
		}
	}

	if got := rec.calls[0]; len(got) != 1 {
		t.Errorf("key 0: eviction callbacks = %v, want exactly one", got)
	}
}

// An entry that leaves by eviction is reported exactly once, and the cache
// keeps honouring its capacity / Len accounting afterwards.
func TestSeedC15_EvictionAfterWindowPromotion(t *testing.T) {
	rec := newSeedC15Recorder()
	c := seedC15Prepare(t, rec)

	// Keep promoting the window candidate so that the main segment has to
	// give up a victim on every Set. Eventually key 99 becomes that victim.
	for k := 101; k < 400; k++ {
		// k-1 is the current window candidate: raise its frequency
		c.Get(k - 1)
		c.Get(k - 1)
		c.Set(k, fmt.Sprintf("v%d", k))

		if c.Len() != 100 {
			t.Fatalf("after Set(%d): len = %d, want 100", k, c.Len())
		}
	}

	for k, vals := range rec.calls {
		if len(vals) != 1 {
			t.Errorf("key %d: eviction callback fired %d times, want once", k, len(vals))
		}
	}

	// the cache must never hold more entries than its capacity
	retrievable := 0

	for k := 0; k < 400; k++ {
		if _, ok := c.Get(k); ok {
			retrievable++
		}
	}

	if retrievable > c.Capacity() {
		t.Errorf("%d keys are retrievable from a cache of capacity %d", retrievable, c.Capacity())
	}

	if err := c.Close(); err != nil {
		t.Fatal(err)
	}

	for k, vals := range rec.calls {
		if len(vals) != 1 {
			t.Errorf("after Close: key %d: eviction callback fired %d times, want once", k, len(vals))
		}
	}

	// every key ever set (0..399) has left the cache by eviction or Close
	missing := 0

	for k := 0; k < 400; k++ {
		if len(rec.calls[k]) == 0 {
			missing++
		}
	}

	if missing > 0 {
		t.Errorf("%d keys were never reported through the eviction callback", missing)
	}
}
