// Demonstration for seed C15 (prompt 6).
//
// Placement: go/appencryption/pkg/cache/slru_cap1_demo_test.go
// Run with:
//
//	export GOPROXY=off GOSUMDB=off GOTOOLCHAIN=local
//	cd go/appencryption && go test -vet=off -count=1 -run 'TestSegmentedCapacityOne' ./pkg/cache/
//
// The test drives a capacity-1 cache (where the SLRU protected segment has
// capacity int(1*0.8) == 0) through Set / Get / Set / Set ... and checks the
// C15 invariants: no more retrievable entries than the capacity, and exactly
// one eviction notification per entry that left the cache.
package cache_test

import (
	"fmt"
	"testing"

	"github.com/godaddy/asherah/go/appencryption/pkg/cache"
)

func TestSegmentedCapacityOne(t *testing.T) {
	for _, policy := range []cache.CachePolicy{cache.SLRU, cache.TinyLFU} {
		policy := policy

		t.Run(policy.String(), func(t *testing.T) {
			evictions := map[string]int{}
			values := map[string]string{}

			c := cache.New[string, string](1).
				WithPolicy(policy).
				Synchronous().
				WithEvictFunc(func(k, v string) {
					evictions[k]++
					values[k] = v
				}).
				Build()

			keys := []string{"a", "b", "c", "d", "e"}

			// one entry, accessed once: it is promoted to the (zero-sized) protected
			// segment and demoted straight back to probation
			c.Set("a", "val-a")

			if v, ok := c.Get("a"); !ok || v != "val-a" {
				t.Fatalf("Get(a) = %q, %v; want val-a, true", v, ok)
			}

			// every further Set of a new key must evict exactly the single resident entry
			for i := 1; i < len(keys); i++ {
				c.Set(keys[i], "val-"+keys[i])

				if got := c.Len(); got != 1 {
					t.Errorf("after Set(%s): Len() = %d, want 1", keys[i], got)
				}

				retrievable := 0

				for _, k := range keys {
					// Note: Get on a resident key is an access; with capacity 1 there is
					// at most one resident key so this does not change victim selection.
					if _, ok := c.Get(k); ok {
						retrievable++

						if evictions[k] != 0 {
							t.Errorf("after Set(%s): key %s is retrievable but was notified as evicted", keys[i], k)
						}
					}
				}

				if retrievable > 1 {
					t.Errorf("after Set(%s): %d keys retrievable from a capacity-1 cache", keys[i], retrievable)
				}

				// the previous key must have been evicted exactly once, with its value
				prev := keys[i-1]
				if evictions[prev] != 1 {
					t.Errorf("after Set(%s): key %s evicted %d times, want 1", keys[i], prev, evictions[prev])
				}

				if values[prev] != "val-"+prev {
					t.Errorf("after Set(%s): key %s evicted with value %q", keys[i], prev, values[prev])
				}
			}

			if err := c.Close(); err != nil {
				t.Fatal(err)
			}

			total := 0

			for _, k := range keys {
				if evictions[k] != 1 {
					t.Errorf("after Close: key %s evicted %d times, want exactly 1", k, evictions[k])
				}

				total += evictions[k]
			}

			if total != len(keys) {
				t.Errorf("after Close: %d eviction notifications for %d entries (%s)", total, len(keys), fmt.Sprint(evictions))
			}
		})
	}
}
