// Demonstration for seed C15-d (SLRU demotion lands at the wrong end of the
// probation segment).
//
// Placement: go/appencryption/pkg/cache/slru_demotion_demo_test.go
// Run with:
//
//	export GOPROXY=off GOSUMDB=off GOTOOLCHAIN=local
//	cd go/appencryption && go test -vet=off -count=1 -run 'TestSLRUDemotedItemIsMostRecentProbationEntry' ./pkg/cache/
//
// Expected: PASS on the unchanged tree, FAIL with the change applied.
package cache_test

import (
	"fmt"
	"testing"

	"github.com/stretchr/testify/assert"
	"github.com/stretchr/testify/require"

	"github.com/godaddy/asherah/go/appencryption/pkg/cache"
)

// SLRU definition: an entry pushed out of the protected segment by a newer
// promotion re-enters the probation segment at its most-recently-used end. The
// next victim must therefore be the least recently used *probation* entry that
// was there before, not the entry that has just been demoted.
//
// To observe the difference the probation segment has to hold at least one
// other entry at the moment the protected segment overflows, i.e.
// capacity - int(0.8*capacity) >= 2, which means capacity >= 6, and the
// sequence has to be: fill, promote protectedCapacity+1 distinct keys, insert a
// new key.
func TestSLRUDemotedItemIsMostRecentProbationEntry(t *testing.T) {
	for _, capacity := range []int{6, 10, 25} {
		capacity := capacity

		t.Run(fmt.Sprintf("capacity=%d", capacity), func(t *testing.T) {
			type ev struct {
				key   int
				value string
			}

			var evicted []ev

			c := cache.New[int, string](capacity).
				SLRU().
				Synchronous().
				WithEvictFunc(func(k int, v string) { evicted = append(evicted, ev{k, v}) }).
				Build()

			protectedCap := int(float64(capacity) * 0.8)

			// fill: keys 1..capacity, all in probation, key 1 is the oldest
			for k := 1; k <= capacity; k++ {
				c.Set(k, fmt.Sprintf("v%d", k))
			}

			// promote keys 1..protectedCap: the protected segment is now exactly full
			for k := 1; k <= protectedCap; k++ {
				_, ok := c.Get(k)
				require.True(t, ok)
			}

			// give key 1 a few extra hits: it is a hot key, but after the refresh below
			// it is again the least recently used entry of the protected segment
			c.Get(1)
			for k := 2; k <= protectedCap; k++ {
				c.Get(k)
			}

			require.Empty(t, evicted, "nothing may have been evicted yet")

			// one more promotion overflows the protected segment: key 1 is demoted
			_, ok := c.Get(protectedCap + 1)
			require.True(t, ok)

			// probation (MRU -> LRU) must now be: 1, capacity, capacity-1, ..., protectedCap+2
			coldest := protectedCap + 2

			// a new key forces one eviction
			c.Set(capacity+1, "new")

			require.Len(t, evicted, 1, "exactly one eviction expected")
			assert.Equal(t, ev{coldest, fmt.Sprintf("v%d", coldest)}, evicted[0],
				"the victim must be the least recently used probation entry (never accessed key %d)", coldest)

			v, ok := c.Get(1)
			assert.True(t, ok, "the just-demoted key 1 must still be retrievable")
			assert.Equal(t, "v1", v)

			_, ok = c.Get(coldest)
			assert.False(t, ok, "key %d should be the one that was evicted", coldest)

			assert.Equal(t, capacity, c.Len())
		})
	}
}
