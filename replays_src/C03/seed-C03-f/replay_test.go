// Demonstration for seed C03-f (property C03: envelope discipline / no plaintext key in any
// metastore record).
//
// PLACE THIS FILE AT:
//
//	go/appencryption/plugins/aws-v2/kms/seed_c03f_demo_test.go
//
// RUN IT WITH (sandbox is offline; do NOT set GOFLAGS=-mod=mod in this module):
//
//	cd go/appencryption && \
//	  GOPROXY=off GOSUMDB=off GOTOOLCHAIN=local \
//	  go test -vet=off -count=1 -run 'TestSeedC03f' -v ./plugins/aws-v2/kms/
//
// Expected: PASS on the unchanged tree, FAIL with the seeded change applied.
//
// Scenario (fault at a particular point): a two-region AWS KMS configuration. The preferred region
// generates the KMS data key (the KEK that wraps the system key). At the moment the system key is
// created, the *secondary* region's KMS Encrypt call fails (region outage, throttling, IAM glitch ...).
// The SDK is documented to tolerate this ("the system should still succeed as long as at least one
// region succeeds") and it still does. The question asked here is what ends up in the metastore.
//
// The oracle uses nothing but what is persisted (metastore records + the data row record): no KMS
// access at all. If the payload can be recovered from storage alone, the system key was not
// protected by the KMS and a plaintext key was written to a metastore record.
package kms_test

import (
	"bytes"
	"context"
	"crypto/rand"
	"encoding/json"
	"errors"
	"fmt"
	"sync"
	"testing"

	"github.com/aws/aws-sdk-go-v2/aws"
	awskms "github.com/aws/aws-sdk-go-v2/service/kms"

	"github.com/godaddy/asherah/go/appencryption"
	"github.com/godaddy/asherah/go/appencryption/pkg/crypto/aead"
	"github.com/godaddy/asherah/go/appencryption/pkg/persistence"
	"github.com/godaddy/asherah/go/appencryption/plugins/aws-v2/kms"
)

const (
	seedRegionA = "us-east-1"
	seedRegionB = "us-west-2"
	seedARNA    = "arn:aws:kms:us-east-1:123456789012:key/aaaaaaaa-1111-1111-1111-aaaaaaaaaaaa"
	seedARNB    = "arn:aws:kms:us-west-2:123456789012:key/bbbbbbbb-2222-2222-2222-bbbbbbbbbbbb"
)

// seedFakeRegion is an in-memory stand-in for one region's AWS KMS endpoint.
// Ciphertext blobs are opaque random handles; the plaintext they stand for never leaves this struct
// except through Decrypt (which the "attacker" part of the tests never calls).
type seedFakeRegion struct {
	mu sync.Mutex

	region string
	arn    string

	failEncrypt bool // inject: Encrypt returns an error

	blobs         map[string][]byte // handle -> plaintext
	generatedKeys [][]byte          // copies of every data key plaintext handed out by GenerateDataKey
	encryptCalls  int
}

func newSeedFakeRegion(region, arn string) *seedFakeRegion {
	return &seedFakeRegion{region: region, arn: arn, blobs: map[string][]byte{}}
}

func (f *seedFakeRegion) wrap(plaintext []byte) []byte {
	handle := make([]byte, 48)
	if _, err := rand.Read(handle); err != nil {
		panic(err)
	}

	f.blobs[string(handle)] = append([]byte(nil), plaintext...)

	return handle
}

func (f *seedFakeRegion) GenerateDataKey(_ context.Context, in *awskms.GenerateDataKeyInput, _ ...func(*awskms.Options)) (*awskms.GenerateDataKeyOutput, error) {
	f.mu.Lock()
	defer f.mu.Unlock()

	pt := make([]byte, 32)
	if _, err := rand.Read(pt); err != nil {
		panic(err)
	}

	f.generatedKeys = append(f.generatedKeys, append([]byte(nil), pt...))

	return &awskms.GenerateDataKeyOutput{
		KeyId:          aws.String(*in.KeyId),
		Plaintext:      pt, // the SDK wipes this slice when it is done; we kept our own copy above
		CiphertextBlob: f.wrap(pt),
	}, nil
}

func (f *seedFakeRegion) Encrypt(_ context.Context, in *awskms.EncryptInput, _ ...func(*awskms.Options)) (*awskms.EncryptOutput, error) {
	f.mu.Lock()
	defer f.mu.Unlock()

	f.encryptCalls++

	if f.failEncrypt {
		return nil, fmt.Errorf("kms %s: ServiceUnavailableException (injected)", f.region)
	}

	return &awskms.EncryptOutput{
		KeyId:          aws.String(*in.KeyId),
		CiphertextBlob: f.wrap(in.Plaintext),
	}, nil
}

func (f *seedFakeRegion) Decrypt(_ context.Context, in *awskms.DecryptInput, _ ...func(*awskms.Options)) (*awskms.DecryptOutput, error) {
	f.mu.Lock()
	defer f.mu.Unlock()

	pt, ok := f.blobs[string(in.CiphertextBlob)]
	if !ok {
		return nil, errors.New("kms: InvalidCiphertextException")
	}

	return &awskms.DecryptOutput{Plaintext: append([]byte(nil), pt...)}, nil
}

var _ kms.AWSClient = (*seedFakeRegion)(nil)

// seedEnvelope mirrors the JSON the AWS KMS plugin returns from EncryptKey, i.e. what is stored as the
// system key's EnvelopeKeyRecord.EncryptedKey in the metastore.
type seedEnvelope struct {
	EncryptedKey []byte `json:"encryptedKey"`
	KEKs         []struct {
		Region       string `json:"region"`
		ARN          string `json:"arn"`
		EncryptedKEK []byte `json:"encryptedKek"`
	} `json:"kmsKeks"`
}

func seedBuildKMS(t *testing.T, crypto appencryption.AEAD, a, b *seedFakeRegion) *kms.AWSKMS {
	t.Helper()

	factory := func(cfg aws.Config, _ ...func(*awskms.Options)) kms.AWSClient {
		switch cfg.Region {
		case seedRegionA:
			return a
		case seedRegionB:
			return b
		}

		t.Fatalf("unexpected region %q", cfg.Region)

		return nil
	}

	k, err := kms.NewBuilder(crypto, map[string]string{seedRegionA: seedARNA, seedRegionB: seedARNB}).
		WithPreferredRegion(seedRegionA).
		WithAWSConfig(aws.Config{}).
		WithKMSFactory(factory).
		Build()
	if err != nil {
		t.Fatalf("build kms: %v", err)
	}

	return k
}

// seedUnwrapWithoutKMS tries to open the system-key envelope using only the bytes stored in it.
func seedUnwrapWithoutKMS(crypto appencryption.AEAD, envelopeJSON []byte) (sk []byte, viaRegion string, ok bool) {
	var env seedEnvelope
	if err := json.Unmarshal(envelopeJSON, &env); err != nil {
		return nil, "", false
	}

	for _, kek := range env.KEKs {
		// a properly wrapped KEK is an opaque KMS ciphertext blob: it is not a usable AES key
		candidate := append([]byte(nil), kek.EncryptedKEK...)

		if pt, err := crypto.Decrypt(env.EncryptedKey, candidate); err == nil {
			return pt, kek.Region, true
		}
	}

	return nil, "", false
}

// TestSeedC03f_EncryptKey_RegionalFailure_EnvelopeHoldsNoPlaintextKEK exercises the plugin alone.
func TestSeedC03f_EncryptKey_RegionalFailure_EnvelopeHoldsNoPlaintextKEK(t *testing.T) {
	crypto := aead.NewAES256GCM()

	regionA := newSeedFakeRegion(seedRegionA, seedARNA)
	regionB := newSeedFakeRegion(seedRegionB, seedARNB)
	regionB.failEncrypt = true // <- the fault

	k := seedBuildKMS(t, crypto, regionA, regionB)

	systemKey := make([]byte, 32)
	if _, err := rand.Read(systemKey); err != nil {
		t.Fatal(err)
	}

	envelopeJSON, err := k.EncryptKey(context.Background(), append([]byte(nil), systemKey...))
	if err != nil {
		t.Fatalf("EncryptKey must tolerate a secondary-region failure, got: %v", err)
	}

	if regionB.encryptCalls != 1 {
		t.Fatalf("expected exactly one (failed) Encrypt call in %s, got %d", seedRegionB, regionB.encryptCalls)
	}

	if len(regionA.generatedKeys) != 1 {
		t.Fatalf("expected exactly one generated data key, got %d", len(regionA.generatedKeys))
	}

	dataKey := regionA.generatedKeys[0]

	var env seedEnvelope
	if err := json.Unmarshal(envelopeJSON, &env); err != nil {
		t.Fatalf("envelope is not JSON: %v", err)
	}

	for _, kek := range env.KEKs {
		if bytes.Equal(kek.EncryptedKEK, dataKey) {
			t.Errorf("C03 violated: the envelope entry for region %s carries the KMS data key in PLAINTEXT "+
				"(this envelope is what gets written to the metastore as the system key record)", kek.Region)
		}
	}

	if sk, region, ok := seedUnwrapWithoutKMS(crypto, envelopeJSON); ok {
		t.Errorf("C03 violated: system key recovered from the envelope alone, without any KMS call "+
			"(entry for region %s); recovered==original: %v", region, bytes.Equal(sk, systemKey))
	}

	// the envelope must still be usable through the healthy region
	got, err := k.DecryptKey(context.Background(), envelopeJSON)
	if err != nil {
		t.Fatalf("DecryptKey: %v", err)
	}

	if !bytes.Equal(got, systemKey) {
		t.Fatalf("DecryptKey returned a different key")
	}
}

// TestSeedC03f_EndToEnd_StorageAloneMustNotDecryptPayload runs a whole session on top of the plugin and
// then plays an attacker who has read access to the metastore and the data row, but no KMS access.
func TestSeedC03f_EndToEnd_StorageAloneMustNotDecryptPayload(t *testing.T) {
	const (
		service   = "seedsvc"
		product   = "seedprod"
		partition = "tenant-42"
	)

	crypto := aead.NewAES256GCM()
	metastore := persistence.NewMemoryMetastore()

	regionA := newSeedFakeRegion(seedRegionA, seedARNA)
	regionB := newSeedFakeRegion(seedRegionB, seedARNB)
	regionB.failEncrypt = true // secondary region is down while the system key is being created

	k := seedBuildKMS(t, crypto, regionA, regionB)

	factory := appencryption.NewSessionFactory(
		&appencryption.Config{Service: service, Product: product, Policy: appencryption.NewCryptoPolicy()},
		metastore, k, crypto,
	)
	defer factory.Close()

	session, err := factory.GetSession(partition)
	if err != nil {
		t.Fatal(err)
	}
	defer session.Close()

	payload := []byte("very secret payload: 4111-1111-1111-1111")

	ctx := context.Background()

	drr, err := session.Encrypt(ctx, payload)
	if err != nil {
		t.Fatalf("Encrypt: %v", err)
	}

	// sanity: the legitimate path (with KMS) works
	if got, err := session.Decrypt(ctx, *drr); err != nil || !bytes.Equal(got, payload) {
		t.Fatalf("round trip failed: %v", err)
	}

	// ---- attacker: metastore + data row only, no KMS ----
	skRecord, err := metastore.LoadLatest(ctx, fmt.Sprintf("_SK_%s_%s", service, product))
	if err != nil || skRecord == nil {
		t.Fatalf("no system key record in metastore: %v", err)
	}

	ikRecord, err := metastore.Load(ctx, drr.Key.ParentKeyMeta.ID, drr.Key.ParentKeyMeta.Created)
	if err != nil || ikRecord == nil {
		t.Fatalf("no intermediate key record in metastore: %v", err)
	}

	sk, region, ok := seedUnwrapWithoutKMS(crypto, skRecord.EncryptedKey)
	if !ok {
		return // as it should be: the system key record is opaque without the KMS
	}

	t.Errorf("C03 violated: system key recovered from its metastore record alone (kmsKeks entry for region %s "+
		"holds the data key in plaintext)", region)

	ik, err := crypto.Decrypt(ikRecord.EncryptedKey, sk)
	if err != nil {
		t.Fatalf("unexpected: recovered SK does not open the IK record: %v", err)
	}

	drk, err := crypto.Decrypt(drr.Key.EncryptedKey, ik)
	if err != nil {
		t.Fatalf("unexpected: recovered IK does not open the DRK: %v", err)
	}

	recovered, err := crypto.Decrypt(drr.Data, drk)
	if err != nil {
		t.Fatalf("unexpected: recovered DRK does not open the payload: %v", err)
	}

	t.Errorf("payload recovered from storage alone, with zero KMS calls: %q", recovered)
}

// TestSeedC03f_HealthyRegions_Control is the harmless case: with every region healthy the envelope is
// opaque both before and after the seeded change (shows that ordinary use does not expose the defect).
func TestSeedC03f_HealthyRegions_Control(t *testing.T) {
	crypto := aead.NewAES256GCM()

	regionA := newSeedFakeRegion(seedRegionA, seedARNA)
	regionB := newSeedFakeRegion(seedRegionB, seedARNB)

	k := seedBuildKMS(t, crypto, regionA, regionB)

	systemKey := make([]byte, 32)
	if _, err := rand.Read(systemKey); err != nil {
		t.Fatal(err)
	}

	envelopeJSON, err := k.EncryptKey(context.Background(), append([]byte(nil), systemKey...))
	if err != nil {
		t.Fatal(err)
	}

	var env seedEnvelope
	if err := json.Unmarshal(envelopeJSON, &env); err != nil {
		t.Fatal(err)
	}

	if len(env.KEKs) != 2 {
		t.Fatalf("expected 2 regional KEKs, got %d", len(env.KEKs))
	}

	if _, region, ok := seedUnwrapWithoutKMS(crypto, envelopeJSON); ok {
		t.Fatalf("system key recovered without KMS via region %s", region)
	}
}
