// C03 seed demonstration (unit level).
//
// Placement: go/appencryption/pkg/crypto/aead/c03_seed_nonce_demo_test.go
// Run with:
//
//	export GOPROXY=off GOSUMDB=off GOTOOLCHAIN=local
//	cd go/appencryption && go test -vet=off -count=1 -run 'TestC03Seed' ./pkg/crypto/aead/
//
// Property checked (C03): every AEAD encryption the SDK performs uses a fresh random nonce, so no
// (key, nonce) pair is ever used twice. In particular, if the entropy source cannot deliver a
// nonce, no ciphertext may be produced at all.
//
// The test injects a fault into crypto/rand.Reader that makes exactly the nonce-sized (12 byte)
// reads fail, then encrypts two different messages under the same key (this is what happens when
// an intermediate key wraps two data row keys, or a system key wraps two intermediate keys).
//
// Expected on the unchanged tree: Encrypt refuses to produce output (it panics inside
// internal.FillRandom) -> test passes.
// With the seeded change: both calls succeed and both ciphertexts carry the same all-zero
// nonce -> (key, nonce) reuse -> test fails.
package aead_test

import (
	"bytes"
	"crypto/rand"
	"errors"
	"io"
	"testing"

	"github.com/godaddy/asherah/go/appencryption/pkg/crypto/aead"
)

const c03NonceSize = 12

// c03FaultyEntropy delegates to the real entropy source except for nonce-sized reads while armed.
type c03FaultyEntropy struct {
	real   io.Reader
	armed  bool
	faults int
}

func (r *c03FaultyEntropy) Read(p []byte) (int, error) {
	if r.armed && len(p) == c03NonceSize {
		r.faults++
		return 0, errors.New("injected fault: entropy source unavailable")
	}

	return r.real.Read(p)
}

// c03Encrypt calls Encrypt and converts a panic into refused == true.
func c03Encrypt(data, key []byte) (out []byte, err error, refused bool) {
	defer func() {
		if r := recover(); r != nil {
			refused = true
		}
	}()

	out, err = aead.NewAES256GCM().Encrypt(data, key)

	return out, err, false
}

func TestC03Seed_NoCiphertextWithoutFreshNonce(t *testing.T) {
	faulty := &c03FaultyEntropy{real: rand.Reader}
	orig := rand.Reader
	rand.Reader = faulty

	defer func() { rand.Reader = orig }()

	// the "parent" key: 32 random bytes, obtained while the entropy source still works
	key := make([]byte, 32)
	if _, err := rand.Read(key); err != nil {
		t.Fatal(err)
	}

	// sanity: with a healthy entropy source two encryptions under one key use different nonces
	c1, err1, refused1 := c03Encrypt([]byte("child key material #1 .........."), key)
	c2, err2, refused2 := c03Encrypt([]byte("child key material #2 .........."), key)

	if err1 != nil || err2 != nil || refused1 || refused2 {
		t.Fatalf("healthy encrypt failed: %v %v %v %v", err1, err2, refused1, refused2)
	}

	if bytes.Equal(c1[len(c1)-c03NonceSize:], c2[len(c2)-c03NonceSize:]) {
		t.Fatal("nonce repeated with a healthy entropy source")
	}

	// now the entropy source fails exactly when the nonce is drawn
	faulty.armed = true

	a, errA, refusedA := c03Encrypt([]byte("child key material #3 .........."), key)
	b, errB, refusedB := c03Encrypt([]byte("child key material #4 .........."), key)

	faulty.armed = false

	if faulty.faults == 0 {
		t.Fatal("fault was never injected; demonstration is not exercising the nonce path")
	}

	okA := refusedA || errA != nil
	okB := refusedB || errB != nil

	if okA && okB {
		return // encryption was refused both times: no ciphertext without a fresh nonce
	}

	if !okA {
		t.Errorf("Encrypt produced a ciphertext although no random nonce could be drawn; nonce=%x",
			a[len(a)-c03NonceSize:])
	}

	if !okB {
		t.Errorf("Encrypt produced a ciphertext although no random nonce could be drawn; nonce=%x",
			b[len(b)-c03NonceSize:])
	}

	if !okA && !okB && bytes.Equal(a[len(a)-c03NonceSize:], b[len(b)-c03NonceSize:]) {
		t.Errorf("(key, nonce) pair used for two encryptions: both ciphertexts carry nonce %x under the same key",
			a[len(a)-c03NonceSize:])
	}
}
