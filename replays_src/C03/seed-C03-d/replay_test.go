// Demonstration for seed C03-d.
//
// Placement: go/appencryption/plugins/aws-v2/kms/c03_logleak_demo_test.go
// Run (from go/appencryption, offline):
//
//	export GOPROXY=off GOSUMDB=off GOTOOLCHAIN=local
//	cd go/appencryption && go test -vet=off -count=1 -run 'TestC03Demo' ./plugins/aws-v2/kms/
//
// Scenario: a two-region AWSKMS, debug logging enabled, the secondary region's KMS Encrypt call fails
// (throttling, outage, missing grant, ...). EncryptKey still succeeds (that is the designed behaviour: the failed
// region is simply left out of the envelope). The property under test (C03): no plaintext key bytes may appear in
// any debug log line. The test records every debug log line and looks for the plaintext data key (the KEK that
// wraps the system key) and for the system key itself, in every rendering fmt could give them.
package kms_test

import (
	"bytes"
	"context"
	"encoding/base64"
	"encoding/hex"
	"errors"
	"fmt"
	"strings"
	"sync"
	"testing"

	"github.com/aws/aws-sdk-go-v2/aws"
	awskms "github.com/aws/aws-sdk-go-v2/service/kms"

	"github.com/godaddy/asherah/go/appencryption/pkg/crypto/aead"
	"github.com/godaddy/asherah/go/appencryption/pkg/log"
	"github.com/godaddy/asherah/go/appencryption/plugins/aws-v2/kms"
)

// c03Recorder is a log.Interface that keeps every formatted debug line.
type c03Recorder struct {
	mu    sync.Mutex
	lines []string
}

func (r *c03Recorder) Debugf(format string, v ...interface{}) {
	r.mu.Lock()
	defer r.mu.Unlock()

	r.lines = append(r.lines, fmt.Sprintf(format, v...))
}

func (r *c03Recorder) snapshot() []string {
	r.mu.Lock()
	defer r.mu.Unlock()

	return append([]string(nil), r.lines...)
}

type c03NoopLogger struct{}

func (c03NoopLogger) Debugf(string, ...interface{}) {}

// c03FakeKMS is a deterministic in-memory stand-in for one regional AWS KMS endpoint.
type c03FakeKMS struct {
	region      string
	arn         string
	dataKey     []byte // plaintext returned by GenerateDataKey
	failEncrypt bool
}

func (f *c03FakeKMS) GenerateDataKey(_ context.Context, _ *awskms.GenerateDataKeyInput, _ ...func(*awskms.Options)) (*awskms.GenerateDataKeyOutput, error) {
	return &awskms.GenerateDataKeyOutput{
		KeyId:          aws.String(f.arn),
		Plaintext:      append([]byte(nil), f.dataKey...),
		CiphertextBlob: []byte("wrapped-by-" + f.region),
	}, nil
}

func (f *c03FakeKMS) Encrypt(_ context.Context, _ *awskms.EncryptInput, _ ...func(*awskms.Options)) (*awskms.EncryptOutput, error) {
	if f.failEncrypt {
		return nil, errors.New("ThrottlingException: Rate exceeded")
	}

	return &awskms.EncryptOutput{KeyId: aws.String(f.arn), CiphertextBlob: []byte("wrapped-by-" + f.region)}, nil
}

func (f *c03FakeKMS) Decrypt(_ context.Context, _ *awskms.DecryptInput, _ ...func(*awskms.Options)) (*awskms.DecryptOutput, error) {
	return nil, errors.New("not used")
}

// c03Renderings returns the ways a byte slice can show up in a formatted line.
func c03Renderings(b []byte) map[string]string {
	dec := fmt.Sprintf("%v", b) // [1 2 3]
	return map[string]string{
		"raw":         string(b),
		"decimal":     strings.Trim(dec, "[]"),
		"hex":         hex.EncodeToString(b),
		"HEX":         strings.ToUpper(hex.EncodeToString(b)),
		"hex-spaced":  fmt.Sprintf("% x", b),
		"base64":      base64.StdEncoding.EncodeToString(b),
		"go-syntax":   strings.TrimSuffix(strings.TrimPrefix(fmt.Sprintf("%#v", b), "[]byte{"), "}"),
		"quoted":      strings.Trim(fmt.Sprintf("%q", b), `"`),
		"first-half":  strings.Trim(fmt.Sprintf("%v", b[:len(b)/2]), "[]"),
		"second-half": strings.Trim(fmt.Sprintf("%v", b[len(b)/2:]), "[]"),
	}
}

func TestC03Demo_NoPlaintextKeyInDebugLog_WhenRegionalEncryptFails(t *testing.T) {
	const (
		east    = "us-east-1"
		eastARN = "arn:aws:kms:us-east-1:123456789012:key/11111111-1111-1111-1111-111111111111"
		west    = "us-west-2"
		westARN = "arn:aws:kms:us-west-2:123456789012:key/22222222-2222-2222-2222-222222222222"
	)

	// fixed, recognisable key material (32 bytes each)
	dataKey := bytes.Repeat([]byte{0xA1, 0xB2, 0xC3, 0xD4, 0x15, 0x26, 0x37, 0x48}, 4)
	systemKey := bytes.Repeat([]byte{0x5A, 0x6B, 0x7C, 0x8D, 0x9E, 0xAF, 0x10, 0x21}, 4)
	systemKeyCopy := append([]byte(nil), systemKey...)
	dataKeyCopy := append([]byte(nil), dataKey...)

	rec := &c03Recorder{}
	log.SetLogger(rec)
	defer log.SetLogger(c03NoopLogger{})

	factory := func(cfg aws.Config, _ ...func(*awskms.Options)) kms.AWSClient {
		switch cfg.Region {
		case east:
			return &c03FakeKMS{region: east, arn: eastARN, dataKey: dataKey}
		default:
			// the fault: this region cannot wrap the data key right now
			return &c03FakeKMS{region: west, arn: westARN, dataKey: dataKey, failEncrypt: true}
		}
	}

	m, err := kms.NewBuilder(aead.NewAES256GCM(), map[string]string{east: eastARN, west: westARN}).
		WithPreferredRegion(east).
		WithAWSConfig(aws.Config{}).
		WithKMSFactory(factory).
		Build()
	if err != nil {
		t.Fatalf("build: %v", err)
	}

	envelope, err := m.EncryptKey(context.Background(), systemKey)
	if err != nil {
		t.Fatalf("EncryptKey must tolerate a failing secondary region, got: %v", err)
	}

	lines := rec.snapshot()

	// sanity: the fault was actually exercised and reported
	sawFault := false
	for _, l := range lines {
		if strings.Contains(l, "ThrottlingException") {
			sawFault = true
		}
	}

	if !sawFault {
		t.Fatalf("expected the failing region to be reported in the debug log; lines: %q", lines)
	}

	check := func(what string, key []byte, haystackName, haystack string) {
		for name, r := range c03Renderings(key) {
			if strings.Contains(haystack, r) {
				t.Errorf("C03 violated: plaintext %s appears (%s rendering) in %s:\n    %s", what, name, haystackName, haystack)
				return
			}
		}
	}

	for i, l := range lines {
		check("KMS data key (KEK)", dataKeyCopy, fmt.Sprintf("debug log line %d", i), l)
		check("system key", systemKeyCopy, fmt.Sprintf("debug log line %d", i), l)
	}

	// the envelope goes into the metastore record: it must not carry plaintext either
	check("KMS data key (KEK)", dataKeyCopy, "KMS envelope", string(envelope))
	check("system key", systemKeyCopy, "KMS envelope", string(envelope))
}
