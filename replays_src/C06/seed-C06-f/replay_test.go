// Demonstration for seed C06-f (partition isolation).
//
// PLACE THIS FILE AT:  go/appencryption/partition_isolation_demo_test.go
// RUN WITH:
//
//	export GOPROXY=off GOSUMDB=off GOTOOLCHAIN=local
//	cd go/appencryption && go test -vet=off -count=1 -run 'TestDemoC06' -v .
//
// Expected: PASS on the unchanged tree, FAIL with the seeded change applied.
//
// What it checks: for pairs of DISTINCT partition ids that differ only by
// leading/trailing whitespace (e.g. "alice" and "alice\n", as happens when a
// tenant id is read from a file, an env var or a CSV column), a session opened
// for one id must return an error - never the plaintext - for a data row record
// produced by a session opened for the other id. It is exercised with and
// without a region-suffixing metastore and with the different cache
// configurations (default, no cache, session cache, shared IK cache).
package appencryption_test

import (
	"context"
	"fmt"
	"testing"

	"github.com/godaddy/asherah/go/appencryption"
	"github.com/godaddy/asherah/go/appencryption/pkg/crypto/aead"
	"github.com/godaddy/asherah/go/appencryption/pkg/kms"
	"github.com/godaddy/asherah/go/appencryption/pkg/persistence"
)

// suffixedMemoryMetastore is an in-memory metastore that reports a region suffix,
// which makes the session factory use region-suffixed key ids.
type suffixedMemoryMetastore struct {
	*persistence.MemoryMetastore
	suffix string
}

func (m *suffixedMemoryMetastore) GetRegionSuffix() string { return m.suffix }

func TestDemoC06_WhitespacePaddedPartitionIDsStayIsolated(t *testing.T) {
	const secret = "top secret payload of the OTHER tenant"

	policies := map[string]func() *appencryption.CryptoPolicy{
		"default-policy": func() *appencryption.CryptoPolicy { return appencryption.NewCryptoPolicy() },
		"no-cache":       func() *appencryption.CryptoPolicy { return appencryption.NewCryptoPolicy(appencryption.WithNoCache()) },
		"session-cache": func() *appencryption.CryptoPolicy {
			return appencryption.NewCryptoPolicy(appencryption.WithSessionCache())
		},
		"shared-ik-cache": func() *appencryption.CryptoPolicy {
			return appencryption.NewCryptoPolicy(appencryption.WithSharedIntermediateKeyCache(100))
		},
	}

	metastores := map[string]func() appencryption.Metastore{
		"plain-metastore": func() appencryption.Metastore { return persistence.NewMemoryMetastore() },
		"region-suffixed-metastore": func() appencryption.Metastore {
			return &suffixedMemoryMetastore{MemoryMetastore: persistence.NewMemoryMetastore(), suffix: "us-west-2"}
		},
	}

	// (writer partition, reader partition): always two distinct strings.
	pairs := [][2]string{
		{"alice", "alice "},
		{"alice", " alice"},
		{"alice", "alice\n"},
		{"alice", "\talice"},
		{"alice\n", "alice"},
		{"alice ", "alice\t"},
		{"tenant_1", "tenant_1\r\n"},
	}

	for mName, newMetastore := range metastores {
		for pName, newPolicy := range policies {
			for _, pair := range pairs {
				writerID, readerID := pair[0], pair[1]
				name := fmt.Sprintf("%s/%s/%q->%q", mName, pName, writerID, readerID)

				t.Run(name, func(t *testing.T) {
					ctx := context.Background()
					crypto := aead.NewAES256GCM()

					km, err := kms.NewStatic("thisIsAStaticMasterKeyForTesting", crypto)
					if err != nil {
						t.Fatalf("kms: %v", err)
					}
					defer km.Close()

					factory := appencryption.NewSessionFactory(
						&appencryption.Config{Service: "svc", Product: "prod", Policy: newPolicy()},
						newMetastore(), km, crypto,
					)
					defer factory.Close()

					writer, err := factory.GetSession(writerID)
					if err != nil {
						t.Fatalf("GetSession(%q): %v", writerID, err)
					}

					drr, err := writer.Encrypt(ctx, []byte(secret))
					if err != nil {
						t.Fatalf("Encrypt: %v", err)
					}

					// sanity: the writer itself can read its record (this also warms every cache)
					if pt, err := writer.Decrypt(ctx, *drr); err != nil || string(pt) != secret {
						t.Fatalf("writer cannot read own record: %q, %v", pt, err)
					}

					writer.Close()

					reader, err := factory.GetSession(readerID)
					if err != nil {
						// refusing the session outright is also an acceptable way to stay isolated
						return
					}
					defer reader.Close()

					pt, err := reader.Decrypt(ctx, *drr)
					if err == nil {
						t.Errorf("PARTITION ISOLATION BROKEN: session for partition %q decrypted a record produced for partition %q (record key id %q): got %q",
							readerID, writerID, drr.Key.ParentKeyMeta.ID, pt)
					}

					if pt != nil {
						t.Errorf("plaintext returned across partitions: %q", pt)
					}
				})
			}
		}
	}
}

// The empty partition id must still be refused (holds with and without the change).
func TestDemoC06_EmptyPartitionIDRefused(t *testing.T) {
	crypto := aead.NewAES256GCM()

	km, err := kms.NewStatic("thisIsAStaticMasterKeyForTesting", crypto)
	if err != nil {
		t.Fatal(err)
	}
	defer km.Close()

	factory := appencryption.NewSessionFactory(
		&appencryption.Config{Service: "svc", Product: "prod", Policy: appencryption.NewCryptoPolicy()},
		persistence.NewMemoryMetastore(), km, crypto,
	)
	defer factory.Close()

	if s, err := factory.GetSession(""); err == nil || s != nil {
		t.Fatalf("empty partition id was not refused")
	}
}
