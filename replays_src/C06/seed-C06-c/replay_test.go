// C06 demonstration (seed 3): a cached session is handed out for a different partition id.
//
// Placement: go/appencryption/zz_c06_session_alias_demo_test.go   (module github.com/godaddy/asherah/go/appencryption)
// Run with:
//
//	export GOPROXY=off GOSUMDB=off GOTOOLCHAIN=local
//	cd go/appencryption && go test -vet=off -count=1 -run 'TestC06Demo' -v .
//
// Expected: PASS on the unchanged tree, FAIL with the seeded change to session_cache.go applied.
package appencryption_test

import (
	"context"
	"testing"

	"github.com/stretchr/testify/assert"
	"github.com/stretchr/testify/require"

	"github.com/godaddy/asherah/go/appencryption"
	"github.com/godaddy/asherah/go/appencryption/pkg/crypto/aead"
	"github.com/godaddy/asherah/go/appencryption/pkg/kms"
	"github.com/godaddy/asherah/go/appencryption/pkg/persistence"
)

const (
	c06Secret = "c06-demo: partition A's secret payload"
	c06Master = "thisIsAStaticMasterKeyForTesting" // 32 bytes
)

// c06SuffixedMetastore is the in-memory metastore made to look like a region-suffixing one (e.g. DynamoDB
// global tables), so that the factory builds suffixed partitions.
type c06SuffixedMetastore struct {
	*persistence.MemoryMetastore
	suffix string
}

func (m c06SuffixedMetastore) GetRegionSuffix() string { return m.suffix }

func c06Factory(t *testing.T, store appencryption.Metastore, cacheSessions bool) *appencryption.SessionFactory {
	t.Helper()

	crypto := aead.NewAES256GCM()

	k, err := kms.NewStatic(c06Master, crypto)
	require.NoError(t, err)

	policy := appencryption.NewCryptoPolicy()
	policy.CacheSessions = cacheSessions

	return appencryption.NewSessionFactory(&appencryption.Config{
		Policy:  policy,
		Service: "svc",
		Product: "prod",
	}, store, k, crypto)
}

func c06Run(t *testing.T, store appencryption.Metastore, cacheSessions bool, partA, partB, wantParentID string) {
	ctx := context.Background()

	factory := c06Factory(t, store, cacheSessions)
	defer factory.Close()

	// step 1: partition A writes a record; with session caching on, A's session stays in the cache
	sessA, err := factory.GetSession(partA)
	require.NoError(t, err)

	drr, err := sessA.Encrypt(ctx, []byte(c06Secret))
	require.NoError(t, err)
	require.Equal(t, wantParentID, drr.Key.ParentKeyMeta.ID)

	back, err := sessA.Decrypt(ctx, *drr)
	require.NoError(t, err)
	require.Equal(t, c06Secret, string(back))
	require.NoError(t, sessA.Close())

	// step 2: a session is opened for the distinct partition B and is given A's record
	require.NotEqual(t, partA, partB)

	sessB, err := factory.GetSession(partB)
	require.NoError(t, err)

	defer sessB.Close()

	got, err := sessB.Decrypt(ctx, *drr)
	assert.Error(t, err, "session for %q must refuse a record produced for %q", partB, partA)
	assert.Nil(t, got, "session for %q returned plaintext of partition %q: %q", partB, partA, got)
}

func TestC06Demo_SessionForOtherPartitionNeverDecrypts(t *testing.T) {
	cases := []struct {
		name         string
		partA, partB string
	}{
		{"uuid-like ids differing in case", "7f3c2a9e-11d4-4b7e-9a51-0c2d5e8fa001", "7F3C2A9E-11D4-4B7E-9A51-0C2D5E8FA001"},
		{"mixed case tenant names", "tenant_Acme", "tenant_acme"},
		{"unrelated ids (control)", "tenant_acme", "tenant_bolt"},
	}

	for _, tc := range cases {
		for _, cached := range []bool{false, true} {
			name := tc.name + "/cold"
			if cached {
				name = tc.name + "/session-cache-warm"
			}

			t.Run(name+"/plain-metastore", func(t *testing.T) {
				c06Run(t, persistence.NewMemoryMetastore(), cached, tc.partA, tc.partB,
					"_IK_"+tc.partA+"_svc_prod")
			})

			t.Run(name+"/region-suffixed-metastore", func(t *testing.T) {
				store := c06SuffixedMetastore{MemoryMetastore: persistence.NewMemoryMetastore(), suffix: "us-west-2"}
				c06Run(t, store, cached, tc.partA, tc.partB,
					"_IK_"+tc.partA+"_svc_prod_us-west-2")
			})
		}
	}
}
