// C06 demonstration: partition isolation with a shared intermediate-key cache.
//
// Placement: go/appencryption/c06_partition_isolation_demo_test.go
//            (i.e. next to envelope.go, in the github.com/godaddy/asherah/go/appencryption module)
//
// Run:
//   cd go/appencryption && \
//     GOPROXY=off GOSUMDB=off GOTOOLCHAIN=local \
//     go test -vet=off -count=1 -run 'TestC06Demo' -v .
//
// Expected: PASS on the unchanged tree, FAIL (the *_WarmSharedCache_* tests) with the seeded change.
package appencryption_test

import (
	"context"
	"testing"

	"github.com/stretchr/testify/assert"
	"github.com/stretchr/testify/require"

	"github.com/godaddy/asherah/go/appencryption"
	"github.com/godaddy/asherah/go/appencryption/pkg/crypto/aead"
	"github.com/godaddy/asherah/go/appencryption/pkg/kms"
	"github.com/godaddy/asherah/go/appencryption/pkg/persistence"
)

const (
	c06Service   = "svc"
	c06Product   = "prod"
	c06StaticKey = "thisIsAStaticMasterKeyForTesting"
	c06Secret    = "bob's very private payload"
)

// c06SuffixedMetastore turns any Metastore into a "region-suffixing" one, the same way the
// DynamoDB metastores advertise it to the SessionFactory.
type c06SuffixedMetastore struct {
	appencryption.Metastore
	suffix string
}

func (m c06SuffixedMetastore) GetRegionSuffix() string { return m.suffix }

func c06NewFactory(t *testing.T, store appencryption.Metastore, opts ...appencryption.PolicyOption) *appencryption.SessionFactory {
	t.Helper()

	crypto := aead.NewAES256GCM()

	k, err := kms.NewStatic(c06StaticKey, crypto)
	require.NoError(t, err)

	cfg := &appencryption.Config{
		Service: c06Service,
		Product: c06Product,
		Policy:  appencryption.NewCryptoPolicy(opts...),
	}

	return appencryption.NewSessionFactory(cfg, store, k, crypto)
}

// c06EncryptAs encrypts c06Secret in a session for the given partition and (optionally) keeps
// the partition's IK warm in whichever IK cache the factory is using.
func c06EncryptAs(t *testing.T, f *appencryption.SessionFactory, partition string) *appencryption.DataRowRecord {
	t.Helper()

	s, err := f.GetSession(partition)
	require.NoError(t, err)

	defer s.Close()

	drr, err := s.Encrypt(context.Background(), []byte(c06Secret))
	require.NoError(t, err)

	// sanity: the owner can read its own record
	got, err := s.Decrypt(context.Background(), *drr)
	require.NoError(t, err)
	require.Equal(t, c06Secret, string(got))

	return drr
}

// c06AssertRejected opens a session for `reader` and asserts that it gets an error and no plaintext
// for a record which belongs to another partition.
func c06AssertRejected(t *testing.T, f *appencryption.SessionFactory, reader string, drr *appencryption.DataRowRecord) {
	t.Helper()

	s, err := f.GetSession(reader)
	require.NoError(t, err)

	defer s.Close()

	got, err := s.Decrypt(context.Background(), *drr)

	assert.Errorf(t, err, "session for partition %q decrypted a record of partition key %q", reader, drr.Key.ParentKeyMeta.ID)
	assert.NotEqualf(t, c06Secret, string(got), "session for partition %q obtained another partition's plaintext", reader)
	assert.Nil(t, got)
}

// The interesting case: shared IK cache enabled (non-default policy), and the victim partition's IK
// is already sitting in that cache because the victim's session used it a moment ago.
func TestC06Demo_WarmSharedCache_DefaultPartition(t *testing.T) {
	f := c06NewFactory(t, persistence.NewMemoryMetastore(), appencryption.WithSharedIntermediateKeyCache(100))
	defer f.Close()

	drr := c06EncryptAs(t, f, "bob") // warms the shared IK cache with bob's IK

	c06AssertRejected(t, f, "alice", drr)
}

// Same thing with a region-suffixing metastore (suffixedPartition code path).
func TestC06Demo_WarmSharedCache_SuffixedPartition(t *testing.T) {
	store := c06SuffixedMetastore{Metastore: persistence.NewMemoryMetastore(), suffix: "us-west-2"}

	f := c06NewFactory(t, store, appencryption.WithSharedIntermediateKeyCache(100))
	defer f.Close()

	drr := c06EncryptAs(t, f, "bob")
	require.Equal(t, "_IK_bob_svc_prod_us-west-2", drr.Key.ParentKeyMeta.ID)

	c06AssertRejected(t, f, "alice", drr)
}

// Same thing with the session cache switched on as well, and with the reader's own session already
// established (and its own IK cached) before it is handed the foreign record.
func TestC06Demo_WarmSharedCache_WithSessionCache(t *testing.T) {
	f := c06NewFactory(t, persistence.NewMemoryMetastore(),
		appencryption.WithSharedIntermediateKeyCache(100),
		appencryption.WithSessionCache(),
	)
	defer f.Close()

	_ = c06EncryptAs(t, f, "alice")
	drr := c06EncryptAs(t, f, "bob")

	c06AssertRejected(t, f, "alice", drr)
}

// Controls: these pass with and without the seeded change. They show why ordinary use (and the
// existing suites) do not notice anything.
func TestC06Demo_Control_ColdSharedCache(t *testing.T) {
	store := persistence.NewMemoryMetastore()

	writer := c06NewFactory(t, store, appencryption.WithSharedIntermediateKeyCache(100))
	drr := c06EncryptAs(t, writer, "bob")
	require.NoError(t, writer.Close())

	// New factory over the same metastore: the shared cache does not hold bob's IK.
	f := c06NewFactory(t, store, appencryption.WithSharedIntermediateKeyCache(100))
	defer f.Close()

	c06AssertRejected(t, f, "alice", drr)
}

func TestC06Demo_Control_PerSessionCache(t *testing.T) {
	f := c06NewFactory(t, persistence.NewMemoryMetastore()) // default policy: per-session IK caches
	defer f.Close()

	drr := c06EncryptAs(t, f, "bob")

	c06AssertRejected(t, f, "alice", drr)
}
