package appencryption_test

// Replay for obligation (suffixedPartition).IsValidIntermediateKeyID/post:isolation (property C06).
// Solver counterexample shape: q != p but ikid(q,s,pr) has ikid(p,s,pr) as a prefix, e.g. q = p+"_"+s+"_"+pr.
// Injected by `go test -overlay`; nothing is written to /repo.

import (
	"context"
	"testing"

	"github.com/godaddy/asherah/go/appencryption"
	"github.com/godaddy/asherah/go/appencryption/pkg/crypto/aead"
	"github.com/godaddy/asherah/go/appencryption/pkg/kms"
	"github.com/godaddy/asherah/go/appencryption/pkg/persistence"
)

type suffixedStore struct {
	*persistence.MemoryMetastore
}

func (suffixedStore) GetRegionSuffix() string { return "us-west-2" }

func TestGocvReplay_SuffixedPartitionIsolation(t *testing.T) {
	crypto := aead.NewAES256GCM()
	k, err := kms.NewStatic("thisIsAStaticMasterKeyForTesting", crypto)
	if err != nil {
		t.Fatal(err)
	}
	cfg := &appencryption.Config{Service: "svc", Product: "prod", Policy: appencryption.NewCryptoPolicy()}
	f := appencryption.NewSessionFactory(cfg, suffixedStore{persistence.NewMemoryMetastore()}, k, crypto)
	defer f.Close()

	p, q := "a", "a_svc_prod"
	sq, err := f.GetSession(q)
	if err != nil {
		t.Fatal(err)
	}
	defer sq.Close()
	secret := []byte("payload of partition " + q)
	drr, err := sq.Encrypt(context.Background(), secret)
	if err != nil {
		t.Fatal(err)
	}
	sp, err := f.GetSession(p)
	if err != nil {
		t.Fatal(err)
	}
	defer sp.Close()
	got, err := sp.Decrypt(context.Background(), *drr)
	if err == nil {
		t.Fatalf("CONTRACT VIOLATED (C06 isolation): session for partition %q decrypted a record of partition %q (key id %q): %q", p, q, drr.Key.ParentKeyMeta.ID, got)
	}
}
