package server

// Replay for the nil-session obligations of defaultHandler (property C19).
// Injected by `go test -overlay`; nothing is written to /repo.

import (
	"context"
	"fmt"
	"io"
	"testing"
	"time"

	"google.golang.org/grpc/metadata"

	pb "github.com/godaddy/asherah/server/go/api"
)

type gocvStream struct {
	reqs []*pb.SessionRequest
	next int
	out  []*pb.SessionResponse
}

func (s *gocvStream) Recv() (*pb.SessionRequest, error) {
	if s.next >= len(s.reqs) {
		return nil, io.EOF
	}
	r := s.reqs[s.next]
	s.next++
	return r, nil
}
func (s *gocvStream) Send(r *pb.SessionResponse) error { s.out = append(s.out, r); return nil }
func (s *gocvStream) SetHeader(metadata.MD) error      { return nil }
func (s *gocvStream) SendHeader(metadata.MD) error     { return nil }
func (s *gocvStream) SetTrailer(metadata.MD)           {}
func (s *gocvStream) Context() context.Context         { return context.Background() }
func (s *gocvStream) SendMsg(interface{}) error        { return nil }
func (s *gocvStream) RecvMsg(interface{}) error        { return nil }

func gocvRun(t *testing.T, reqs ...*pb.SessionRequest) {
	ae := NewAppEncryption(&Options{ServiceName: "svc", ProductID: "prod", KMS: "static", Metastore: "memory", ExpireAfter: time.Hour, CheckInterval: time.Hour})
	st := &gocvStream{reqs: reqs}
	var err error
	func() {
		defer func() {
			if r := recover(); r != nil {
				err = fmt.Errorf("panic: %v", r)
			}
		}()
		err = ae.NewStreamer().Stream(st)
	}()
	if err != nil {
		t.Fatalf("CONTRACT VIOLATED (C19 no request sequence crashes the sidecar): %v after %d responses", err, len(st.out))
	}
	if len(st.out) != len(reqs) {
		t.Fatalf("CONTRACT VIOLATED (C19 one response per request): %d requests, %d responses", len(reqs), len(st.out))
	}
	for i, r := range st.out {
		if r == nil {
			t.Fatalf("CONTRACT VIOLATED (C19): nil response to request %d", i)
		}
	}
}

func gocvGetSession(id string) *pb.SessionRequest {
	return &pb.SessionRequest{Request: &pb.SessionRequest_GetSession{GetSession: &pb.GetSession{PartitionId: id}}}
}

func TestGocvReplay_RejectedGetSessionThenEOF(t *testing.T) { gocvRun(t, gocvGetSession("")) }

func TestGocvReplay_RejectedGetSessionThenEncrypt(t *testing.T) {
	gocvRun(t, gocvGetSession(""), &pb.SessionRequest{Request: &pb.SessionRequest_Encrypt{Encrypt: &pb.Encrypt{Data: []byte("x")}}})
}

func TestGocvReplay_RejectedGetSessionThenDecrypt(t *testing.T) {
	gocvRun(t, gocvGetSession(""), &pb.SessionRequest{Request: &pb.SessionRequest_Decrypt{Decrypt: &pb.Decrypt{DataRowRecord: &pb.DataRowRecord{}}}})
}
