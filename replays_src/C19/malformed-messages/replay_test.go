package server

// Replay bank for C19 obligations about malformed messages. Injected by `go test -overlay`.

import (
	"context"
	"fmt"
	"io"
	"testing"
	"time"

	"google.golang.org/grpc/metadata"

	pb "github.com/godaddy/asherah/server/go/api"
)

type bankStream struct {
	steps []func(prev []*pb.SessionResponse) *pb.SessionRequest
	next  int
	out   []*pb.SessionResponse
}

func (s *bankStream) Recv() (*pb.SessionRequest, error) {
	if s.next >= len(s.steps) {
		return nil, io.EOF
	}
	r := s.steps[s.next](s.out)
	s.next++
	return r, nil
}
func (s *bankStream) Send(r *pb.SessionResponse) error { s.out = append(s.out, r); return nil }
func (s *bankStream) SetHeader(metadata.MD) error      { return nil }
func (s *bankStream) SendHeader(metadata.MD) error     { return nil }
func (s *bankStream) SetTrailer(metadata.MD)           {}
func (s *bankStream) Context() context.Context         { return context.Background() }
func (s *bankStream) SendMsg(interface{}) error        { return nil }
func (s *bankStream) RecvMsg(interface{}) error        { return nil }

type step = func(prev []*pb.SessionResponse) *pb.SessionRequest

func fixed(r *pb.SessionRequest) step { return func([]*pb.SessionResponse) *pb.SessionRequest { return r } }

func bankRun(t *testing.T, steps ...step) []*pb.SessionResponse {
	ae := NewAppEncryption(&Options{ServiceName: "svc", ProductID: "prod", KMS: "static", Metastore: "memory", ExpireAfter: time.Hour, CheckInterval: time.Hour})
	st := &bankStream{steps: steps}
	var err error
	func() {
		defer func() {
			if r := recover(); r != nil {
				err = fmt.Errorf("panic: %v", r)
			}
		}()
		err = ae.NewStreamer().Stream(st)
	}()
	if err != nil {
		t.Fatalf("CONTRACT VIOLATED (C19 no request sequence crashes the sidecar): %v after %d responses", err, len(st.out))
	}
	if len(st.out) != len(steps) {
		t.Fatalf("CONTRACT VIOLATED (C19 one response per request): %d requests, %d responses", len(steps), len(st.out))
	}
	for i, r := range st.out {
		if r == nil {
			t.Fatalf("CONTRACT VIOLATED (C19): nil response to request %d", i)
		}
	}
	return st.out
}

func getSession(id string) step {
	return fixed(&pb.SessionRequest{Request: &pb.SessionRequest_GetSession{GetSession: &pb.GetSession{PartitionId: id}}})
}
func encrypt(data []byte) step {
	return fixed(&pb.SessionRequest{Request: &pb.SessionRequest_Encrypt{Encrypt: &pb.Encrypt{Data: data}}})
}
func decrypt(drr *pb.DataRowRecord) *pb.SessionRequest {
	return &pb.SessionRequest{Request: &pb.SessionRequest_Decrypt{Decrypt: &pb.Decrypt{DataRowRecord: drr}}}
}

// genuine returns a deep copy of the record produced by the encrypt at position i.
func genuine(prev []*pb.SessionResponse, i int) *pb.DataRowRecord {
	d := prev[i].GetEncryptResponse().GetDataRowRecord()
	return &pb.DataRowRecord{
		Data: append([]byte(nil), d.GetData()...),
		Key: &pb.EnvelopeKeyRecord{Created: d.GetKey().GetCreated(), Key: append([]byte(nil), d.GetKey().GetKey()...),
			ParentKeyMeta: &pb.KeyMeta{KeyId: d.GetKey().GetParentKeyMeta().GetKeyId(), Created: d.GetKey().GetParentKeyMeta().GetCreated()}},
	}
}

func TestGocvReplayBank_DamagedRecords(t *testing.T) {
	payload := []byte("payload")
	out := bankRun(t,
		getSession("p"), encrypt(payload),
		func(prev []*pb.SessionResponse) *pb.SessionRequest { d := genuine(prev, 1); d.Key.ParentKeyMeta = nil; return decrypt(d) },
		func(prev []*pb.SessionResponse) *pb.SessionRequest { d := genuine(prev, 1); d.Key = nil; return decrypt(d) },
		func(prev []*pb.SessionResponse) *pb.SessionRequest { d := genuine(prev, 1); d.Data = nil; return decrypt(d) },
		func(prev []*pb.SessionResponse) *pb.SessionRequest { d := genuine(prev, 1); d.Key.Key = nil; return decrypt(d) },
		func(prev []*pb.SessionResponse) *pb.SessionRequest { return decrypt(nil) },
		func(prev []*pb.SessionResponse) *pb.SessionRequest { return decrypt(&pb.DataRowRecord{}) },
		func(prev []*pb.SessionResponse) *pb.SessionRequest { return decrypt(genuine(prev, 1)) },
	)
	for i := 2; i <= 7; i++ {
		if out[i].GetErrorResponse() == nil {
			t.Fatalf("CONTRACT VIOLATED (C19): damaged record %d was not answered with an error response: %v", i, out[i])
		}
	}
	if string(out[8].GetDecryptResponse().GetData()) != string(payload) {
		t.Fatalf("CONTRACT VIOLATED (C19): genuine record no longer round-trips after damaged ones: %v", out[8])
	}
}

func TestGocvReplayBank_EmptyOneofPayloads(t *testing.T) {
	bankRun(t,
		fixed(&pb.SessionRequest{Request: &pb.SessionRequest_Encrypt{}}),
		fixed(&pb.SessionRequest{Request: &pb.SessionRequest_Decrypt{}}),
		fixed(&pb.SessionRequest{Request: &pb.SessionRequest_GetSession{}}),
		fixed(&pb.SessionRequest{Request: &pb.SessionRequest_Encrypt{}}),
		fixed(&pb.SessionRequest{Request: &pb.SessionRequest_Decrypt{}}),
		getSession("p"),
	)
}

func TestGocvReplayBank_Protocol(t *testing.T) {
	out := bankRun(t, encrypt([]byte("x")), fixed(decrypt(&pb.DataRowRecord{})), getSession("p"), getSession("q"), encrypt(nil), encrypt([]byte{}))
	if out[0] != UninitializedSessionResponse || out[1] != UninitializedSessionResponse {
		t.Fatalf("CONTRACT VIOLATED (C19): encrypt/decrypt before get-session not refused")
	}
	if out[3] != SessionAlreadyInitializedResponse {
		t.Fatalf("CONTRACT VIOLATED (C19): second get-session not refused")
	}
}
