// Demonstration for seeded defect C19 (#3): a rejected get-session leaves a
// typed-nil *appencryption.Session inside defaultHandler.session, so any
// further encrypt/decrypt on that stream - or simply the end of the stream -
// dereferences a nil pointer and panics the stream handler (which, in the real
// sidecar, takes the whole process down).
//
// Placement: server/go/pkg/server/c19_rejected_getsession_demo_test.go
//            (package server, i.e. next to server.go)
//
// Run with:
//   export GOPROXY=off GOSUMDB=off GOTOOLCHAIN=local GOFLAGS=-mod=mod
//   cd server/go && go test -vet=off -count=1 -run 'Test_C19Demo' ./pkg/server/
//
// Expected: PASS on the unchanged tree, FAIL with the seeded change applied.
package server

import (
	"context"
	"fmt"
	"io"
	"runtime/debug"
	"testing"

	"google.golang.org/grpc/metadata"

	pb "github.com/godaddy/asherah/server/go/api"
)

// scriptedStream is a deterministic in-memory pb.AppEncryption_SessionServer: it
// feeds the handler a fixed list of requests, then io.EOF, and records every
// response that is sent.
type scriptedStream struct {
	reqs  []*pb.SessionRequest
	next  int
	resps []*pb.SessionResponse
}

func (s *scriptedStream) Recv() (*pb.SessionRequest, error) {
	if s.next >= len(s.reqs) {
		return nil, io.EOF
	}

	r := s.reqs[s.next]
	s.next++

	return r, nil
}

func (s *scriptedStream) Send(r *pb.SessionResponse) error {
	s.resps = append(s.resps, r)
	return nil
}

func (s *scriptedStream) SetHeader(metadata.MD) error  { return nil }
func (s *scriptedStream) SendHeader(metadata.MD) error { return nil }
func (s *scriptedStream) SetTrailer(metadata.MD)       {}
func (s *scriptedStream) Context() context.Context     { return context.Background() }
func (s *scriptedStream) SendMsg(interface{}) error    { return nil }
func (s *scriptedStream) RecvMsg(interface{}) error    { return nil }

func getSessionReq(id string) *pb.SessionRequest {
	return &pb.SessionRequest{
		Request: &pb.SessionRequest_GetSession{GetSession: &pb.GetSession{PartitionId: id}},
	}
}

func encryptReq(data string) *pb.SessionRequest {
	return &pb.SessionRequest{
		Request: &pb.SessionRequest_Encrypt{Encrypt: &pb.Encrypt{Data: []byte(data)}},
	}
}

func decryptReq(drr *pb.DataRowRecord) *pb.SessionRequest {
	return &pb.SessionRequest{
		Request: &pb.SessionRequest_Decrypt{Decrypt: &pb.Decrypt{DataRowRecord: drr}},
	}
}

// runStream drives one server stream over the real (static KMS, in-memory
// metastore) sidecar and converts a handler panic into an error.
func runStream(ae *AppEncryption, reqs ...*pb.SessionRequest) (resps []*pb.SessionResponse, err error) {
	stream := &scriptedStream{reqs: reqs}

	defer func() {
		resps = stream.resps

		if p := recover(); p != nil {
			err = fmt.Errorf("stream handler PANICKED after %d of %d requests: %v\n%s",
				stream.next, len(reqs), p, debug.Stack())
		}
	}()

	return nil, ae.Session(stream)
}

func newDemoServer() *AppEncryption {
	return NewAppEncryption(&Options{
		ServiceName: "svc",
		ProductID:   "prod",
		KMS:         "static",
		Metastore:   "memory",
	})
}

func isError(r *pb.SessionResponse) bool {
	return r != nil && r.GetErrorResponse() != nil
}

// A rejected get-session (empty partition id) followed directly by end of stream
// must not panic.
func Test_C19Demo_RejectedGetSession_ThenEOF(t *testing.T) {
	resps, err := runStream(newDemoServer(), getSessionReq(""))
	if err != nil {
		t.Fatalf("rejected get-session followed by end-of-stream: %v", err)
	}

	if len(resps) != 1 || !isError(resps[0]) {
		t.Fatalf("want exactly one error response, got %v", resps)
	}
}

// A rejected get-session followed by encrypt / decrypt / another get-session:
// every request gets exactly one (error) response and nothing panics.
func Test_C19Demo_RejectedGetSession_ThenRequests(t *testing.T) {
	ae := newDemoServer()

	// Obtain a genuine record on a separate, well-behaved stream.
	good, err := runStream(ae, getSessionReq("partition-1"), encryptReq("secret"))
	if err != nil {
		t.Fatalf("well-behaved stream failed: %v", err)
	}

	if len(good) != 2 || good[1].GetEncryptResponse() == nil {
		t.Fatalf("well-behaved stream: unexpected responses %v", good)
	}

	genuine := good[1].GetEncryptResponse().GetDataRowRecord()

	for name, follow := range map[string]*pb.SessionRequest{
		"encrypt":         encryptReq("secret"),
		"decrypt-genuine": decryptReq(genuine),
		"decrypt-empty":   decryptReq(nil),
	} {
		follow := follow

		t.Run(name, func(t *testing.T) {
			resps, err := runStream(ae, getSessionReq(""), follow, getSessionReq("partition-1"))
			if err != nil {
				t.Fatalf("rejected get-session followed by %s: %v", name, err)
			}

			if len(resps) != 3 {
				t.Fatalf("want 3 responses (one per request), got %d: %v", len(resps), resps)
			}

			for i, r := range resps {
				if !isError(r) {
					t.Errorf("response %d: want an error response, got %v", i, r)
				}
			}
		})
	}
}

// Sanity: the happy path still round-trips (passes with and without the change).
func Test_C19Demo_HappyPathRoundTrip(t *testing.T) {
	ae := newDemoServer()

	r1, err := runStream(ae, getSessionReq("partition-1"), encryptReq("secret"))
	if err != nil || len(r1) != 2 || r1[1].GetEncryptResponse() == nil {
		t.Fatalf("encrypt stream: err=%v resps=%v", err, r1)
	}

	r2, err := runStream(ae, getSessionReq("partition-1"),
		decryptReq(r1[1].GetEncryptResponse().GetDataRowRecord()))
	if err != nil || len(r2) != 2 || string(r2[1].GetDecryptResponse().GetData()) != "secret" {
		t.Fatalf("decrypt stream: err=%v resps=%v", err, r2)
	}
}
