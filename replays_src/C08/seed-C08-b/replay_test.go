// C08 seed demonstration (seed C08-b).
//
// PLACE THIS FILE AT:   go/appencryption/c08_seed_demo_test.go   (package appencryption, in-package test)
//
// RUN WITH:
//
//	cd go/appencryption && GOPROXY=off GOSUMDB=off GOTOOLCHAIN=local \
//	    go test -vet=off -count=1 -run 'TestC08Seed' -v .
//
// Expected: PASS on the unchanged tree, FAIL with the seeded change to keyCache.GetOrLoad applied.
//
// What is forced: two goroutines call keyCache.GetOrLoad for the same, not yet cached, key and BOTH miss on the
// read-locked fast path before either of them gets the write lock. The loser of the race for the write lock then
// finds the key on the "loaded by the rw lock in front of us" re-check. The interleaving is forced deterministically
// by decorating the cache's backing store (keyCache.keys) with a rendezvous on its first two Get calls: both calls are
// made under the shared read lock, so neither goroutine can reach the write-locked section before both have missed.
// No sleeps are needed for correctness (the rendezvous only has a generous timeout so a broken run cannot hang).
package appencryption

import (
	"context"
	"crypto/aes"
	"crypto/cipher"
	"crypto/rand"
	"errors"
	"fmt"
	"sync"
	"sync/atomic"
	"testing"
	"time"

	"github.com/godaddy/asherah/go/securememory/memguard"

	"github.com/godaddy/asherah/go/appencryption/internal"
	"github.com/godaddy/asherah/go/appencryption/pkg/cache"
)

// ---------------------------------------------------------------------------------------------------------------
// fakes
// ---------------------------------------------------------------------------------------------------------------

// c08Rendezvous decorates a cache.Interface: the first two calls of Get wait for each other before they proceed.
type c08Rendezvous struct {
	cache.Interface[string, cacheEntry]

	calls   atomic.Int32
	arrived chan struct{}
	met     atomic.Bool
}

func newC08Rendezvous(inner cache.Interface[string, cacheEntry]) *c08Rendezvous {
	return &c08Rendezvous{Interface: inner, arrived: make(chan struct{}, 2)}
}

func (r *c08Rendezvous) Get(key string) (cacheEntry, bool) {
	if n := r.calls.Add(1); n <= 2 {
		r.arrived <- struct{}{}

		// wait until both of the first two callers are here
		deadline := time.After(20 * time.Second)

		for len(r.arrived) < 2 {
			select {
			case <-deadline:
				return r.Interface.Get(key) // give up, the test will report that the rendezvous did not happen
			default:
				time.Sleep(time.Millisecond)
			}
		}

		r.met.Store(true)
	}

	return r.Interface.Get(key)
}

// c08MemoryMetastore is a minimal in-memory Metastore.
type c08MemoryMetastore struct {
	mu sync.Mutex
	m  map[string]map[int64]*EnvelopeKeyRecord
}

func newC08MemoryMetastore() *c08MemoryMetastore {
	return &c08MemoryMetastore{m: make(map[string]map[int64]*EnvelopeKeyRecord)}
}

func (s *c08MemoryMetastore) Load(_ context.Context, id string, created int64) (*EnvelopeKeyRecord, error) {
	s.mu.Lock()
	defer s.mu.Unlock()

	if ekr, ok := s.m[id][created]; ok {
		cp := *ekr
		return &cp, nil
	}

	return nil, nil
}

func (s *c08MemoryMetastore) LoadLatest(_ context.Context, id string) (*EnvelopeKeyRecord, error) {
	s.mu.Lock()
	defer s.mu.Unlock()

	var latest *EnvelopeKeyRecord

	for _, ekr := range s.m[id] {
		if latest == nil || ekr.Created > latest.Created {
			latest = ekr
		}
	}

	if latest == nil {
		return nil, nil
	}

	cp := *latest

	return &cp, nil
}

func (s *c08MemoryMetastore) Store(_ context.Context, id string, created int64, ekr *EnvelopeKeyRecord) (bool, error) {
	s.mu.Lock()
	defer s.mu.Unlock()

	if _, ok := s.m[id][created]; ok {
		return false, nil
	}

	if s.m[id] == nil {
		s.m[id] = make(map[int64]*EnvelopeKeyRecord)
	}

	cp := *ekr
	s.m[id][created] = &cp

	return true, nil
}

// c08AESGCM is a plain AES-256-GCM AEAD (nonce appended to the ciphertext).
type c08AESGCM struct{}

func (c08AESGCM) Encrypt(data, key []byte) ([]byte, error) {
	block, err := aes.NewCipher(key)
	if err != nil {
		return nil, err
	}

	gcm, err := cipher.NewGCM(block)
	if err != nil {
		return nil, err
	}

	nonce := make([]byte, gcm.NonceSize())
	if _, err := rand.Read(nonce); err != nil {
		return nil, err
	}

	return append(gcm.Seal(nil, nonce, data, nil), nonce...), nil
}

func (c08AESGCM) Decrypt(data, key []byte) ([]byte, error) {
	block, err := aes.NewCipher(key)
	if err != nil {
		return nil, err
	}

	gcm, err := cipher.NewGCM(block)
	if err != nil {
		return nil, err
	}

	if len(data) < gcm.NonceSize() {
		return nil, errors.New("ciphertext too short")
	}

	split := len(data) - gcm.NonceSize()

	return gcm.Open(nil, data[split:], data[:split], nil)
}

// c08StaticKMS encrypts system keys with a fixed master key.
type c08StaticKMS struct {
	master []byte
	aead   c08AESGCM
}

func (k c08StaticKMS) EncryptKey(_ context.Context, b []byte) ([]byte, error) {
	return k.aead.Encrypt(b, k.master)
}

func (k c08StaticKMS) DecryptKey(_ context.Context, b []byte) ([]byte, error) {
	return k.aead.Decrypt(b, k.master)
}

func newC08Factory(store Metastore, policy *CryptoPolicy) *SessionFactory {
	return NewSessionFactory(
		&Config{Service: "c08svc", Product: "c08prod", Policy: policy},
		store,
		c08StaticKMS{master: []byte("0123456789abcdef0123456789abcdef")},
		c08AESGCM{},
	)
}

// ---------------------------------------------------------------------------------------------------------------
// demonstration 1: key cache level, capacity 1 LRU system-key cache with synchronous eviction.
// A user that holds a key it got from the cache has the key destroyed underneath it by a concurrent eviction.
// ---------------------------------------------------------------------------------------------------------------

func TestC08Seed_KeyCache_KeyDestroyedUnderneathUserByEviction(t *testing.T) {
	policy := NewCryptoPolicy()
	policy.SystemKeyCacheMaxSize = 1
	policy.SystemKeyCacheEvictionPolicy = "lru"

	kc := newKeyCache(CacheTypeSystemKeys, policy)
	defer kc.Close()

	rv := newC08Rendezvous(kc.keys)
	kc.keys = rv

	factory := new(memguard.SecretFactory)
	created := time.Now().Unix()
	metaA := KeyMeta{ID: "_SK_c08svc_c08prod", Created: created}
	metaB := KeyMeta{ID: "_SK_c08svc_c08prod", Created: created - 3600}

	var loads atomic.Int32

	loader := func(m KeyMeta) (*internal.CryptoKey, error) {
		loads.Add(1)
		return internal.GenerateKey(factory, m.Created, AES256KeySize)
	}

	use := func(k *cachedCryptoKey) error {
		return internal.WithKey(k, func(b []byte) error {
			if len(b) != AES256KeySize {
				return fmt.Errorf("unexpected key length %d", len(b))
			}

			return nil
		})
	}

	// Two goroutines ask for the same uncached key at the same time (both miss on the fast path).
	var (
		wg   sync.WaitGroup
		keys [2]*cachedCryptoKey
		errs [2]error
	)

	for i := 0; i < 2; i++ {
		wg.Add(1)

		go func(i int) {
			defer wg.Done()

			keys[i], errs[i] = kc.GetOrLoad(metaA, loader)
		}(i)
	}

	wg.Wait()

	if !rv.met.Load() {
		t.Fatal("test harness problem: the two fast-path lookups did not rendezvous")
	}

	for i := 0; i < 2; i++ {
		if errs[i] != nil {
			t.Fatalf("GetOrLoad #%d failed: %v", i, errs[i])
		}
	}

	if keys[0] != keys[1] {
		t.Fatalf("expected both callers to get the same cached key")
	}

	if n := loads.Load(); n != 1 {
		t.Fatalf("expected exactly one load, got %d", n)
	}

	// A third user obtains the (now cached) key and keeps using it.
	user, err := kc.GetOrLoad(metaA, loader)
	if err != nil {
		t.Fatalf("GetOrLoad by third user failed: %v", err)
	}

	// The first two are done with the key.
	for i := 0; i < 2; i++ {
		if err := use(keys[i]); err != nil {
			t.Errorf("racing caller #%d could not use the key it obtained: %v", i, err)
		}

		keys[i].Close()
	}

	// Somebody else needs a different system key: the cache has capacity 1, so metaA's key is evicted (synchronously).
	other, err := kc.GetOrLoad(metaB, loader)
	if err != nil {
		t.Fatalf("GetOrLoad of the other key failed: %v", err)
	}

	defer other.Close()

	// The third user has not released its key: it must still be usable.
	if user.IsClosed() {
		t.Errorf("C08 violated: the key held by a user was destroyed underneath it by a concurrent eviction")
	}

	if err := use(user); err != nil {
		t.Errorf("C08 violated: user of an obtained key failed after a concurrent eviction: %v", err)
	}

	user.Close()
}

// ---------------------------------------------------------------------------------------------------------------
// demonstration 2: public API level, default ("simple", unbounded) system-key cache.
// Two sessions of different partitions decrypt concurrently right after start-up (system key not yet cached);
// afterwards no session of the factory can decrypt anything that needs the system key any more.
// ---------------------------------------------------------------------------------------------------------------

func TestC08Seed_Factory_DecryptFailsAfterConcurrentSystemKeyLoad(t *testing.T) {
	ctx := context.Background()
	store := newC08MemoryMetastore()

	// phase 1: "yesterday's process" writes one record for each of two partitions
	writer := newC08Factory(store, NewCryptoPolicy())

	payloads := map[string][]byte{"partition-1": []byte("payload one"), "partition-2": []byte("payload two")}
	records := map[string]*DataRowRecord{}

	for id, payload := range payloads {
		s, err := writer.GetSession(id)
		if err != nil {
			t.Fatal(err)
		}

		drr, err := s.Encrypt(ctx, payload)
		if err != nil {
			t.Fatalf("setup encrypt failed: %v", err)
		}

		records[id] = drr

		s.Close()
	}

	writer.Close()

	// phase 2: a fresh factory (empty caches); two sessions decrypt at the same time
	factory := newC08Factory(store, NewCryptoPolicy())
	defer factory.Close()

	skCache := factory.systemKeys.(*keyCache)
	rv := newC08Rendezvous(skCache.keys)
	skCache.keys = rv

	decrypt := func(id string) error {
		s, err := factory.GetSession(id)
		if err != nil {
			return err
		}

		defer s.Close()

		got, err := s.Decrypt(ctx, *records[id])
		if err != nil {
			return err
		}

		if string(got) != string(payloads[id]) {
			return fmt.Errorf("wrong plaintext %q", got)
		}

		return nil
	}

	var (
		wg   sync.WaitGroup
		mu   sync.Mutex
		errs []error
	)

	for id := range payloads {
		wg.Add(1)

		go func(id string) {
			defer wg.Done()

			if err := decrypt(id); err != nil {
				mu.Lock()
				errs = append(errs, fmt.Errorf("%s: %w", id, err))
				mu.Unlock()
			}
		}(id)
	}

	wg.Wait()

	if !rv.met.Load() {
		t.Fatal("test harness problem: the two system key lookups did not rendezvous")
	}

	for _, err := range errs {
		t.Errorf("concurrent decrypt failed: %v", err)
	}

	// phase 3: nothing is racing any more. New sessions (fresh intermediate-key caches) decrypt the same records.
	for id := range payloads {
		if err := decrypt(id); err != nil {
			t.Errorf("C08 violated: decrypt for %s failed although nothing races with it: %v", id, err)
		}
	}
}
