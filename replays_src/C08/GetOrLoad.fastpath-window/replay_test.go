package appencryption

// Replay for obligation GetOrLoad/.../increment-needs-pinned-ref (property C08). Injected by `go test -overlay`.

import (
	"testing"
	"time"

	"github.com/godaddy/asherah/go/appencryption/internal"
	"github.com/godaddy/asherah/go/securememory/memguard"
)

func TestGocvReplay_FastPathWindow(t *testing.T) {
	policy := NewCryptoPolicy()
	policy.IntermediateKeyCacheMaxSize = 1
	policy.IntermediateKeyCacheEvictionPolicy = "lru"
	policy.RevokeCheckInterval = time.Hour
	c := newKeyCache(CacheTypeIntermediateKeys, policy)
	defer c.Close()
	factory := new(memguard.SecretFactory)
	loader := func(meta KeyMeta) (*internal.CryptoKey, error) {
		return internal.GenerateKey(factory, meta.Created, 32)
	}
	a := KeyMeta{ID: "_IK_a_svc_prod", Created: 100}
	b := KeyMeta{ID: "_IK_b_svc_prod", Created: 100}
	k0, err := c.GetOrLoad(a, loader) // A is now cached and fresh
	if err != nil {
		t.Fatal(err)
	}
	k0.Close()
	fired := false
	gocvWindowHook = func() {
		gocvWindowHook = nil // only the outer call is interrupted
		fired = true
		kb, err := c.GetOrLoad(b, loader) // another goroutine's operation, scheduled inside the window: evicts A
		if err == nil {
			kb.Close()
		}
	}
	k, err := c.GetOrLoad(a, loader)
	gocvWindowHook = nil
	if err != nil {
		t.Fatal(err)
	}
	defer k.Close()
	if !fired {
		t.Skip("fast path not taken")
	}
	if k.IsClosed() {
		t.Fatalf("CONTRACT VIOLATED (C08): GetOrLoad handed out a key that a concurrent eviction destroyed in the window between RUnlock and the reference increment (IsClosed() == true)")
	}
	if _, err := internal.WithKeyFunc(k, func(b []byte) ([]byte, error) { return b, nil }); err != nil {
		t.Fatalf("CONTRACT VIOLATED (C08): use of the key obtained from the cache fails: %v", err)
	}
}
