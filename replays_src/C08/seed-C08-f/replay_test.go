// Demonstration for seed C08-f (6th seed of property C08: "a key in use is never destroyed
// underneath its user, under any schedule").
//
// Placement: go/appencryption/seed_c08_latest_fastpath_demo_test.go
//            (module github.com/godaddy/asherah/go/appencryption, external test package appencryption_test)
//
// Run (do NOT set GOFLAGS=-mod=mod, the module has a go.work):
//
//	export GOPROXY=off GOSUMDB=off GOTOOLCHAIN=local
//	(cd go/appencryption && go test -vet=off -count=1 -run 'TestSeedC08' -v .)
//
// Expected: PASS on the unchanged tree, FAIL with patch.diff applied
// ("A: Encrypt#2 failed ...: secret has already been destroyed").
//
// Only the public API is used. One factory, a shared bounded intermediate-key cache, two
// goroutines with one session each, on different partitions:
//
//	A (partition "p-A"): Encrypt#1                  -> IK of p-A is loaded into the shared IK cache
//	A                  : Encrypt#2                  -> finds the cached latest IK of p-A ...
//	    B (other partitions): Encrypt               -> ... B's keys push A's IK out of the bounded cache
//	A                  : ... and goes on to use the key it found
//
// The interleaving is forced with the library's own debug-log hook (log.SetLogger): the logger
// is invoked by the goroutine that emits the message, so when A reports its cache hit the logger
// starts B and waits until B is done before it lets A continue. Nothing is closed before all
// operations have returned, so every operation has to succeed and round-trip.
//
// On the unchanged tree the latest-key lookup is done entirely under the cache's write lock, A
// never emits anything between looking the key up and taking its reference, and B simply runs
// after A (the test then still checks that all operations succeed).
package appencryption_test

import (
	"context"
	"fmt"
	"strings"
	"sync"
	"sync/atomic"
	"testing"
	"time"

	"github.com/godaddy/asherah/go/appencryption"
	"github.com/godaddy/asherah/go/appencryption/pkg/crypto/aead"
	"github.com/godaddy/asherah/go/appencryption/pkg/kms"
	"github.com/godaddy/asherah/go/appencryption/pkg/log"
	"github.com/godaddy/asherah/go/appencryption/pkg/persistence"
)

// seedC08Logger calls the current hook (at most once per arming) for the first debug message
// that reports a latest-key cache hit.
type seedC08Logger struct {
	armed atomic.Bool
	hook  atomic.Pointer[func()]
}

func (l *seedC08Logger) Debugf(format string, _ ...interface{}) {
	if !strings.Contains(format, "GetOrLoadLatest get hit") {
		return
	}

	if l.armed.CompareAndSwap(true, false) {
		if h := l.hook.Load(); h != nil {
			(*h)()
		}
	}
}

// the library's logger is a plain package-level variable: it is installed once, before any
// factory of this test exists, and stays installed (disarmed, it does nothing)
var (
	seedC08Log     = new(seedC08Logger)
	seedC08LogOnce sync.Once
)

func TestSeedC08_LatestKeyEvictedBetweenLookupAndUse(t *testing.T) {
	cases := []struct {
		evictionPolicy string
		capacity       int // < 100: synchronous eviction, >= 100: asynchronous eviction
	}{
		{"lru", 1},
		{"lfu", 1},
		{"slru", 1},
		{"tinylfu", 1},
		{"lru", 100},
	}

	for _, c := range cases {
		c := c

		t.Run(fmt.Sprintf("%s/cap=%d", c.evictionPolicy, c.capacity), func(t *testing.T) {
			seedC08Scenario(t, c.evictionPolicy, c.capacity)
		})
	}
}

func seedC08Scenario(t *testing.T, evictionPolicy string, capacity int) {
	seedC08LogOnce.Do(func() { log.SetLogger(seedC08Log) })

	ctx := context.Background()
	payload := []byte("some secret payload")

	crypto := aead.NewAES256GCM()

	km, err := kms.NewStatic("thisIsAStaticMasterKeyForTesting", crypto)
	if err != nil {
		t.Fatalf("kms: %v", err)
	}

	policy := appencryption.NewCryptoPolicy(appencryption.WithSharedIntermediateKeyCache(capacity))
	policy.IntermediateKeyCacheEvictionPolicy = evictionPolicy

	factory := appencryption.NewSessionFactory(&appencryption.Config{
		Service: "svc",
		Product: "prod",
		Policy:  policy,
	}, persistence.NewMemoryMetastore(), km, crypto)
	defer factory.Close()

	sessA, err := factory.GetSession("p-A")
	if err != nil {
		t.Fatalf("GetSession A: %v", err)
	}
	defer sessA.Close()

	// B works on as many other partitions as it takes to push p-A's key out of the cache
	sessB := make([]*appencryption.Session, capacity)
	for i := range sessB {
		if sessB[i], err = factory.GetSession(fmt.Sprintf("p-B-%d", i)); err != nil {
			t.Fatalf("GetSession B: %v", err)
		}
		defer sessB[i].Close()
	}

	var (
		mu       sync.Mutex
		failures []string
	)

	fail := func(format string, args ...interface{}) {
		mu.Lock()
		defer mu.Unlock()

		failures = append(failures, fmt.Sprintf(format, args...))
	}

	roundTrip := func(who, op string, s *appencryption.Session) {
		drr, err := s.Encrypt(ctx, payload)
		if err != nil {
			fail("%s: %s failed although neither its session nor the factory was closed: %v", who, op, err)
			return
		}

		got, err := s.Decrypt(ctx, *drr)
		if err != nil {
			fail("%s: Decrypt of %s failed although neither its session nor the factory was closed: %v", who, op, err)
			return
		}

		if string(got) != string(payload) {
			fail("%s: %s round trip returned %q", who, op, got)
		}
	}

	// goroutine B: waits for its cue, then encrypts/decrypts on its own partitions.
	var (
		startB  = make(chan struct{})
		bDone   = make(chan struct{})
		startBO sync.Once
	)

	go func() {
		defer close(bDone)

		<-startB

		for i, s := range sessB {
			roundTrip("B", fmt.Sprintf("Encrypt on p-B-%d", i), s)
		}

		// an asynchronous cache runs its evict callback on its own goroutine
		time.Sleep(300 * time.Millisecond)
	}()

	runB := func() {
		startBO.Do(func() { close(startB) })

		select {
		case <-bDone:
		case <-time.After(30 * time.Second):
			fail("B did not finish")
		}
	}

	logger := seedC08Log
	logger.armed.Store(false)
	logger.hook.Store(&runB)

	// goroutine A
	aDone := make(chan struct{})

	go func() {
		defer close(aDone)

		// loads (creates) the intermediate key of p-A into the shared cache
		roundTrip("A", "Encrypt#1", sessA)

		// from now on: the moment A reports that it found its latest key in the cache, B runs
		logger.armed.Store(true)

		roundTrip("A", "Encrypt#2", sessA)
	}()

	<-aDone

	// unchanged tree: A never yields between lookup and use; B runs now
	logger.armed.Store(false)
	runB()

	// and once more, after all that churn
	roundTrip("A", "Encrypt#3", sessA)

	for _, f := range failures {
		t.Error(f)
	}
}
