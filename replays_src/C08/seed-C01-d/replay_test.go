// C01 seed "d" demonstration.
//
// Placement: go/appencryption/c01_seed_d_demo_test.go (external test package of the go/appencryption module).
//
// Run (from the repository root of the worktree):
//
//	export GOPROXY=off GOSUMDB=off GOTOOLCHAIN=local
//	(cd go/appencryption && go test -vet=off -count=1 -run 'TestC01SeedD' -v .)
//
// Expected: PASS on the unchanged tree, FAIL (TestC01SeedD_ExpiredKeysStillDecryptInSameSession and
// TestC01SeedD_RevokedKeyStillDecryptsInSameSession) with the seeded change applied.
// TestC01SeedD_LRUControl passes in both trees: it documents that the breakage needs the default ("simple") key cache.
//
// The tests use only real components (AES-256-GCM, StaticKMS, MemoryMetastore, memguard secrets) and the public API.
// They sleep a few seconds because key timestamps have one second resolution.
package appencryption_test

import (
	"bytes"
	"context"
	"testing"
	"time"

	"github.com/godaddy/asherah/go/appencryption"
	"github.com/godaddy/asherah/go/appencryption/pkg/crypto/aead"
	"github.com/godaddy/asherah/go/appencryption/pkg/kms"
	"github.com/godaddy/asherah/go/appencryption/pkg/persistence"
)

const c01SeedDStaticKey = "thisIsAStaticMasterKeyForTesting"

func c01SeedDFactory(t *testing.T, metastore appencryption.Metastore, policy *appencryption.CryptoPolicy) *appencryption.SessionFactory {
	t.Helper()

	crypto := aead.NewAES256GCM()

	km, err := kms.NewStatic(c01SeedDStaticKey, crypto)
	if err != nil {
		t.Fatalf("static kms: %v", err)
	}

	t.Cleanup(km.Close)

	factory := appencryption.NewSessionFactory(&appencryption.Config{
		Service: "svc",
		Product: "prod",
		Policy:  policy,
	}, metastore, km, crypto)

	t.Cleanup(func() { factory.Close() })

	return factory
}

func c01SeedDRoundTrip(t *testing.T, s *appencryption.Session, what string, drr *appencryption.DataRowRecord, want []byte) {
	t.Helper()

	got, err := s.Decrypt(context.Background(), *drr)
	if err != nil {
		t.Errorf("C01 violated: %s does not decrypt: %v", what, err)
		return
	}

	if !bytes.Equal(got, want) {
		t.Errorf("C01 violated: %s decrypted to %q, want %q", what, got, want)
	}
}

// expiryScenario: one long-lived session encrypts r1, the keys expire (regular rotation), the session encrypts r2
// (which rotates SK and IK), then the same session decrypts r1 and r2.
func c01SeedDExpiryScenario(t *testing.T, policy *appencryption.CryptoPolicy) {
	t.Helper()

	policy.ExpireKeyAfter = 2 * time.Second
	policy.CreateDatePrecision = time.Second

	metastore := persistence.NewMemoryMetastore()
	factory := c01SeedDFactory(t, metastore, policy)

	session, err := factory.GetSession("partition-1")
	if err != nil {
		t.Fatalf("GetSession: %v", err)
	}

	defer session.Close()

	ctx := context.Background()
	p1 := []byte("payload one")
	p2 := []byte("payload two")

	r1, err := session.Encrypt(ctx, p1)
	if err != nil {
		t.Fatalf("encrypt r1: %v", err)
	}

	// sanity: decrypts right away
	c01SeedDRoundTrip(t, session, "r1 (immediately)", r1, p1)

	// let SK1 and IK1 expire
	time.Sleep(3500 * time.Millisecond)

	r2, err := session.Encrypt(ctx, p2)
	if err != nil {
		t.Fatalf("encrypt r2: %v", err)
	}

	if r2.Key.ParentKeyMeta.Created == r1.Key.ParentKeyMeta.Created {
		t.Fatalf("test setup: expected the intermediate key to have been rotated (r1 IK %d, r2 IK %d)",
			r1.Key.ParentKeyMeta.Created, r2.Key.ParentKeyMeta.Created)
	}

	// r1 references the expired IK1/SK1: it must still decrypt, in the very session that produced it ...
	c01SeedDRoundTrip(t, session, "r1 (same session, after its keys expired and were rotated)", r1, p1)
	c01SeedDRoundTrip(t, session, "r2", r2, p2)

	// ... and in a brand new factory sharing the metastore and KMS (this one works in both trees: the
	// metastore is intact, only the first factory's caches are damaged).
	other := c01SeedDFactory(t, metastore, appencryption.NewCryptoPolicy())

	s2, err := other.GetSession("partition-1")
	if err != nil {
		t.Fatalf("GetSession (other factory): %v", err)
	}

	defer s2.Close()

	c01SeedDRoundTrip(t, s2, "r1 (other factory)", r1, p1)
	c01SeedDRoundTrip(t, s2, "r2 (other factory)", r2, p2)
}

func TestC01SeedD_ExpiredKeysStillDecryptInSameSession(t *testing.T) {
	// default policy: "simple" key caches for system and intermediate keys
	c01SeedDExpiryScenario(t, appencryption.NewCryptoPolicy())
}

func TestC01SeedD_LRUControl(t *testing.T) {
	policy := appencryption.NewCryptoPolicy()
	policy.SystemKeyCacheEvictionPolicy = "lru"
	policy.IntermediateKeyCacheEvictionPolicy = "lru"

	c01SeedDExpiryScenario(t, policy)
}

// Out-of-band revocation by another process: the IK row is flagged revoked in the shared metastore. Two sessions of
// one factory share the intermediate key cache. After the revoke check interval, session A reads its record (the cache
// notices the revocation), session B encrypts (rotating the IK); session A must still be able to read what it wrote.
func TestC01SeedD_RevokedKeyStillDecryptsInSameSession(t *testing.T) {
	policy := appencryption.NewCryptoPolicy(
		appencryption.WithSharedIntermediateKeyCache(10),
		appencryption.WithRevokeCheckInterval(500*time.Millisecond),
	)
	policy.IntermediateKeyCacheEvictionPolicy = "" // default: simple
	policy.CreateDatePrecision = time.Second

	metastore := persistence.NewMemoryMetastore()
	factory := c01SeedDFactory(t, metastore, policy)

	ctx := context.Background()

	sessionA, err := factory.GetSession("partition-1")
	if err != nil {
		t.Fatalf("GetSession A: %v", err)
	}

	defer sessionA.Close()

	p1 := []byte("written before the revocation")

	r1, err := sessionA.Encrypt(ctx, p1)
	if err != nil {
		t.Fatalf("encrypt r1: %v", err)
	}

	// another process revokes the intermediate key r1 was written under
	ikMeta := *r1.Key.ParentKeyMeta

	metastore.Lock()
	row := metastore.Envelopes[ikMeta.ID][ikMeta.Created]
	if row == nil {
		metastore.Unlock()
		t.Fatalf("test setup: IK row %v not found in metastore", ikMeta)
	}

	revoked := *row
	revoked.Revoked = true
	metastore.Envelopes[ikMeta.ID][ikMeta.Created] = &revoked
	metastore.Unlock()

	// wait out the revoke check interval, and make sure a replacement IK gets a later timestamp
	time.Sleep(1500 * time.Millisecond)

	// session A reads r1 back: fine, and as a side effect the shared cache learns that the IK is now revoked
	c01SeedDRoundTrip(t, sessionA, "r1 (session A, first read after the revocation)", r1, p1)

	sessionB, err := factory.GetSession("partition-1")
	if err != nil {
		t.Fatalf("GetSession B: %v", err)
	}

	defer sessionB.Close()

	p2 := []byte("written after the revocation")

	r2, err := sessionB.Encrypt(ctx, p2)
	if err != nil {
		t.Fatalf("encrypt r2: %v", err)
	}

	if r2.Key.ParentKeyMeta.Created == ikMeta.Created {
		t.Fatalf("test setup: expected the revoked intermediate key to have been replaced")
	}

	c01SeedDRoundTrip(t, sessionA, "r1 (session A, after its IK was revoked and rotated by session B)", r1, p1)
	c01SeedDRoundTrip(t, sessionB, "r1 (session B)", r1, p1)
	c01SeedDRoundTrip(t, sessionA, "r2 (session A)", r2, p2)
	c01SeedDRoundTrip(t, sessionB, "r2 (session B)", r2, p2)
}
