// Demonstration for seeded change C01-b (tryStore treats "no error" as "stored").
//
// Placement: go/appencryption/c01_duplicate_key_race_demo_test.go  (module github.com/godaddy/asherah/go/appencryption)
//
// Run with:
//
//	export GOPROXY=off GOSUMDB=off GOTOOLCHAIN=local
//	cd go/appencryption && go test -vet=off -count=1 -run 'TestC01Demo' -v .
//
// Expected: PASS on the unchanged tree, FAIL with the seeded change applied.
//
// Scenario (deterministic, single goroutine): two "processes" (two SessionFactory values, each with its own
// key caches) share one metastore and one KMS and encrypt for the same partition for the very first time within
// the same minute. Process B reads the metastore (no key yet), then process A creates and persists its keys and
// encrypts, and only then does B try to persist the keys it generated. B's Store is rejected as a duplicate:
// the metastore reports this as (false, nil), exactly as the Metastore interface documents and as the shipped
// MemoryMetastore does. B must then adopt A's persisted key. Every record B returns must be decryptable by any
// other process that shares the metastore and KMS.
package appencryption_test

import (
	"context"
	"sync"
	"testing"
	"time"

	"github.com/godaddy/asherah/go/appencryption"
	"github.com/godaddy/asherah/go/appencryption/pkg/crypto/aead"
	"github.com/godaddy/asherah/go/appencryption/pkg/kms"
	"github.com/godaddy/asherah/go/appencryption/pkg/persistence"
)

const (
	demoService   = "svc"
	demoProduct   = "prod"
	demoPartition = "partition-1"
	demoStaticKey = "thisIsAStaticMasterKeyForTesting"

	demoSKID = "_SK_" + demoService + "_" + demoProduct
	demoIKID = "_IK_" + demoPartition + "_" + demoService + "_" + demoProduct
)

// interleavingMetastore is process B's view of the shared metastore. It forwards everything to the shared
// store, and runs hook exactly once, right after B's first LoadLatest for hookID has read the (still empty) store
// and before that result is handed back to B. This pins the interleaving "B reads, A writes, B writes".
type interleavingMetastore struct {
	appencryption.Metastore

	hookID string
	hook   func()
	once   sync.Once
}

func (m *interleavingMetastore) LoadLatest(ctx context.Context, id string) (*appencryption.EnvelopeKeyRecord, error) {
	ekr, err := m.Metastore.LoadLatest(ctx, id)

	if id == m.hookID {
		m.once.Do(m.hook)
	}

	return ekr, err
}

func newDemoFactory(t *testing.T, store appencryption.Metastore, k appencryption.KeyManagementService, crypto appencryption.AEAD) *appencryption.SessionFactory {
	t.Helper()

	return appencryption.NewSessionFactory(&appencryption.Config{
		Service: demoService,
		Product: demoProduct,
		Policy:  appencryption.NewCryptoPolicy(), // defaults: key caches on, 1 minute create-date precision
	}, store, k, crypto)
}

// avoidMinuteBoundary makes sure the few milliseconds the scenario takes do not straddle a
// create-date-precision (1 minute) boundary, so both processes deterministically pick the same key timestamp.
func avoidMinuteBoundary() {
	if s := time.Now().Second(); s >= 57 {
		time.Sleep(time.Duration(61-s) * time.Second)
	}
}

func runDuplicateKeyRace(t *testing.T, raceOnKeyID string) {
	avoidMinuteBoundary()

	ctx := context.Background()
	crypto := aead.NewAES256GCM()

	staticKMS, err := kms.NewStatic(demoStaticKey, crypto)
	if err != nil {
		t.Fatalf("static kms: %v", err)
	}
	defer staticKMS.Close()

	shared := persistence.NewMemoryMetastore()

	// process A
	factoryA := newDemoFactory(t, shared, staticKMS, crypto)
	defer factoryA.Close()

	payloadA := []byte("payload written by process A")

	var drrA *appencryption.DataRowRecord

	processAEncrypts := func() {
		sessA, err := factoryA.GetSession(demoPartition)
		if err != nil {
			t.Fatalf("A: GetSession: %v", err)
		}
		defer sessA.Close()

		drrA, err = sessA.Encrypt(ctx, payloadA)
		if err != nil {
			t.Fatalf("A: Encrypt: %v", err)
		}
	}

	// process B sees the same store, but A gets to run between B's read and B's write
	factoryB := newDemoFactory(t, &interleavingMetastore{Metastore: shared, hookID: raceOnKeyID, hook: processAEncrypts}, staticKMS, crypto)
	defer factoryB.Close()

	sessB, err := factoryB.GetSession(demoPartition)
	if err != nil {
		t.Fatalf("B: GetSession: %v", err)
	}
	defer sessB.Close()

	payloadB := []byte("payload written by process B")

	drrB, err := sessB.Encrypt(ctx, payloadB)
	if err != nil {
		t.Fatalf("B: Encrypt: %v", err)
	}

	if drrA == nil {
		t.Fatal("interleaving hook did not run")
	}

	if drrA.Key.ParentKeyMeta.Created != drrB.Key.ParentKeyMeta.Created {
		t.Skipf("the two processes picked different key timestamps (%d, %d); no duplicate was attempted",
			drrA.Key.ParentKeyMeta.Created, drrB.Key.ParentKeyMeta.Created)
	}

	// B can read its own record back (its caches hold whatever key it used) ...
	if got, err := sessB.Decrypt(ctx, *drrB); err != nil || string(got) != string(payloadB) {
		t.Fatalf("B: same-session decrypt of B's record: got %q, err %v", got, err)
	}

	// ... and so must everybody else who shares the metastore and the KMS.
	check := func(who string, f *appencryption.SessionFactory, drr *appencryption.DataRowRecord, want []byte) {
		t.Helper()

		s, err := f.GetSession(demoPartition)
		if err != nil {
			t.Fatalf("%s: GetSession: %v", who, err)
		}
		defer s.Close()

		got, err := s.Decrypt(ctx, *drr)
		if err != nil {
			t.Errorf("%s: record returned by a successful Encrypt cannot be decrypted: %v", who, err)
			return
		}

		if string(got) != string(want) {
			t.Errorf("%s: decrypted %q, want %q", who, got, want)
		}
	}

	// process A (warm caches)
	check("process A decrypting B's record", factoryA, drrB, payloadB)
	check("process B (new session) decrypting A's record", factoryB, drrA, payloadA)

	// process C: started later, cold caches, same metastore and KMS (e.g. B after a restart)
	factoryC := newDemoFactory(t, shared, staticKMS, crypto)
	defer factoryC.Close()

	check("process C decrypting A's record", factoryC, drrA, payloadA)
	check("process C decrypting B's record", factoryC, drrB, payloadB)
}

// Both processes race on creating the partition's first intermediate key (the system key already
// having been persisted by A by the time B needs it).
func TestC01Demo_ConcurrentFirstIntermediateKey(t *testing.T) {
	runDuplicateKeyRace(t, demoIKID)
}

// Both processes race on creating the service's first system key (and therefore also the intermediate key).
func TestC01Demo_ConcurrentFirstSystemKey(t *testing.T) {
	runDuplicateKeyRace(t, demoSKID)
}
