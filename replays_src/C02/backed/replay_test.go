// C02 demonstration: "a record is handed out only once its whole key chain is durably in the metastore".
//
// PLACEMENT: copy this file to   <repo>/go/appencryption/c02_keychain_durability_demo_test.go
// RUN WITH:
//
//	export GOPROXY=off GOSUMDB=off GOTOOLCHAIN=local
//	(cd <repo>/go/appencryption && go test -vet=off -count=1 -run 'TestC02_' -v .)
//
// Expected: PASS on the unchanged tree, FAIL with patch.diff applied.
//
// Every scenario uses only the public API (SessionFactory/Session), the stock in-memory metastore, the stock
// static KMS and real AES-256-GCM. "A fresh process" is modelled as a brand new SessionFactory (empty key
// caches) that is given nothing but the metastore contents and the KMS.
package appencryption_test

import (
	"context"
	"strings"
	"sync"
	"testing"
	"time"

	"github.com/godaddy/asherah/go/appencryption"
	"github.com/godaddy/asherah/go/appencryption/pkg/crypto/aead"
	"github.com/godaddy/asherah/go/appencryption/pkg/kms"
	"github.com/godaddy/asherah/go/appencryption/pkg/persistence"
)

const (
	c02Service   = "c02svc"
	c02Product   = "c02prod"
	c02Partition = "c02part"
	c02StaticKey = "thisIsAStaticMasterKeyForTesting"
)

// hookedMetastore wraps a Metastore and lets a test observe and/or replace individual Store calls.
type hookedMetastore struct {
	appencryption.Metastore

	mu sync.Mutex
	// onStore, when non-nil, is consulted for every Store call. If it returns handled == true its result is returned to
	// the caller and the underlying metastore is NOT called (i.e. nothing is written).
	onStore func(id string, created int64, ekr *appencryption.EnvelopeKeyRecord) (handled, success bool, err error)
	// results of Store calls (after the hook), for assertions.
	storeResults []storeResult
}

type storeResult struct {
	id      string
	success bool
	err     error
}

func (h *hookedMetastore) Store(ctx context.Context, id string, created int64, ekr *appencryption.EnvelopeKeyRecord) (bool, error) {
	h.mu.Lock()
	hook := h.onStore
	h.mu.Unlock()

	if hook != nil {
		if handled, success, err := hook(id, created, ekr); handled {
			h.record(id, success, err)
			return success, err
		}
	}

	success, err := h.Metastore.Store(ctx, id, created, ekr)
	h.record(id, success, err)

	return success, err
}

func (h *hookedMetastore) record(id string, success bool, err error) {
	h.mu.Lock()
	defer h.mu.Unlock()

	h.storeResults = append(h.storeResults, storeResult{id: id, success: success, err: err})
}

func (h *hookedMetastore) sawDuplicate(prefix string) bool {
	h.mu.Lock()
	defer h.mu.Unlock()

	for _, r := range h.storeResults {
		if strings.HasPrefix(r.id, prefix) && !r.success {
			return true
		}
	}

	return false
}

func c02Policy() *appencryption.CryptoPolicy {
	p := appencryption.NewCryptoPolicy()
	// Keys created "at the same time" collide on (id, created). Widen the window from a minute to a day so the
	// scenarios below do not depend on the wall clock not crossing a minute boundary half way through.
	p.CreateDatePrecision = 24 * time.Hour

	return p
}

func c02Factory(t *testing.T, ms appencryption.Metastore) *appencryption.SessionFactory {
	t.Helper()

	crypto := aead.NewAES256GCM()

	k, err := kms.NewStatic(c02StaticKey, crypto)
	if err != nil {
		t.Fatalf("static kms: %v", err)
	}

	return appencryption.NewSessionFactory(
		&appencryption.Config{Service: c02Service, Product: c02Product, Policy: c02Policy()},
		ms, k, crypto,
	)
}

func c02Encrypt(t *testing.T, f *appencryption.SessionFactory, payload string) (*appencryption.DataRowRecord, error) {
	t.Helper()

	s, err := f.GetSession(c02Partition)
	if err != nil {
		t.Fatalf("GetSession: %v", err)
	}
	defer s.Close()

	return s.Encrypt(context.Background(), []byte(payload))
}

// c02AssertDurable checks the C02 post-condition for drr against the raw metastore contents:
// the IK named by the record is in the metastore, the SK named by that IK is in the metastore, and a fresh
// process (new factory, empty caches) holding only the metastore and the KMS gets the payload back.
func c02AssertDurable(t *testing.T, store appencryption.Metastore, drr *appencryption.DataRowRecord, payload string) {
	t.Helper()

	ctx := context.Background()

	ikMeta := drr.Key.ParentKeyMeta

	ikEkr, err := store.Load(ctx, ikMeta.ID, ikMeta.Created)
	if err != nil || ikEkr == nil {
		t.Fatalf("record names intermediate key %s which is NOT in the metastore (err=%v)", ikMeta, err)
	}

	skEkr, err := store.Load(ctx, ikEkr.ParentKeyMeta.ID, ikEkr.ParentKeyMeta.Created)
	if err != nil || skEkr == nil {
		t.Fatalf("intermediate key %s names system key %s which is NOT in the metastore (err=%v)",
			ikMeta, ikEkr.ParentKeyMeta, err)
	}

	fresh := c02Factory(t, store)
	defer fresh.Close()

	s, err := fresh.GetSession(c02Partition)
	if err != nil {
		t.Fatalf("fresh GetSession: %v", err)
	}
	defer s.Close()

	got, err := s.Decrypt(ctx, *drr)
	if err != nil {
		t.Fatalf("a fresh process holding only the metastore and the KMS cannot decrypt the record: %v", err)
	}

	if string(got) != payload {
		t.Fatalf("fresh process decrypted %q, want %q", got, payload)
	}
}

// Scenario 1 (cold state, forced interleaving of two processes).
//
// Process A and process B start cold against the same metastore. A has generated its system key and is just about to
// store it when B runs a complete encrypt (creating and persisting its own SK and IK with the same truncated
// timestamps). A's Store calls therefore hit a *genuine* duplicate, which the in-memory metastore reports per the
// Metastore contract as (false, nil). A must adopt B's persisted keys; the record A hands out must be decryptable
// by a fresh process.
func TestC02_ColdStartRace_LoserMustAdoptPersistedKeys(t *testing.T) {
	for attempt := 0; attempt < 3; attempt++ {
		store := persistence.NewMemoryMetastore()

		procB := c02Factory(t, store)

		var (
			once sync.Once
			drrB *appencryption.DataRowRecord
			errB error
		)

		msA := &hookedMetastore{Metastore: store}
		msA.onStore = func(id string, _ int64, _ *appencryption.EnvelopeKeyRecord) (bool, bool, error) {
			if strings.HasPrefix(id, "_SK_") {
				// A is between "generate SK" and "store SK": let B run to completion right now.
				once.Do(func() { drrB, errB = c02Encrypt(t, procB, "from-B") })
			}

			return false, false, nil // not handled: fall through to the real store
		}

		procA := c02Factory(t, msA)

		drrA, errA := c02Encrypt(t, procA, "from-A")

		if errB != nil || drrB == nil {
			t.Fatalf("process B encrypt failed: %v", errB)
		}

		if !msA.sawDuplicate("_SK_") || !msA.sawDuplicate("_IK_") {
			// wall clock crossed the CreateDatePrecision boundary between A and B: no collision happened, retry.
			procA.Close()
			procB.Close()

			continue
		}

		if errA != nil {
			t.Fatalf("process A encrypt failed although the metastore only reported duplicates: %v", errA)
		}

		c02AssertDurable(t, store, drrB, "from-B")
		c02AssertDurable(t, store, drrA, "from-A")

		procA.Close()
		procB.Close()

		return
	}

	t.Fatal("could not provoke a duplicate in 3 attempts")
}

// Scenario 2 (cold state, injected fault: false 'duplicate', nothing written).
//
// A single Store call answers (false, nil) -- "already exists" -- without writing anything (e.g. a lost write
// behind a proxy/cache that answers 'exists'). The encrypt in progress may fail, but it must never return a
// record whose key chain is not in the metastore; and once the fault is gone the next encrypt must succeed.
func TestC02_FalseDuplicateOnStore_NeverHandsOutUnpersistedChain(t *testing.T) {
	for _, prefix := range []string{"_SK_", "_IK_"} {
		prefix := prefix

		t.Run("fault_on"+prefix+"store", func(t *testing.T) {
			store := persistence.NewMemoryMetastore()

			var once sync.Once

			ms := &hookedMetastore{Metastore: store}
			ms.onStore = func(id string, _ int64, _ *appencryption.EnvelopeKeyRecord) (handled, success bool, err error) {
				if strings.HasPrefix(id, prefix) {
					once.Do(func() { handled = true }) // first matching Store only: report 'duplicate', write nothing
				}

				return handled, false, nil
			}

			proc := c02Factory(t, ms)
			defer proc.Close()

			drr, err := c02Encrypt(t, proc, "payload-1")
			if err == nil {
				// A record was handed out: then its whole chain has to be durable.
				c02AssertDurable(t, store, drr, "payload-1")
			}

			// faults have stopped: next operation must succeed and be durable.
			drr2, err := c02Encrypt(t, proc, "payload-2")
			if err != nil {
				t.Fatalf("encrypt after the fault stopped still fails: %v", err)
			}

			c02AssertDurable(t, store, drr2, "payload-2")
		})
	}
}

// Scenario 3 (rotating state, no fault injection at all).
//
// The partition's IK is revoked shortly after it was created (inside the CreateDatePrecision window). The next
// process that wants to encrypt sees a revoked latest IK and tries to rotate; its new IK has the same truncated
// timestamp, so the Store is a genuine duplicate. Whatever key the process ends up using, the record it returns
// must be decryptable by a fresh process from the metastore contents.
func TestC02_RotationInsidePrecisionWindow_RecordStaysDecryptable(t *testing.T) {
	store := persistence.NewMemoryMetastore()

	procA := c02Factory(t, store)

	drrA, err := c02Encrypt(t, procA, "before-revoke")
	if err != nil {
		t.Fatalf("initial encrypt: %v", err)
	}

	procA.Close()
	c02AssertDurable(t, store, drrA, "before-revoke")

	// Operator revokes the IK directly in the metastore.
	store.Lock()
	store.Envelopes[drrA.Key.ParentKeyMeta.ID][drrA.Key.ParentKeyMeta.Created].Revoked = true
	store.Unlock()

	procB := c02Factory(t, store)
	defer procB.Close()

	drrB, err := c02Encrypt(t, procB, "after-revoke")
	if err != nil {
		t.Fatalf("encrypt after revoke: %v", err)
	}

	c02AssertDurable(t, store, drrB, "after-revoke")

	// and again, warm this time
	drrB2, err := c02Encrypt(t, procB, "after-revoke-2")
	if err != nil {
		t.Fatalf("second encrypt after revoke: %v", err)
	}

	c02AssertDurable(t, store, drrB2, "after-revoke-2")
}
