// Demonstration for C02 ("a record is handed out only once its whole key chain is durably in the metastore").
//
// PLACE THIS FILE AT:   go/appencryption/c02_ik_race_demo_test.go
// RUN WITH:
//
//	cd go/appencryption && GOPROXY=off GOSUMDB=off GOTOOLCHAIN=local \
//	    go test -vet=off -count=1 -run 'TestC02Demo' -v .
//
// Expected: PASS on the unchanged tree, FAIL (TestC02Demo_LostIntermediateKeyRace) with the change applied.
//
// Scenario (two processes sharing one metastore and one KMS, both serving the same partition, cold start):
//
//	A: Encrypt -> LoadLatest(IK) == nil                     (nothing there yet)
//	B: Encrypt (complete): creates + stores SK and IK_B, hands out record rB
//	A: continues: finds B's SK, generates IK_A (same minute => same (id, created) as IK_B),
//	   Store(IK_A) is refused as a duplicate, A reloads the latest IK ...
//
// The unchanged code decrypts and uses the reloaded IK_B. The changed code sees "same created timestamp", concludes
// the reloaded record is its own write and keeps IK_A - a key that exists nowhere but in A's memory. A's record then
// names (IK id, created) of IK_B, so a fresh process holding only the metastore and the KMS cannot decrypt it.
package appencryption_test

import (
	"context"
	"errors"
	"sync"
	"testing"
	"time"

	"github.com/godaddy/asherah/go/appencryption"
	"github.com/godaddy/asherah/go/appencryption/pkg/crypto/aead"
	"github.com/godaddy/asherah/go/appencryption/pkg/kms"
	"github.com/godaddy/asherah/go/appencryption/pkg/persistence"
)

const (
	c02Service   = "svc"
	c02Product   = "prod"
	c02Partition = "shopper-1"
	c02IKID      = "_IK_" + c02Partition + "_" + c02Service + "_" + c02Product
	c02StaticKey = "thisIsAStaticMasterKeyForTesting"
)

// c02HookedMetastore forwards everything to the shared metastore and lets the test run code / inject faults at
// precise call positions.
type c02HookedMetastore struct {
	appencryption.Metastore

	mu sync.Mutex

	// afterFirstLoadLatest runs once, right after the first LoadLatest(id == hookID) has returned.
	hookID               string
	afterFirstLoadLatest func()

	// errorAfterWrite, when set, makes the next Store(id == hookID) perform the write and then report an error.
	errorAfterWrite bool
}

func (m *c02HookedMetastore) LoadLatest(ctx context.Context, id string) (*appencryption.EnvelopeKeyRecord, error) {
	ekr, err := m.Metastore.LoadLatest(ctx, id)

	m.mu.Lock()
	hook := m.afterFirstLoadLatest
	if id == m.hookID && hook != nil {
		m.afterFirstLoadLatest = nil
	} else {
		hook = nil
	}
	m.mu.Unlock()

	if hook != nil {
		hook()
	}

	return ekr, err
}

func (m *c02HookedMetastore) Store(ctx context.Context, id string, created int64, ekr *appencryption.EnvelopeKeyRecord) (bool, error) {
	ok, err := m.Metastore.Store(ctx, id, created, ekr)

	m.mu.Lock()
	inject := id == m.hookID && m.errorAfterWrite
	if inject {
		m.errorAfterWrite = false
	}
	m.mu.Unlock()

	if inject && ok {
		return false, errors.New("injected: connection reset after the write was applied")
	}

	return ok, err
}

func c02NewFactory(t *testing.T, store appencryption.Metastore) *appencryption.SessionFactory {
	t.Helper()

	crypto := aead.NewAES256GCM()

	k, err := kms.NewStatic(c02StaticKey, crypto)
	if err != nil {
		t.Fatalf("static kms: %v", err)
	}

	cfg := &appencryption.Config{
		Service: c02Service,
		Product: c02Product,
		Policy:  appencryption.NewCryptoPolicy(),
	}

	return appencryption.NewSessionFactory(cfg, store, k, crypto)
}

func c02Encrypt(t *testing.T, f *appencryption.SessionFactory, payload string) *appencryption.DataRowRecord {
	t.Helper()

	s, err := f.GetSession(c02Partition)
	if err != nil {
		t.Fatalf("GetSession: %v", err)
	}
	defer s.Close()

	drr, err := s.Encrypt(context.Background(), []byte(payload))
	if err != nil {
		t.Fatalf("Encrypt(%q): %v", payload, err)
	}

	return drr
}

// c02FreshProcessDecrypt models "a fresh process holding only the metastore contents and the KMS".
func c02FreshProcessDecrypt(t *testing.T, shared appencryption.Metastore, drr *appencryption.DataRowRecord) (string, error) {
	t.Helper()

	f := c02NewFactory(t, shared)
	defer f.Close()

	s, err := f.GetSession(c02Partition)
	if err != nil {
		t.Fatalf("GetSession: %v", err)
	}
	defer s.Close()

	out, err := s.Decrypt(context.Background(), *drr)

	return string(out), err
}

// c02AvoidMinuteBoundary keeps both key creations of a test inside one CreateDatePrecision (1 minute) window.
func c02AvoidMinuteBoundary() {
	if s := time.Now().Second(); s >= 50 {
		time.Sleep(time.Duration(61-s) * time.Second)
	}
}

func TestC02Demo_LostIntermediateKeyRace(t *testing.T) {
	c02AvoidMinuteBoundary()

	shared := persistence.NewMemoryMetastore()

	procB := c02NewFactory(t, shared)
	defer procB.Close()

	var recB *appencryption.DataRowRecord

	hooked := &c02HookedMetastore{Metastore: shared, hookID: c02IKID}
	hooked.afterFirstLoadLatest = func() {
		// process B gets in between A's "is there an IK yet?" and A's attempt to store its own
		recB = c02Encrypt(t, procB, "written by B")
	}

	procA := c02NewFactory(t, hooked)
	defer procA.Close()

	recA := c02Encrypt(t, procA, "written by A")

	if recB == nil {
		t.Fatal("precondition: the interleaving hook did not run")
	}

	if recA.Key.ParentKeyMeta.Created != recB.Key.ParentKeyMeta.Created {
		t.Fatalf("precondition: A and B created their IK in different minutes (%d vs %d), rerun",
			recA.Key.ParentKeyMeta.Created, recB.Key.ParentKeyMeta.Created)
	}

	// The chain named by A's record is "present" in the metastore ...
	ikEkr, err := shared.Load(context.Background(), recA.Key.ParentKeyMeta.ID, recA.Key.ParentKeyMeta.Created)
	if err != nil || ikEkr == nil {
		t.Fatalf("IK named by A's record is not in the metastore: %v / %v", ikEkr, err)
	}

	skEkr, err := shared.Load(context.Background(), ikEkr.ParentKeyMeta.ID, ikEkr.ParentKeyMeta.Created)
	if err != nil || skEkr == nil {
		t.Fatalf("SK named by that IK is not in the metastore: %v / %v", skEkr, err)
	}

	// ... and a fresh process with only the metastore + KMS must be able to read both records.
	for _, tc := range []struct {
		name string
		rec  *appencryption.DataRowRecord
		want string
	}{
		{"B", recB, "written by B"},
		{"A", recA, "written by A"},
	} {
		got, err := c02FreshProcessDecrypt(t, shared, tc.rec)
		if err != nil {
			t.Errorf("fresh process cannot decrypt the record handed out to %s: %v "+
				"(it was encrypted under an intermediate key that was never persisted)", tc.name, err)

			continue
		}

		if got != tc.want {
			t.Errorf("fresh process decrypted %s's record to %q, want %q", tc.name, got, tc.want)
		}
	}
}

// Control: the situation the change claims to optimise (the IK write lands but an error is reported) is handled
// correctly both before and after the change, which is why it looks harmless.
func TestC02Demo_ErrorAfterWriteControl(t *testing.T) {
	c02AvoidMinuteBoundary()

	shared := persistence.NewMemoryMetastore()
	hooked := &c02HookedMetastore{Metastore: shared, hookID: c02IKID, errorAfterWrite: true}

	procA := c02NewFactory(t, hooked)
	defer procA.Close()

	recA := c02Encrypt(t, procA, "written by A")

	got, err := c02FreshProcessDecrypt(t, shared, recA)
	if err != nil || got != "written by A" {
		t.Fatalf("fresh process decrypt: %q, %v", got, err)
	}
}
