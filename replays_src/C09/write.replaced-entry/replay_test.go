package appencryption_test

// Replay for the keyCache ledger obligations (property C09): an entry replaced in the cache must be released.

import (
	"context"
	"testing"
	"time"

	"github.com/godaddy/asherah/go/appencryption"
	"github.com/godaddy/asherah/go/appencryption/pkg/crypto/aead"
	"github.com/godaddy/asherah/go/appencryption/pkg/kms"
	"github.com/godaddy/asherah/go/appencryption/pkg/persistence"
	"github.com/godaddy/asherah/go/securememory"
)

func TestGocvReplay_ReplacedEntryReleased(t *testing.T) {
	base := securememory.InUseCounter.Count()
	crypto := aead.NewAES256GCM()
	k, err := kms.NewStatic("thisIsAStaticMasterKeyForTesting", crypto)
	if err != nil {
		t.Fatal(err)
	}
	store := persistence.NewMemoryMetastore()
	cfg := &appencryption.Config{Service: "svc", Product: "prod", Policy: appencryption.NewCryptoPolicy(appencryption.WithRevokeCheckInterval(time.Second))}
	f := appencryption.NewSessionFactory(cfg, store, k, crypto)
	s, err := f.GetSession("p")
	if err != nil {
		t.Fatal(err)
	}
	ctx := context.Background()
	drr, err := s.Encrypt(ctx, []byte("x"))
	if err != nil {
		t.Fatal(err)
	}
	// revoke the intermediate key inside its creation window
	row, _ := store.Load(ctx, drr.Key.ParentKeyMeta.ID, drr.Key.ParentKeyMeta.Created)
	if row == nil {
		t.Fatal("ik row not found")
	}
	row.Revoked = true
	time.Sleep(1200 * time.Millisecond) // let the cached entry go stale so that the flag is re-read
	for i := 0; i < 10; i++ {
		if _, err := s.Encrypt(ctx, []byte("y")); err != nil {
			t.Fatal(err)
		}
	}
	s.Close()
	f.Close()
	k.Close()
	if got := securememory.InUseCounter.Count(); got != base {
		t.Fatalf("CONTRACT VIOLATED (C09): %d protected secrets are still allocated after the session and the factory were closed", got-base)
	}
}
