package appencryption

// Replay for intermediateKeyFromEKR/post:references-balanced (property C09).

import (
	"context"
	"crypto/aes"
	"crypto/cipher"
	"crypto/rand"
	"errors"
	"testing"

	"github.com/godaddy/asherah/go/securememory"
	"github.com/godaddy/asherah/go/securememory/memguard"
)

type c09GCM struct{}

func (c09GCM) Encrypt(data, key []byte) ([]byte, error) {
	b, err := aes.NewCipher(key)
	if err != nil {
		return nil, err
	}
	g, _ := cipher.NewGCM(b)
	nonce := make([]byte, 12)
	rand.Read(nonce)
	return append(g.Seal(nil, nonce, data, nil), nonce...), nil
}

func (c09GCM) Decrypt(data, key []byte) ([]byte, error) {
	b, err := aes.NewCipher(key)
	if err != nil {
		return nil, err
	}
	g, _ := cipher.NewGCM(b)
	if len(data) < 12 {
		return nil, errors.New("short")
	}
	n := len(data) - 12
	return g.Open(nil, data[n:], data[:n], nil)
}

type c09KMS struct{}

func (c09KMS) EncryptKey(_ context.Context, b []byte) ([]byte, error) { return append([]byte(nil), b...), nil }
func (c09KMS) DecryptKey(_ context.Context, b []byte) ([]byte, error) { return append([]byte(nil), b...), nil }

type c09Store map[int64]*EnvelopeKeyRecord

func (m c09Store) Load(_ context.Context, id string, created int64) (*EnvelopeKeyRecord, error) {
	return m[created], nil
}
func (m c09Store) LoadLatest(_ context.Context, id string) (*EnvelopeKeyRecord, error) { return nil, nil }
func (m c09Store) Store(_ context.Context, id string, created int64, e *EnvelopeKeyRecord) (bool, error) {
	return false, nil
}

type c09OtherSK struct{}

func (c09OtherSK) Created() int64 { return 999 }
func (c09OtherSK) Revoked() bool  { return false }
func (c09OtherSK) WithBytesFunc(func([]byte) ([]byte, error)) ([]byte, error) {
	return nil, errors.New("not the parent")
}

func TestGocvReplay_ParentMismatchReleasesSK(t *testing.T) {
	base := securememory.InUseCounter.Count()
	policy := NewCryptoPolicy()
	sk1 := make([]byte, 32)
	ik := make([]byte, 32)
	rand.Read(sk1)
	rand.Read(ik)
	wrapped, err := c09GCM{}.Encrypt(ik, sk1)
	if err != nil {
		t.Fatal(err)
	}
	store := c09Store{100: {ID: "_SK_svc_prod", Created: 100, EncryptedKey: append([]byte(nil), sk1...)}}
	skCache := newKeyCache(CacheTypeSystemKeys, policy)
	e := &envelopeEncryption{partition: newPartition("p", "svc", "prod"), Metastore: store, KMS: c09KMS{}, Policy: policy,
		Crypto: c09GCM{}, SecretFactory: new(memguard.SecretFactory), skCache: skCache, ikCache: neverCache{}}
	row := &EnvelopeKeyRecord{ID: "_IK_p_svc_prod", Created: 200, EncryptedKey: wrapped, ParentKeyMeta: &KeyMeta{ID: "_SK_svc_prod", Created: 100}}
	key, err := e.intermediateKeyFromEKR(c09OtherSK{}, row)
	if err != nil {
		t.Fatal(err)
	}
	key.Close()
	skCache.Close()
	if got := securememory.InUseCounter.Count(); got != base {
		t.Fatalf("CONTRACT VIOLATED (C09): %d protected secret(s) still allocated after the key and the system-key cache were closed (the reference taken on the parent system key was never given back)", got-base)
	}
}
