// Demonstration for seed C09-f (property C09: protected key memory is released).
//
// PLACE THIS FILE AT:   go/appencryption/c09_seed_f_demo_test.go
// RUN IT WITH:
//
//	export GOPROXY=off GOSUMDB=off GOTOOLCHAIN=local
//	cd go/appencryption && go test -vet=off -count=1 -run 'TestC09SeedF' -v .
//
// Expected: PASS on the unchanged tree, FAIL with patch.diff applied.
//
// Scenario (multi-step history, no concurrency, fully deterministic):
//
//  1. a first factory/session encrypts a record: system key SK1 and intermediate key IK1 are created
//     and persisted; everything is closed (all secrets must be released).
//  2. an operator flags the *system* key SK1 as revoked in the metastore (the intermediate key record
//     is untouched and is still valid on its own: not revoked, not expired).
//  3. a second factory/session (cold caches) encrypts again. The SDK finds IK1 as the latest
//     intermediate key, fetches its parent SK1, sees that the parent is no longer valid and rotates
//     (new SK2, new IK2).
//  4. everything is closed again.
//
// The test counts every secret handed out by the SecretFactory and checks that each one was closed
// exactly once, that nothing was touched after being closed, and (with caching disabled) that no secret
// outlives the call that allocated it.
package appencryption_test

import (
	"context"
	"fmt"
	"io"
	"runtime"
	"sort"
	"strings"
	"sync"
	"testing"
	"time"

	"github.com/godaddy/asherah/go/securememory"

	"github.com/godaddy/asherah/go/appencryption"
	"github.com/godaddy/asherah/go/appencryption/pkg/crypto/aead"
	"github.com/godaddy/asherah/go/appencryption/pkg/kms"
)

// ---------------------------------------------------------------------------------------------------
// tracking secret factory (pure Go, no mlock needed)
// ---------------------------------------------------------------------------------------------------

type c09fSecret struct {
	f      *c09fFactory
	id     int
	origin string

	mu               sync.Mutex
	data             []byte
	closes           int
	touchedAfterDone int
}

func (s *c09fSecret) access() ([]byte, error) {
	s.mu.Lock()
	defer s.mu.Unlock()

	if s.closes > 0 {
		s.touchedAfterDone++
		return nil, fmt.Errorf("secret #%d has already been destroyed", s.id)
	}

	return s.data, nil
}

func (s *c09fSecret) WithBytes(action func([]byte) error) error {
	b, err := s.access()
	if err != nil {
		return err
	}

	return action(b)
}

func (s *c09fSecret) WithBytesFunc(action func([]byte) ([]byte, error)) ([]byte, error) {
	b, err := s.access()
	if err != nil {
		return nil, err
	}

	return action(b)
}

func (s *c09fSecret) IsClosed() bool {
	s.mu.Lock()
	defer s.mu.Unlock()

	return s.closes > 0
}

func (s *c09fSecret) Close() error {
	s.mu.Lock()
	defer s.mu.Unlock()

	s.closes++
	for i := range s.data {
		s.data[i] = 0
	}

	return nil
}

func (s *c09fSecret) NewReader() io.Reader { return strings.NewReader("") }

type c09fFactory struct {
	mu      sync.Mutex
	secrets []*c09fSecret
}

func c09fOrigin() string {
	// first few frames inside the SDK, to tell which allocation is which in a failure message
	pcs := make([]uintptr, 16)
	n := runtime.Callers(3, pcs)
	frames := runtime.CallersFrames(pcs[:n])

	var out []string

	for {
		fr, more := frames.Next()
		if strings.Contains(fr.Function, "appencryption") && !strings.Contains(fr.Function, "c09f") {
			name := fr.Function[strings.LastIndex(fr.Function, ".")+1:]
			out = append(out, name)
		}

		if !more || len(out) >= 5 {
			break
		}
	}

	return strings.Join(out, " <- ")
}

func (f *c09fFactory) add(b []byte) *c09fSecret {
	f.mu.Lock()
	defer f.mu.Unlock()

	s := &c09fSecret{f: f, id: len(f.secrets) + 1, data: b, origin: c09fOrigin()}
	f.secrets = append(f.secrets, s)

	return s
}

func (f *c09fFactory) New(b []byte) (securememory.Secret, error) {
	cp := append([]byte(nil), b...)
	for i := range b { // contract: the source is wiped
		b[i] = 0
	}

	return f.add(cp), nil
}

func (f *c09fFactory) CreateRandom(size int) (securememory.Secret, error) {
	b := make([]byte, size)
	for i := range b {
		b[i] = byte(37*i + 11*len(f.secrets) + 1) // deterministic "random"
	}

	return f.add(b), nil
}

// live returns a description of every secret that has not been closed.
func (f *c09fFactory) live() []string {
	f.mu.Lock()
	defer f.mu.Unlock()

	var out []string

	for _, s := range f.secrets {
		s.mu.Lock()
		if s.closes == 0 {
			out = append(out, fmt.Sprintf("secret #%d allocated via %s", s.id, s.origin))
		}
		s.mu.Unlock()
	}

	return out
}

// check asserts: every allocated secret closed exactly once, none touched after close.
func (f *c09fFactory) check(t *testing.T, when string) {
	t.Helper()

	f.mu.Lock()
	defer f.mu.Unlock()

	for _, s := range f.secrets {
		s.mu.Lock()

		switch {
		case s.closes == 0:
			t.Errorf("%s: LEAK: secret #%d was never released (allocated via %s)", when, s.id, s.origin)
		case s.closes > 1:
			t.Errorf("%s: secret #%d released %d times (allocated via %s)", when, s.id, s.closes, s.origin)
		}

		if s.touchedAfterDone > 0 {
			t.Errorf("%s: secret #%d touched %d time(s) after release (allocated via %s)", when, s.id, s.touchedAfterDone, s.origin)
		}

		s.mu.Unlock()
	}
}

// ---------------------------------------------------------------------------------------------------
// in-memory metastore with an operator "revoke system keys" action
// ---------------------------------------------------------------------------------------------------

type c09fMetastore struct {
	mu   sync.Mutex
	recs map[string]map[int64]appencryption.EnvelopeKeyRecord
}

func newC09fMetastore() *c09fMetastore {
	return &c09fMetastore{recs: make(map[string]map[int64]appencryption.EnvelopeKeyRecord)}
}

func c09fCopy(r appencryption.EnvelopeKeyRecord) *appencryption.EnvelopeKeyRecord {
	cp := r
	cp.EncryptedKey = append([]byte(nil), r.EncryptedKey...)

	if r.ParentKeyMeta != nil {
		pm := *r.ParentKeyMeta
		cp.ParentKeyMeta = &pm
	}

	return &cp
}

func (m *c09fMetastore) Load(_ context.Context, id string, created int64) (*appencryption.EnvelopeKeyRecord, error) {
	m.mu.Lock()
	defer m.mu.Unlock()

	if r, ok := m.recs[id][created]; ok {
		return c09fCopy(r), nil
	}

	return nil, nil
}

func (m *c09fMetastore) LoadLatest(_ context.Context, id string) (*appencryption.EnvelopeKeyRecord, error) {
	m.mu.Lock()
	defer m.mu.Unlock()

	byCreated := m.recs[id]
	if len(byCreated) == 0 {
		return nil, nil
	}

	stamps := make([]int64, 0, len(byCreated))
	for c := range byCreated {
		stamps = append(stamps, c)
	}

	sort.Slice(stamps, func(i, j int) bool { return stamps[i] < stamps[j] })

	return c09fCopy(byCreated[stamps[len(stamps)-1]]), nil
}

func (m *c09fMetastore) Store(_ context.Context, id string, created int64, ekr *appencryption.EnvelopeKeyRecord) (bool, error) {
	m.mu.Lock()
	defer m.mu.Unlock()

	if _, ok := m.recs[id][created]; ok {
		return false, nil
	}

	if m.recs[id] == nil {
		m.recs[id] = make(map[int64]appencryption.EnvelopeKeyRecord)
	}

	m.recs[id][created] = *c09fCopy(*ekr)

	return true, nil
}

// revokeSystemKeys flags every stored system key record as revoked; intermediate key records are untouched.
func (m *c09fMetastore) revokeSystemKeys() int {
	m.mu.Lock()
	defer m.mu.Unlock()

	n := 0

	for id, byCreated := range m.recs {
		if !strings.HasPrefix(id, "_SK_") {
			continue
		}

		for c, r := range byCreated {
			r.Revoked = true
			byCreated[c] = r
			n++
		}
	}

	return n
}

// ---------------------------------------------------------------------------------------------------
// the test
// ---------------------------------------------------------------------------------------------------

func c09fPolicy(variant string) *appencryption.CryptoPolicy {
	p := appencryption.NewCryptoPolicy()
	// second granularity so that the keys created in step 3 get stamps different from those of step 1
	p.CreateDatePrecision = time.Second

	switch variant {
	case "default-simple-caches":
	case "no-cache":
		appencryption.WithNoCache()(p)
	case "lru-bounded-caches":
		p.IntermediateKeyCacheEvictionPolicy = "lru"
		p.IntermediateKeyCacheMaxSize = 4
		p.SystemKeyCacheEvictionPolicy = "lru"
		p.SystemKeyCacheMaxSize = 4
	case "shared-ik-cache":
		appencryption.WithSharedIntermediateKeyCache(8)(p)
	default:
		panic(variant)
	}

	return p
}

func TestC09SeedF_ParentSystemKeyRevokedWhileIntermediateKeyStillValid(t *testing.T) {
	for _, variant := range []string{"default-simple-caches", "no-cache", "lru-bounded-caches", "shared-ik-cache"} {
		variant := variant

		t.Run(variant, func(t *testing.T) {
			ctx := context.Background()
			crypto := aead.NewAES256GCM()

			staticKMS, err := kms.NewStatic("thisIsAStaticMasterKeyForTesting", crypto)
			if err != nil {
				t.Fatal(err)
			}
			defer staticKMS.Close()

			store := newC09fMetastore()
			secrets := new(c09fFactory)
			noCache := variant == "no-cache"

			newFactory := func() *appencryption.SessionFactory {
				cfg := &appencryption.Config{Service: "svc", Product: "prod", Policy: c09fPolicy(variant)}
				return appencryption.NewSessionFactory(cfg, store, staticKMS, crypto, appencryption.WithSecretFactory(secrets))
			}

			afterCall := func(what string) {
				t.Helper()

				if !noCache {
					return
				}

				if live := secrets.live(); len(live) > 0 {
					t.Errorf("caching disabled, yet after %s returned %d secret(s) are still live: %v", what, len(live), live)
				}
			}

			// ---- step 1: first factory creates SK1 / IK1 -------------------------------------------
			f1 := newFactory()

			s1, err := f1.GetSession("partition-1")
			if err != nil {
				t.Fatal(err)
			}

			drr1, err := s1.Encrypt(ctx, []byte("payload one"))
			if err != nil {
				t.Fatalf("step 1 encrypt: %v", err)
			}

			afterCall("step 1 Encrypt")

			if err := s1.Close(); err != nil {
				t.Fatal(err)
			}

			if err := f1.Close(); err != nil {
				t.Fatal(err)
			}

			secrets.check(t, "after step 1 (plain encrypt, session+factory closed)")

			if t.Failed() {
				t.Fatal("baseline history already unbalanced; not the scenario under test")
			}

			// ---- step 2: operator revokes the system key only -------------------------------------
			time.Sleep(1500 * time.Millisecond) // next keys get a different (second-precision) stamp

			if n := store.revokeSystemKeys(); n != 1 {
				t.Fatalf("expected exactly one system key record to revoke, got %d", n)
			}

			// ---- step 3: a cold factory encrypts again -> must rotate ------------------------------
			f2 := newFactory()

			s2, err := f2.GetSession("partition-1")
			if err != nil {
				t.Fatal(err)
			}

			drr2, err := s2.Encrypt(ctx, []byte("payload two"))
			if err != nil {
				t.Fatalf("step 3 encrypt: %v", err)
			}

			afterCall("step 3 Encrypt (parent SK revoked, IK record still valid)")

			if drr2.Key.ParentKeyMeta.Created == drr1.Key.ParentKeyMeta.Created {
				t.Fatalf("scenario not reached: the intermediate key was not rotated after its parent was revoked")
			}

			// both records remain readable
			for i, drr := range []*appencryption.DataRowRecord{drr1, drr2} {
				pt, err := s2.Decrypt(ctx, *drr)
				if err != nil {
					t.Fatalf("decrypt record %d: %v", i+1, err)
				}

				if want := []string{"payload one", "payload two"}[i]; string(pt) != want {
					t.Fatalf("decrypt record %d: got %q want %q", i+1, pt, want)
				}

				afterCall(fmt.Sprintf("step 3 Decrypt of record %d", i+1))
			}

			// ---- step 4: close everything ----------------------------------------------------------
			if err := s2.Close(); err != nil {
				t.Fatal(err)
			}

			if err := f2.Close(); err != nil {
				t.Fatal(err)
			}

			secrets.check(t, "after step 4 (session and factory closed)")
		})
	}
}
