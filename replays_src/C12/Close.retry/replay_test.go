// Demonstration for seed C12-a.
//
// Placement: go/securememory/protectedmemory/close_retry_demo_test.go
// Run with:
//   export GOPROXY=off GOSUMDB=off GOTOOLCHAIN=local GOFLAGS=-mod=mod
//   cd go/securememory && go test -vet=off -count=1 -run 'TestDemoC12_' ./protectedmemory/
//
// Property exercised: a Close that fails because a memory primitive (mprotect,
// munlock or munmap) failed can be retried, and the retry really releases the
// pages (unlocked + unmapped), marks the secret closed and rebalances the
// in-use accounting.
package protectedmemory

import (
	"errors"
	"fmt"
	"testing"

	"github.com/godaddy/asherah/go/securememory"
	"github.com/godaddy/asherah/go/securememory/internal/memcall"
)

// faultyMemcall is a fake memcall.Interface which tracks the mapped/locked
// state of the single region it hands out and fails the n-th call (1-based) of
// a chosen primitive exactly once.
type faultyMemcall struct {
	failOp  string // "Protect", "Unlock" or "Free"
	failAt  int    // 1-based call index of failOp that fails
	calls   map[string]int
	mapped  bool
	locked  bool
	wipedOK bool // false if pages were unlocked/freed while still holding non-zero bytes
}

var errInjected = errors.New("injected memcall failure")

func newFaulty(op string, at int) *faultyMemcall {
	return &faultyMemcall{failOp: op, failAt: at, calls: map[string]int{}, wipedOK: true}
}

func (m *faultyMemcall) hit(op string) error {
	m.calls[op]++
	if op == m.failOp && m.calls[op] == m.failAt {
		return errInjected
	}

	return nil
}

func (m *faultyMemcall) Alloc(size int) ([]byte, error) {
	m.mapped = true
	return make([]byte, size), nil
}

func (m *faultyMemcall) Lock(b []byte) error {
	m.locked = true
	return nil
}

func (m *faultyMemcall) Protect(b []byte, _ memcall.MemoryProtectionFlag) error {
	return m.hit("Protect")
}

func (m *faultyMemcall) checkWiped(b []byte) {
	for _, v := range b {
		if v != 0 {
			m.wipedOK = false
		}
	}
}

func (m *faultyMemcall) Unlock(b []byte) error {
	if err := m.hit("Unlock"); err != nil {
		return err
	}

	m.checkWiped(b)
	m.locked = false

	return nil
}

func (m *faultyMemcall) Free(b []byte) error {
	if err := m.hit("Free"); err != nil {
		return err
	}

	m.checkWiped(b)
	m.mapped = false

	return nil
}

func TestDemoC12_FailedCloseCanBeRetried(t *testing.T) {
	cases := []struct {
		op string
		at int
	}{
		// New() performs Protect #1 (NoAccess); Close performs Protect #2 (ReadWrite).
		{"Protect", 2},
		{"Unlock", 1},
		{"Free", 1},
	}

	for _, tc := range cases {
		tc := tc

		t.Run(fmt.Sprintf("%s#%d", tc.op, tc.at), func(t *testing.T) {
			m := newFaulty(tc.op, tc.at)
			f := &SecretFactory{mc: m}

			inUseBefore := securememory.InUseCounter.Count()

			s, err := f.New([]byte("super secret key material"))
			if err != nil {
				t.Fatalf("New: unexpected error: %v", err)
			}

			if got := securememory.InUseCounter.Count(); got != inUseBefore+1 {
				t.Fatalf("in-use counter after New = %d, want %d", got, inUseBefore+1)
			}

			// First Close hits the injected fault and must report it.
			if err := s.Close(); !errors.Is(err, errInjected) {
				t.Fatalf("first Close: got %v, want injected failure", err)
			}

			if s.IsClosed() {
				t.Fatalf("secret reports closed after a failed Close")
			}

			// Reads stay refused once a Close has been attempted.
			if err := s.WithBytes(func([]byte) error { return nil }); err == nil {
				t.Fatalf("WithBytes succeeded after Close was attempted")
			}

			// The fault was transient: retrying Close must now finish the job.
			if err := s.Close(); err != nil {
				t.Fatalf("retried Close: unexpected error: %v", err)
			}

			if !s.IsClosed() {
				t.Errorf("secret not closed after a successful Close retry")
			}

			if m.locked {
				t.Errorf("pages still locked after a successful Close retry")
			}

			if m.mapped {
				t.Errorf("pages still mapped after a successful Close retry")
			}

			if !m.wipedOK {
				t.Errorf("pages were unlocked/freed before being wiped")
			}

			if got := securememory.InUseCounter.Count(); got != inUseBefore {
				t.Errorf("in-use counter after Close retry = %d, want %d", got, inUseBefore)
			}
		})
	}
}
