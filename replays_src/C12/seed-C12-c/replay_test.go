// Demonstration for C12 (secure memory survives syscall failures).
//
// Placement: go/securememory/protectedmemory/secret_close_retry_demo_test.go
// Run:
//
//	cd go/securememory && GOPROXY=off GOSUMDB=off GOTOOLCHAIN=local GOFLAGS=-mod=mod \
//	  go test -vet=off -count=1 -run 'TestDemoC12_' ./protectedmemory/
//
// The fake memcall below models the kernel's view of a region: mapped / locked /
// protection. Like the kernel it refuses to operate on a region that is no longer
// mapped. One fault is injected: the first Unlock issued by Close fails.
//
// Expected (unchanged code): the failed Close leaves the region mapped, so the
// retry succeeds, Free is issued exactly once, and InUseCounter returns to its
// starting value.
package protectedmemory

import (
	"errors"
	"testing"

	"github.com/godaddy/asherah/go/securememory"
	"github.com/godaddy/asherah/go/securememory/internal/memcall"
)

type demoRegion struct {
	mapped bool
	locked bool
}

type demoMemcall struct {
	regions map[*byte]*demoRegion

	failUnlockAt int // 1-based index of the Unlock call that fails; 0 = never
	unlockCalls  int
	freeCalls    int

	// freedWhileLocked is set if Free is issued on a region whose Unlock did not succeed.
	freedWhileLocked bool
}

var (
	errDemoUnlock   = errors.New("demo: munlock failed")
	errDemoUnmapped = errors.New("demo: region is not mapped")
)

func newDemoMemcall() *demoMemcall {
	return &demoMemcall{regions: make(map[*byte]*demoRegion)}
}

func (m *demoMemcall) region(b []byte) (*demoRegion, error) {
	if len(b) == 0 {
		return nil, errDemoUnmapped
	}

	r, ok := m.regions[&b[0]]
	if !ok || !r.mapped {
		return nil, errDemoUnmapped
	}

	return r, nil
}

func (m *demoMemcall) Alloc(size int) ([]byte, error) {
	b := make([]byte, size)
	m.regions[&b[0]] = &demoRegion{mapped: true}

	return b, nil
}

func (m *demoMemcall) Lock(b []byte) error {
	r, err := m.region(b)
	if err != nil {
		return err
	}

	r.locked = true

	return nil
}

func (m *demoMemcall) Protect(b []byte, _ memcall.MemoryProtectionFlag) error {
	_, err := m.region(b)
	return err
}

func (m *demoMemcall) Unlock(b []byte) error {
	m.unlockCalls++

	r, err := m.region(b)
	if err != nil {
		return err
	}

	if m.unlockCalls == m.failUnlockAt {
		return errDemoUnlock
	}

	r.locked = false

	return nil
}

func (m *demoMemcall) Free(b []byte) error {
	m.freeCalls++

	r, err := m.region(b)
	if err != nil {
		return err
	}

	if r.locked {
		m.freedWhileLocked = true
	}

	r.mapped = false

	return nil
}

func TestDemoC12_CloseCanBeRetriedAfterUnlockFault(t *testing.T) {
	m := newDemoMemcall()
	f := &SecretFactory{mc: m}

	inUseBefore := securememory.InUseCounter.Count()

	sec, err := f.New([]byte("super secret bytes"))
	if err != nil {
		t.Fatalf("New: %v", err)
	}

	if err := sec.WithBytes(func(b []byte) error { return nil }); err != nil {
		t.Fatalf("WithBytes: %v", err)
	}

	// inject: the first Unlock issued from now on (the one inside Close) fails
	m.failUnlockAt = m.unlockCalls + 1

	err = sec.Close()
	if !errors.Is(err, errDemoUnlock) {
		t.Fatalf("first Close: expected the injected unlock error, got %v", err)
	}

	if sec.IsClosed() {
		t.Fatalf("first Close failed but the secret reports closed")
	}

	if m.freeCalls != 0 {
		t.Errorf("first Close failed at Unlock but Free was still issued %d time(s)", m.freeCalls)
	}

	if m.freedWhileLocked {
		t.Errorf("region was released while its pages were still locked")
	}

	// retry: nothing fails any more
	if err := sec.Close(); err != nil {
		t.Errorf("retried Close: expected success, got %v", err)
	}

	if !sec.IsClosed() {
		t.Errorf("retried Close: secret is still not closed")
	}

	if m.freeCalls != 1 {
		t.Errorf("expected exactly one Free over the secret's life, got %d", m.freeCalls)
	}

	if got := securememory.InUseCounter.Count(); got != inUseBefore {
		t.Errorf("InUseCounter not balanced: before=%d after=%d", inUseBefore, got)
	}
}
