package protectedmemory

// Replay for the wipe-before-release obligations of New / createRandom (properties C12, C10).

import (
	"errors"
	"testing"

	"github.com/godaddy/asherah/go/securememory/internal/memcall"
)

// faulty wraps the real primitives; it fails the n-th Protect / Alloc and records whether a page still held
// non-zero bytes when it was unlocked or freed.
type faulty struct {
	memcall.Interface
	failProtectAt, failAllocAt int
	protects, allocs           int
	dirtyAtRelease             []string
}

func (f *faulty) Alloc(n int) ([]byte, error) {
	f.allocs++
	if f.allocs == f.failAllocAt {
		return nil, errors.New("injected: alloc failed")
	}
	return f.Interface.Alloc(n)
}

func (f *faulty) Protect(b []byte, flag memcall.MemoryProtectionFlag) error {
	f.protects++
	if f.protects == f.failProtectAt {
		return errors.New("injected: mprotect failed")
	}
	return f.Interface.Protect(b, flag)
}

func nonZero(b []byte) bool {
	for _, x := range b {
		if x != 0 {
			return true
		}
	}
	return false
}

func (f *faulty) Unlock(b []byte) error {
	if nonZero(b) {
		f.dirtyAtRelease = append(f.dirtyAtRelease, "Unlock")
	}
	return f.Interface.Unlock(b)
}

func (f *faulty) Free(b []byte) error {
	// the page may already be unreadable only if a Protect(NoAccess) succeeded, which none did on these paths
	if nonZero(b) {
		f.dirtyAtRelease = append(f.dirtyAtRelease, "Free")
	}
	return f.Interface.Free(b)
}

func TestGocvReplay_NewLastProtectFails(t *testing.T) {
	mc := &faulty{Interface: memcall.Default, failProtectAt: 1}
	f := &SecretFactory{mc: mc}
	src := []byte("0123456789abcdef0123456789abcdef")
	s, err := f.New(src)
	if err == nil || s != nil {
		t.Fatalf("CONTRACT VIOLATED (C12): a failed creation returned a secret (err=%v)", err)
	}
	if len(mc.dirtyAtRelease) > 0 {
		t.Fatalf("CONTRACT VIOLATED (C12 wipe before release): the page still held secret bytes at %v", mc.dirtyAtRelease)
	}
	if nonZero(src) {
		t.Fatalf("CONTRACT VIOLATED (C10): source buffer not wiped on the error path")
	}
}

func TestGocvReplay_NewAllocFails(t *testing.T) {
	mc := &faulty{Interface: memcall.Default, failAllocAt: 1}
	f := &SecretFactory{mc: mc}
	src := []byte("0123456789abcdef0123456789abcdef")
	if s, err := f.New(src); err == nil || s != nil {
		t.Fatalf("CONTRACT VIOLATED (C12): a failed creation returned a secret (err=%v)", err)
	}
	if nonZero(src) {
		t.Fatalf("CONTRACT VIOLATED (C10): the buffer passed to the secret factory still holds the key material after New returned an error")
	}
}

func TestGocvReplay_CreateRandomLastProtectFails(t *testing.T) {
	mc := &faulty{Interface: memcall.Default, failProtectAt: 1}
	f := &SecretFactory{mc: mc}
	if s, err := f.CreateRandom(32); err == nil || s != nil {
		t.Fatalf("CONTRACT VIOLATED (C12): a failed creation returned a secret (err=%v)", err)
	}
	if len(mc.dirtyAtRelease) > 0 {
		t.Fatalf("CONTRACT VIOLATED (C12 wipe before release): the page still held the random secret at %v", mc.dirtyAtRelease)
	}
}

func TestGocvReplay_CreateRandomSourceFails(t *testing.T) {
	mc := &faulty{Interface: memcall.Default}
	f := &SecretFactory{mc: mc}
	s, err := f.createRandom(32, func(b []byte) (int, error) {
		for i := 0; i < 16; i++ {
			b[i] = 0xAA // the source delivered half of the bytes, then failed
		}
		return 16, errors.New("injected: random source failed")
	})
	if err == nil || s != nil {
		t.Fatalf("CONTRACT VIOLATED (C12): a failed creation returned a secret (err=%v)", err)
	}
	if len(mc.dirtyAtRelease) > 0 {
		t.Fatalf("CONTRACT VIOLATED (C12 wipe before release): the page still held secret bytes at %v", mc.dirtyAtRelease)
	}
}
