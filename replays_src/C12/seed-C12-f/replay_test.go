// Demonstration for seed C12-f.
//
// Place this file at:   go/securememory/protectedmemory/seed_c12f_demo_test.go
// Run it with:
//   export GOPROXY=off GOSUMDB=off GOTOOLCHAIN=local
//   cd go/securememory && GOFLAGS=-mod=mod go test -vet=off -count=1 -run 'TestSeedC12f' -v ./protectedmemory/
//
// Scenario (deterministic, single goroutine, real mmap/mlock/mprotect pages):
//   1. create a secret from known bytes,
//   2. Close it while ONE memory primitive of Close (munlock, or munmap) fails once  -> Close must report the error,
//   3. read the secret (WithBytes / WithBytesFunc / NewReader),
//   4. retry Close -> must succeed.
// Step 3 is the check: after a failed Close the read must either be refused with an error or deliver
// the ORIGINAL secret bytes. It must never deliver other bytes (the wiped, all-zero page) with a nil error.
package protectedmemory

import (
	"bytes"
	"errors"
	"io/ioutil"
	"testing"

	"github.com/godaddy/asherah/go/securememory/internal/memcall"
)

// seedFaultyMemcall delegates to the real memcall implementation and fails a chosen primitive a fixed number of times.
type seedFaultyMemcall struct {
	memcall.Interface
	failUnlock int
	failFree   int
	failRW     int
}

var errSeedFault = errors.New("injected syscall failure")

func (m *seedFaultyMemcall) Unlock(b []byte) error {
	if m.failUnlock > 0 {
		m.failUnlock--
		return errSeedFault
	}

	return m.Interface.Unlock(b)
}

func (m *seedFaultyMemcall) Free(b []byte) error {
	if m.failFree > 0 {
		m.failFree--
		return errSeedFault
	}

	return m.Interface.Free(b)
}

func (m *seedFaultyMemcall) Protect(b []byte, f memcall.MemoryProtectionFlag) error {
	if f == memcall.ReadWrite() && m.failRW > 0 {
		m.failRW--
		return errSeedFault
	}

	return m.Interface.Protect(b, f)
}

func TestSeedC12f_ReadAfterFailedClose(t *testing.T) {
	orig := []byte("thisismy32bytesecretthatiwilluse")

	faults := map[string]func(m *seedFaultyMemcall){
		"close fails at mprotect(rw)": func(m *seedFaultyMemcall) { m.failRW = 1 },
		"close fails at munlock":      func(m *seedFaultyMemcall) { m.failUnlock = 1 },
		"close fails at munmap":       func(m *seedFaultyMemcall) { m.failFree = 1 },
	}

	readers := map[string]func(s *secret) ([]byte, error){
		"WithBytes": func(s *secret) (got []byte, err error) {
			err = s.WithBytes(func(b []byte) error {
				got = append([]byte(nil), b...)
				return nil
			})

			return got, err
		},
		"WithBytesFunc": func(s *secret) ([]byte, error) {
			return s.WithBytesFunc(func(b []byte) ([]byte, error) {
				return append([]byte(nil), b...), nil
			})
		},
		"NewReader": func(s *secret) ([]byte, error) {
			return ioutil.ReadAll(s.NewReader())
		},
	}

	for fname, arm := range faults {
		for rname, read := range readers {
			t.Run(fname+"/"+rname, func(t *testing.T) {
				mc := &seedFaultyMemcall{Interface: memcall.Default}
				f := &SecretFactory{mc: mc}

				in := append([]byte(nil), orig...)

				sec, err := f.New(in)
				if err != nil {
					t.Fatalf("New: %v", err)
				}

				s := sec.(*secret)

				// sanity: readable before close
				if got, err := read(s); err != nil || !bytes.Equal(got, orig) {
					t.Fatalf("read before close: got %q, err %v", got, err)
				}

				arm(mc)

				if err := s.Close(); !errors.Is(err, errSeedFault) {
					t.Fatalf("Close with an injected fault: want the injected error, got %v", err)
				}

				if s.IsClosed() {
					t.Fatalf("secret reports closed after a failed Close")
				}

				got, err := read(s)
				switch {
				case err != nil:
					t.Logf("read after failed Close refused: %v", err)
				case bytes.Equal(got, orig):
					t.Logf("read after failed Close delivered the original secret")
				default:
					t.Errorf("read after failed Close delivered a DEGRADED secret with a nil error: got % x, want % x", got, orig)
				}

				// the failed Close can be retried
				if err := s.Close(); err != nil {
					t.Fatalf("retried Close: %v", err)
				}

				if !s.IsClosed() {
					t.Fatalf("secret not closed after the retried Close")
				}
			})
		}
	}
}
