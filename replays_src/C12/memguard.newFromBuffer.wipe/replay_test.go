package memguard

import (
	"errors"
	"testing"

	"github.com/godaddy/asherah/go/securememory/internal/memcall"
)

// a memcall whose Protect(NoAccess) fails; Unlock and Free record what the pages hold when they are called
type d12Memcall struct {
	atUnlock, atFree []byte
}

func (m *d12Memcall) Alloc(size int) ([]byte, error) { return make([]byte, size), nil }
func (m *d12Memcall) Lock(b []byte) error            { return nil }
func (m *d12Memcall) Protect(b []byte, mpf memcall.MemoryProtectionFlag) error {
	if mpf == memcall.NoAccess() {
		return errors.New("mprotect failed")
	}
	return nil
}
func (m *d12Memcall) Unlock(b []byte) error { m.atUnlock = append([]byte(nil), b...); return nil }
func (m *d12Memcall) Free(b []byte) error   { m.atFree = append([]byte(nil), b...); return nil }

func containsSecret(page, secret []byte) bool {
	for i := 0; i+len(secret) <= len(page); i++ {
		ok := true
		for j := range secret {
			if page[i+j] != secret[j] {
				ok = false
				break
			}
		}
		if ok {
			return true
		}
	}
	return false
}

func TestD12_FailedCreationZeroesSecretBeforeRelease(t *testing.T) {
	m := &d12Memcall{}
	f := &SecretFactory{mc: m}
	secret := []byte("0123456789abcdef0123456789abcdef")
	orig := append([]byte(nil), secret...)
	s, err := f.New(secret)
	if err == nil {
		t.Fatalf("expected an error, got secret %v", s)
	}
	if m.atUnlock == nil || m.atFree == nil {
		t.Fatalf("cleanup did not unlock and free the pages")
	}
	if containsSecret(m.atUnlock, orig) {
		t.Errorf("pages still held the secret when they were unlocked")
	}
	if containsSecret(m.atFree, orig) {
		t.Errorf("pages still held the secret when they were freed")
	}
}
