// Demonstration for property C10 (transient plaintext key copies on the Go heap are wiped
// before the call returns).
//
// PLACE THIS FILE AT:  go/appencryption/c10_release_fault_demo_test.go
// RUN WITH:
//
//	cd go/appencryption && GOPROXY=off GOSUMDB=off GOTOOLCHAIN=local \
//	    go test -vet=off -count=1 -run 'TestC10Demo' -v .
//
// What it does: a payload is encrypted with an ordinary session factory. A second, cold
// session factory (empty key caches) then decrypts it, so the system key and the intermediate
// key must both be unwrapped. The second factory uses a SecretFactory whose secrets behave
// exactly like the memguard/protectedmemory ones do when the final mprotect(PROT_NONE) of a
// WithBytesFunc call fails: the action has run to completion, its result is returned, and an
// error is returned alongside it ("unable to mark memory as no-access"). That fault is
// injected on the system key, i.e. after the AEAD has already produced the plaintext
// intermediate key on the ordinary Go heap.
//
// The AEAD is wrapped so that every 32-byte buffer it returns from Decrypt (the plaintext
// SK / IK / DRK copies) is remembered. When Decrypt returns - with an error in the faulty
// run - every one of those buffers must contain only zero bytes.
package appencryption_test

import (
	"context"
	"errors"
	"sync"
	"sync/atomic"
	"testing"

	"github.com/godaddy/asherah/go/securememory"
	"github.com/godaddy/asherah/go/securememory/memguard"

	"github.com/godaddy/asherah/go/appencryption"
	"github.com/godaddy/asherah/go/appencryption/pkg/crypto/aead"
	"github.com/godaddy/asherah/go/appencryption/pkg/kms"
	"github.com/godaddy/asherah/go/appencryption/pkg/persistence"
)

const c10KeySize = 32

// recordingAEAD remembers every key-sized plaintext buffer handed out by Decrypt.
type recordingAEAD struct {
	appencryption.AEAD

	mu      sync.Mutex
	enabled bool
	keys    [][]byte
}

func (r *recordingAEAD) Decrypt(data, key []byte) ([]byte, error) {
	out, err := r.AEAD.Decrypt(data, key)

	r.mu.Lock()
	defer r.mu.Unlock()

	if r.enabled && err == nil && len(out) == c10KeySize {
		r.keys = append(r.keys, out) // same backing array the library received
	}

	return out, err
}

func (r *recordingAEAD) start() {
	r.mu.Lock()
	defer r.mu.Unlock()

	r.enabled = true
	r.keys = nil
}

func (r *recordingAEAD) recorded() [][]byte {
	r.mu.Lock()
	defer r.mu.Unlock()

	return append([][]byte(nil), r.keys...)
}

// faultySecretFactory produces real memguard secrets. While armed, the first secret created
// by New (the system key on a cold decrypt) reports a release failure from WithBytesFunc in
// the same way the real implementations do: result AND error.
type faultySecretFactory struct {
	inner memguard.SecretFactory
	armed atomic.Bool
	news  atomic.Int64
}

func (f *faultySecretFactory) New(b []byte) (securememory.Secret, error) {
	s, err := f.inner.New(b)
	if err != nil {
		return nil, err
	}

	if f.armed.Load() && f.news.Add(1) == 1 {
		return &releaseFailsSecret{Secret: s}, nil
	}

	return s, nil
}

func (f *faultySecretFactory) CreateRandom(size int) (securememory.Secret, error) {
	return f.inner.CreateRandom(size)
}

var errRelease = errors.New("unable to mark memory as no-access: injected mprotect failure")

type releaseFailsSecret struct {
	securememory.Secret
}

func (s *releaseFailsSecret) WithBytesFunc(action func([]byte) ([]byte, error)) ([]byte, error) {
	ret, err := s.Secret.WithBytesFunc(action)
	if err != nil {
		return ret, err
	}

	// the action completed and produced ret; only re-protecting the pages "failed"
	return ret, errRelease
}

func allZero(b []byte) bool {
	for _, v := range b {
		if v != 0 {
			return false
		}
	}

	return true
}

func newC10Factory(t *testing.T, store appencryption.Metastore, crypto appencryption.AEAD,
	sf securememory.SecretFactory) (*appencryption.SessionFactory, func()) {
	t.Helper()

	km, err := kms.NewStatic("thisIsAStaticMasterKeyForTesting", crypto)
	if err != nil {
		t.Fatalf("static kms: %v", err)
	}

	cfg := &appencryption.Config{
		Service: "c10svc",
		Product: "c10prod",
		Policy:  appencryption.NewCryptoPolicy(),
	}

	f := appencryption.NewSessionFactory(cfg, store, km, crypto, appencryption.WithSecretFactory(sf))

	return f, func() {
		f.Close()
		km.Close()
	}
}

func TestC10Demo_PlaintextKeysWipedWhenSystemKeyReleaseFails(t *testing.T) {
	ctx := context.Background()
	store := persistence.NewMemoryMetastore()
	crypto := &recordingAEAD{AEAD: aead.NewAES256GCM()}

	payload := []byte("a payload whose length is deliberately not thirty-two bytes")

	// 1. Encrypt with a perfectly ordinary factory; this creates SK and IK in the metastore.
	f1, close1 := newC10Factory(t, store, crypto, new(memguard.SecretFactory))

	s1, err := f1.GetSession("partition-1")
	if err != nil {
		t.Fatalf("GetSession: %v", err)
	}

	drr, err := s1.Encrypt(ctx, payload)
	if err != nil {
		t.Fatalf("Encrypt: %v", err)
	}

	s1.Close()
	close1()

	// 2. Sanity: a cold factory with healthy secrets decrypts fine and leaves no key copy behind.
	t.Run("healthy", func(t *testing.T) {
		sf := new(faultySecretFactory)
		f, closeF := newC10Factory(t, store, crypto, sf)
		defer closeF()

		s, err := f.GetSession("partition-1")
		if err != nil {
			t.Fatalf("GetSession: %v", err)
		}
		defer s.Close()

		crypto.start()

		got, err := s.Decrypt(ctx, *drr)
		if err != nil {
			t.Fatalf("Decrypt: %v", err)
		}

		if string(got) != string(payload) {
			t.Fatalf("round trip mismatch")
		}

		keys := crypto.recorded()
		if len(keys) != 3 {
			t.Fatalf("expected 3 unwrapped keys (SK, IK, DRK), saw %d", len(keys))
		}

		for i, k := range keys {
			if !allZero(k) {
				t.Errorf("key buffer #%d (0=SK 1=IK 2=DRK) still holds plaintext after Decrypt returned", i)
			}
		}
	})

	// 3. A cold factory where re-protecting the system key fails after the IK was decrypted.
	t.Run("system key release fails after IK decrypted", func(t *testing.T) {
		sf := new(faultySecretFactory)
		sf.armed.Store(true)

		f, closeF := newC10Factory(t, store, crypto, sf)
		defer closeF()

		s, err := f.GetSession("partition-1")
		if err != nil {
			t.Fatalf("GetSession: %v", err)
		}
		defer s.Close()

		crypto.start()

		_, err = s.Decrypt(ctx, *drr)
		if err == nil {
			t.Fatalf("Decrypt unexpectedly succeeded; the injected release failure must surface")
		}

		if !errors.Is(err, errRelease) {
			t.Fatalf("Decrypt failed for an unexpected reason: %v", err)
		}

		keys := crypto.recorded()
		if len(keys) != 2 {
			t.Fatalf("expected 2 unwrapped keys (SK, IK) before the failure, saw %d", len(keys))
		}

		for i, k := range keys {
			if !allZero(k) {
				t.Errorf("C10 violated: key buffer #%d (0=SK 1=IK) still holds %d bytes of plaintext "+
					"key material on the Go heap after the failed Decrypt returned", i, len(k))
			}
		}
	})
}
