package kms

import (
	"context"
	"encoding/json"
	"errors"
	"testing"

	awskms "github.com/aws/aws-sdk-go-v2/service/kms"
)

// Replays the failed obligation (*AWSKMS).DecryptKey/post:kms-data-key-plaintext-wiped (SDK v2 plugin).
type gocvFakeClient struct{ plaintext []byte }

func (f *gocvFakeClient) Encrypt(context.Context, *awskms.EncryptInput, ...func(*awskms.Options)) (*awskms.EncryptOutput, error) {
	return nil, errors.New("unused")
}

func (f *gocvFakeClient) GenerateDataKey(context.Context, *awskms.GenerateDataKeyInput, ...func(*awskms.Options)) (*awskms.GenerateDataKeyOutput, error) {
	return nil, errors.New("unused")
}

func (f *gocvFakeClient) Decrypt(context.Context, *awskms.DecryptInput, ...func(*awskms.Options)) (*awskms.DecryptOutput, error) {
	return &awskms.DecryptOutput{Plaintext: f.plaintext}, nil
}

type gocvFakeAEAD struct{ fail bool }

func (a gocvFakeAEAD) Encrypt(data, key []byte) ([]byte, error) { return data, nil }
func (a gocvFakeAEAD) Decrypt(data, key []byte) ([]byte, error) {
	if a.fail {
		return nil, errors.New("authentication failed")
	}
	return append([]byte{}, data...), nil
}

func TestGocvReplay_AWSv2DecryptKeyWipesDataKey(t *testing.T) {
	for _, fail := range []bool{false, true} {
		fake := &gocvFakeClient{plaintext: []byte("0123456789abcdef0123456789abcdef")}
		a := &AWSKMS{crypto: gocvFakeAEAD{fail: fail}, clients: []regionalClient{{Client: fake, Region: "us-west-2", MasterKeyARN: "arn"}}}
		env, _ := json.Marshal(envelope{EncryptedKey: []byte("sealed"), KEKs: []regionalKEK{{Region: "us-west-2", ARN: "arn", EncryptedKEK: []byte("kek")}}})
		_, _ = a.DecryptKey(context.Background(), env)
		for i, b := range fake.plaintext {
			if b != 0 {
				t.Fatalf("aead failure=%v: data key plaintext byte %d is %#x after DecryptKey returned, want 0", fail, i, b)
			}
		}
	}
}
