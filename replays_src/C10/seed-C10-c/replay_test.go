// C10 demonstration: a decrypted intermediate key must not stay on the Go heap
// when releasing the parent (system) key fails after the unwrap succeeded.
//
// Placement: go/appencryption/c10_release_fault_demo_test.go
// Run with:
//
//	export GOPROXY=off GOSUMDB=off GOTOOLCHAIN=local
//	cd go/appencryption && go test -vet=off -count=1 -run TestC10Demo -v .
//
// Expected: PASS on the unchanged tree, FAIL with the seeded change applied.
//
// How the fault is injected: the session factory is given a SecretFactory whose
// secrets behave exactly like the real protected-memory/memguard secrets, except
// that, once armed, the "release" step that follows a successful WithBytesFunc
// action reports an error (this is what the real implementations do when the
// mprotect(PROT_NONE) call in release() fails: they return the action's result
// together with the release error). The AEAD is wrapped so that the test keeps a
// reference to every buffer Decrypt hands out, and can inspect them afterwards.
package appencryption_test

import (
	"context"
	"errors"
	"sync"
	"sync/atomic"
	"testing"

	"github.com/godaddy/asherah/go/securememory"
	"github.com/godaddy/asherah/go/securememory/memguard"

	"github.com/godaddy/asherah/go/appencryption"
	"github.com/godaddy/asherah/go/appencryption/pkg/crypto/aead"
	"github.com/godaddy/asherah/go/appencryption/pkg/kms"
	"github.com/godaddy/asherah/go/appencryption/pkg/persistence"
)

// faultySecretFactory wraps the default secret factory. Secrets it creates fail
// their release step (after the action has run) while armed is non-zero.
type faultySecretFactory struct {
	inner securememory.SecretFactory
	armed int32
}

func (f *faultySecretFactory) New(b []byte) (securememory.Secret, error) {
	s, err := f.inner.New(b)
	if err != nil {
		return nil, err
	}

	return &faultySecret{Secret: s, f: f}, nil
}

func (f *faultySecretFactory) CreateRandom(size int) (securememory.Secret, error) {
	s, err := f.inner.CreateRandom(size)
	if err != nil {
		return nil, err
	}

	return &faultySecret{Secret: s, f: f}, nil
}

type faultySecret struct {
	securememory.Secret
	f *faultySecretFactory
}

var errInjectedRelease = errors.New("injected fault: unable to mark memory as no-access")

// WithBytesFunc mirrors the real implementations: when release fails after the
// action succeeded, the action's result is returned together with the error.
func (s *faultySecret) WithBytesFunc(action func([]byte) ([]byte, error)) ([]byte, error) {
	ret, err := s.Secret.WithBytesFunc(action)
	if err == nil && atomic.LoadInt32(&s.f.armed) != 0 {
		return ret, errInjectedRelease
	}

	return ret, err
}

// recordingAEAD remembers every buffer returned by Decrypt.
type recordingAEAD struct {
	appencryption.AEAD
	mu      sync.Mutex
	outputs [][]byte
}

func (r *recordingAEAD) Decrypt(data, key []byte) ([]byte, error) {
	out, err := r.AEAD.Decrypt(data, key)

	r.mu.Lock()
	r.outputs = append(r.outputs, out)
	r.mu.Unlock()

	return out, err
}

func (r *recordingAEAD) reset() {
	r.mu.Lock()
	r.outputs = nil
	r.mu.Unlock()
}

func (r *recordingAEAD) snapshot() [][]byte {
	r.mu.Lock()
	defer r.mu.Unlock()

	return append([][]byte(nil), r.outputs...)
}

func allZero(b []byte) bool {
	for _, x := range b {
		if x != 0 {
			return false
		}
	}

	return true
}

func TestC10Demo_IntermediateKeyWipedWhenParentReleaseFails(t *testing.T) {
	ctx := context.Background()

	crypto := &recordingAEAD{AEAD: aead.NewAES256GCM()}
	secrets := &faultySecretFactory{inner: new(memguard.SecretFactory)}

	staticKMS, err := kms.NewStatic("thisIsAStaticMasterKeyForTesting", aead.NewAES256GCM())
	if err != nil {
		t.Fatal(err)
	}
	defer staticKMS.Close()

	metastore := persistence.NewMemoryMetastore()

	// System keys are cached by the factory, intermediate keys per session (not shared):
	// a fresh session therefore has to unwrap the stored IK with the cached SK.
	policy := appencryption.NewCryptoPolicy()
	config := &appencryption.Config{Policy: policy, Product: "c10", Service: "demo"}

	factory := appencryption.NewSessionFactory(config, metastore, staticKMS, crypto,
		appencryption.WithSecretFactory(secrets))
	defer factory.Close()

	// Step 1 (no faults): create SK + IK, and a data row record.
	s1, err := factory.GetSession("partition-1")
	if err != nil {
		t.Fatal(err)
	}

	payload := []byte("hello world") // 11 bytes: cannot be mistaken for a 32-byte key
	drr, err := s1.Encrypt(ctx, payload)
	if err != nil {
		t.Fatal(err)
	}

	got, err := s1.Decrypt(ctx, *drr)
	if err != nil || string(got) != string(payload) {
		t.Fatalf("sanity round trip failed: %q, %v", got, err)
	}

	s1.Close()

	check := func(t *testing.T, op string, opErr error) {
		t.Helper()

		if opErr == nil {
			t.Fatalf("%s: expected the injected release fault to surface as an error", op)
		}

		outs := crypto.snapshot()
		if len(outs) == 0 {
			t.Fatalf("%s: expected at least one key unwrap to have happened", op)
		}

		for i, b := range outs {
			if len(b) == appencryption.AES256KeySize && !allZero(b) {
				t.Errorf("%s failed (%v) but decrypted key buffer #%d (%d bytes) was left un-wiped on the heap",
					op, opErr, i, len(b))
			}
		}
	}

	// Step 2: fresh session (empty IK cache), SK cached; releasing the SK fails right after
	// it successfully unwrapped the IK.
	t.Run("decrypt", func(t *testing.T) {
		s2, err := factory.GetSession("partition-1")
		if err != nil {
			t.Fatal(err)
		}
		defer s2.Close()

		crypto.reset()
		atomic.StoreInt32(&secrets.armed, 1)

		_, opErr := s2.Decrypt(ctx, *drr)

		atomic.StoreInt32(&secrets.armed, 0)

		check(t, "Decrypt", opErr)
	})

	t.Run("encrypt", func(t *testing.T) {
		s3, err := factory.GetSession("partition-1")
		if err != nil {
			t.Fatal(err)
		}
		defer s3.Close()

		crypto.reset()
		atomic.StoreInt32(&secrets.armed, 1)

		_, opErr := s3.Encrypt(ctx, payload)

		atomic.StoreInt32(&secrets.armed, 0)

		check(t, "Encrypt", opErr)
	})
}
