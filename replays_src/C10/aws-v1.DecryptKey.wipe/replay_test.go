package kms

import (
	"context"
	"encoding/json"
	"errors"
	"testing"

	"github.com/aws/aws-sdk-go/aws"
	"github.com/aws/aws-sdk-go/aws/request"
	awskms "github.com/aws/aws-sdk-go/service/kms"
)

// Replays the failed obligation (*AWSKMS).DecryptKey/post:kms-data-key-plaintext-wiped: after DecryptKey returns (success
// or failure), the data-key plaintext that the regional KMS handed back must be all zero.
type gocvFakeKMS struct {
	plaintext []byte
}

func (f *gocvFakeKMS) EncryptWithContext(aws.Context, *awskms.EncryptInput, ...request.Option) (*awskms.EncryptOutput, error) {
	return nil, errors.New("unused")
}

func (f *gocvFakeKMS) GenerateDataKeyWithContext(aws.Context, *awskms.GenerateDataKeyInput, ...request.Option) (*awskms.GenerateDataKeyOutput, error) {
	return nil, errors.New("unused")
}

func (f *gocvFakeKMS) DecryptWithContext(aws.Context, *awskms.DecryptInput, ...request.Option) (*awskms.DecryptOutput, error) {
	return &awskms.DecryptOutput{Plaintext: f.plaintext}, nil
}

type gocvFakeAEAD struct{ fail bool }

func (a gocvFakeAEAD) Encrypt(data, key []byte) ([]byte, error) { return data, nil }
func (a gocvFakeAEAD) Decrypt(data, key []byte) ([]byte, error) {
	if a.fail {
		return nil, errors.New("authentication failed")
	}
	return append([]byte{}, data...), nil
}

func TestGocvReplay_AWSv1DecryptKeyWipesDataKey(t *testing.T) {
	for _, fail := range []bool{false, true} {
		fake := &gocvFakeKMS{plaintext: []byte("0123456789abcdef0123456789abcdef")}
		m := &AWSKMS{Crypto: gocvFakeAEAD{fail: fail}, Clients: []AWSKMSClient{{KMS: fake, Region: "us-west-2", ARN: "arn"}}}
		env, _ := json.Marshal(envelope{EncryptedKey: []byte("sealed"), KMSKEKs: keys{{Region: "us-west-2", ARN: "arn", EncryptedKEK: []byte("kek")}}})
		_, _ = m.DecryptKey(context.Background(), env)
		for i, b := range fake.plaintext {
			if b != 0 {
				t.Fatalf("aead failure=%v: data key plaintext byte %d is %#x after DecryptKey returned, want 0", fail, i, b)
			}
		}
	}
}
