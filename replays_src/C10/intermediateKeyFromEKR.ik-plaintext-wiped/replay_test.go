package appencryption

// Replay for obligation intermediateKeyFromEKR/post:ik-plaintext-wiped (property C10).
// Counterexample shape from the solver: the callback ran (cb_called), the AEAD decrypt succeeded,
// and WithBytesFunc still returned a non-nil error (release of the secret failed).
// Injected by `go test -overlay`; nothing is written to /repo.

import (
	"errors"
	"testing"

	"crypto/aes"
	"crypto/cipher"
	"crypto/rand"

	"github.com/godaddy/asherah/go/securememory/memguard"
)

// replayGCM is AES-256-GCM with the documented layout ciphertext|tag|nonce (pkg/crypto/aead cannot be imported from
// an in-package test: import cycle).
type replayGCM struct{}

func (replayGCM) Encrypt(data, key []byte) ([]byte, error) {
	b, err := aes.NewCipher(key)
	if err != nil {
		return nil, err
	}
	g, err := cipher.NewGCM(b)
	if err != nil {
		return nil, err
	}
	nonce := make([]byte, 12)
	rand.Read(nonce)
	out := g.Seal(nil, nonce, data, nil)
	return append(out, nonce...), nil
}

func (replayGCM) Decrypt(data, key []byte) ([]byte, error) {
	b, err := aes.NewCipher(key)
	if err != nil {
		return nil, err
	}
	g, err := cipher.NewGCM(b)
	if err != nil {
		return nil, err
	}
	if len(data) < 12 {
		return nil, errors.New("short")
	}
	n := len(data) - 12
	return g.Open(nil, data[n:], data[:n], nil)
}

// skWithFailingRelease behaves like a protected-memory secret whose final mprotect fails:
// the action runs and its result is returned together with an error.
type skWithFailingRelease struct {
	key      []byte
	captured []byte
}

func (s *skWithFailingRelease) Created() int64 { return 100 }
func (s *skWithFailingRelease) Revoked() bool  { return false }
func (s *skWithFailingRelease) WithBytesFunc(action func([]byte) ([]byte, error)) ([]byte, error) {
	ret, err := action(s.key)
	s.captured = ret
	if err == nil {
		err = errors.New("unable to mark memory as no-access")
	}
	return ret, err
}


func TestGocvReplay_IKPlaintextWiped(t *testing.T) {
	crypto := replayGCM{}
	skBytes := make([]byte, 32)
	for i := range skBytes {
		skBytes[i] = byte(i + 1)
	}
	ikBytes := make([]byte, 32)
	for i := range ikBytes {
		ikBytes[i] = byte(0xA0 + i%16)
	}
	enc, err := crypto.Encrypt(ikBytes, skBytes)
	if err != nil {
		t.Fatal(err)
	}
	e := &envelopeEncryption{Crypto: crypto, SecretFactory: new(memguard.SecretFactory), Policy: NewCryptoPolicy()}
	sk := &skWithFailingRelease{key: skBytes}
	ekr := &EnvelopeKeyRecord{Created: 100, EncryptedKey: enc, ParentKeyMeta: &KeyMeta{ID: "sk", Created: 100}}
	k, err := e.intermediateKeyFromEKR(sk, ekr)
	if k != nil {
		k.Close()
	}
	if sk.captured == nil {
		t.Skip("callback result not observed")
	}
	for i, b := range sk.captured {
		if b != 0 {
			t.Fatalf("CONTRACT VIOLATED (C10 ik-plaintext-wiped): intermediateKeyFromEKR returned (err=%v) leaving decrypted intermediate-key byte %d = %#x in an ordinary heap buffer", err, i, b)
		}
	}
}
