// C10 demonstration: transient plaintext key copies must be wiped even when
// the operation fails after the plaintext exists.
//
// PLACEMENT: copy this file to
//     go/appencryption/c10_drk_wipe_demo_test.go
// (module github.com/godaddy/asherah/go/appencryption, external test package
// appencryption_test).
//
// RUN:
//     export GOPROXY=off GOSUMDB=off GOTOOLCHAIN=local
//     cd go/appencryption && go test -vet=off -count=1 -run 'TestC10_' -v .
//
// Expected: PASS on the unchanged tree, FAIL (TestC10_DRKWipedWhenPayloadDecryptFails)
// with the seeded change applied. TestC10_DRKWipedOnSuccessfulDecrypt is a control
// that passes in both trees.
package appencryption_test

import (
	"bytes"
	"context"
	"sync"
	"testing"

	"github.com/godaddy/asherah/go/appencryption"
	"github.com/godaddy/asherah/go/appencryption/pkg/crypto/aead"
	"github.com/godaddy/asherah/go/appencryption/pkg/kms"
	"github.com/godaddy/asherah/go/appencryption/pkg/persistence"
)

// decryptCall is one observed AEAD.Decrypt invocation.
type decryptCall struct {
	input  []byte // copy of the ciphertext argument
	output []byte // the SAME slice (same backing array) that was handed to the caller
	err    error
}

// recordingAEAD delegates to a real AEAD and remembers every buffer returned by Decrypt,
// so the test can look at those heap buffers after the public API call has returned.
type recordingAEAD struct {
	appencryption.AEAD

	mu    sync.Mutex
	calls []decryptCall
}

func (r *recordingAEAD) Decrypt(data, key []byte) ([]byte, error) {
	out, err := r.AEAD.Decrypt(data, key)

	r.mu.Lock()
	r.calls = append(r.calls, decryptCall{input: append([]byte(nil), data...), output: out, err: err})
	r.mu.Unlock()

	return out, err
}

func (r *recordingAEAD) reset() {
	r.mu.Lock()
	r.calls = nil
	r.mu.Unlock()
}

func (r *recordingAEAD) snapshot() []decryptCall {
	r.mu.Lock()
	defer r.mu.Unlock()

	return append([]decryptCall(nil), r.calls...)
}

func allZero(b []byte) bool {
	for _, v := range b {
		if v != 0 {
			return false
		}
	}

	return true
}

type c10Fixture struct {
	crypto  *recordingAEAD
	factory *appencryption.SessionFactory
	session *appencryption.Session
	drr     *appencryption.DataRowRecord
	payload []byte
}

func newC10Fixture(t *testing.T) *c10Fixture {
	t.Helper()

	crypto := &recordingAEAD{AEAD: aead.NewAES256GCM()}

	// the static KMS gets its own plain AEAD so that only the envelope layer's Decrypt calls
	// (IK and DRK unwraps, payload decrypt) are recorded.
	k, err := kms.NewStatic("thisIsAStaticMasterKeyForTesting", aead.NewAES256GCM())
	if err != nil {
		t.Fatalf("NewStatic: %v", err)
	}

	t.Cleanup(k.Close)

	factory := appencryption.NewSessionFactory(
		&appencryption.Config{Service: "c10svc", Product: "c10prod", Policy: appencryption.NewCryptoPolicy()},
		persistence.NewMemoryMetastore(),
		k,
		crypto,
	)
	t.Cleanup(func() { factory.Close() })

	sess, err := factory.GetSession("c10-partition")
	if err != nil {
		t.Fatalf("GetSession: %v", err)
	}

	t.Cleanup(func() { sess.Close() })

	payload := []byte("some perfectly ordinary payload")

	drr, err := sess.Encrypt(context.Background(), payload)
	if err != nil {
		t.Fatalf("Encrypt: %v", err)
	}

	return &c10Fixture{crypto: crypto, factory: factory, session: sess, drr: drr, payload: payload}
}

// assertKeyBuffersWiped checks that every buffer AEAD.Decrypt handed back for an *encrypted key*
// (i.e. every call whose ciphertext was not payloadCiphertext) is all zeroes.
func assertKeyBuffersWiped(t *testing.T, calls []decryptCall, drkCiphertext, payloadCiphertext []byte) {
	t.Helper()

	sawDRK := false

	for i, c := range calls {
		if bytes.Equal(c.input, payloadCiphertext) {
			continue // this is the payload decrypt, not a key unwrap
		}

		if c.err != nil || len(c.output) == 0 {
			continue // no plaintext key was produced
		}

		isDRK := bytes.Equal(c.input, drkCiphertext)
		sawDRK = sawDRK || isDRK

		if !allZero(c.output) {
			t.Errorf("Decrypt call #%d (DRK unwrap: %v): %d-byte plaintext key buffer was NOT wiped by the time "+
				"the operation returned", i, isDRK, len(c.output))
		}
	}

	if !sawDRK {
		t.Fatalf("test bug: never observed the DRK being unwrapped")
	}
}

// Control: happy path. Passes with and without the seeded change.
func TestC10_DRKWipedOnSuccessfulDecrypt(t *testing.T) {
	f := newC10Fixture(t)
	f.crypto.reset()

	got, err := f.session.Decrypt(context.Background(), *f.drr)
	if err != nil {
		t.Fatalf("Decrypt: %v", err)
	}

	if !bytes.Equal(got, f.payload) {
		t.Fatalf("round trip mismatch")
	}

	assertKeyBuffersWiped(t, f.crypto.snapshot(), f.drr.Key.EncryptedKey, f.drr.Data)
}

// The interesting case: the DRK unwraps fine (so its plaintext is on the Go heap), but the payload
// ciphertext has been corrupted/truncated in storage, so the second AEAD step fails. The plaintext
// DRK buffer must still be wiped before Decrypt returns its error.
func TestC10_DRKWipedWhenPayloadDecryptFails(t *testing.T) {
	for name, corrupt := range map[string]func([]byte) []byte{
		"bit flip in payload ciphertext": func(d []byte) []byte {
			d = append([]byte(nil), d...)
			d[0] ^= 0x01
			return d
		},
		"truncated payload ciphertext": func(d []byte) []byte {
			return append([]byte(nil), d[:len(d)-5]...)
		},
	} {
		t.Run(name, func(t *testing.T) {
			f := newC10Fixture(t)

			bad := appencryption.DataRowRecord{Key: f.drr.Key, Data: corrupt(f.drr.Data)}

			f.crypto.reset()

			got, err := f.session.Decrypt(context.Background(), bad)
			if err == nil {
				t.Fatalf("expected Decrypt to fail on corrupted payload, got %q", got)
			}

			assertKeyBuffersWiped(t, f.crypto.snapshot(), bad.Key.EncryptedKey, bad.Data)
		})
	}
}
