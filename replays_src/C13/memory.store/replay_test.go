// Demonstration for seed C13-a.
//
// Placement: go/appencryption/pkg/persistence/memory_seed_c13_test.go
// Run with:
//
//	export GOPROXY=off GOSUMDB=off GOTOOLCHAIN=local
//	cd go/appencryption && go test -vet=off -count=1 -run 'TestSeedC13' ./pkg/persistence/
//
// Expected: PASS on the unchanged tree, FAIL with the seeded change applied.
package persistence

import (
	"context"
	"testing"

	"github.com/stretchr/testify/assert"
	"github.com/stretchr/testify/require"

	"github.com/godaddy/asherah/go/appencryption"
)

// Two writers race to create the key for the same (id, created) slot, each with its own
// freshly generated key material. The metastore is insert-only: the loser must be told
// "false" AND the winner's record must remain exactly what every later Load/LoadLatest returns.
func TestSeedC13_DuplicateStoreWithDifferentContentMustNotChangeRecord(t *testing.T) {
	ctx := context.Background()
	m := NewMemoryMetastore()

	const (
		id      = "_IK_partition_service_product"
		created = int64(1700000000)
	)

	winner := &appencryption.EnvelopeKeyRecord{
		ID:            id,
		Created:       created,
		EncryptedKey:  []byte{0x00, 0x01, 0xfe, 0xff, 'w', 'i', 'n'},
		ParentKeyMeta: &appencryption.KeyMeta{ID: "_SK_service_product", Created: created - 60},
	}
	loser := &appencryption.EnvelopeKeyRecord{
		ID:            id,
		Created:       created,
		Revoked:       true,
		EncryptedKey:  []byte{0xde, 0xad, 0xbe, 0xef, 'l', 'o', 's', 'e'},
		ParentKeyMeta: &appencryption.KeyMeta{ID: "_SK_service_product", Created: created - 30},
	}

	// an older record for the same id, and a record for an unrelated id, for good measure
	older := &appencryption.EnvelopeKeyRecord{ID: id, Created: created - 3600, EncryptedKey: []byte("older")}
	other := &appencryption.EnvelopeKeyRecord{ID: id + "_other", Created: created, EncryptedKey: []byte("other")}

	ok, err := m.Store(ctx, id, older.Created, older)
	require.NoError(t, err)
	require.True(t, ok)

	ok, err = m.Store(ctx, other.ID, other.Created, other)
	require.NoError(t, err)
	require.True(t, ok)

	ok, err = m.Store(ctx, id, created, winner)
	require.NoError(t, err)
	require.True(t, ok, "first store of (id, created) must succeed")

	ok, err = m.Store(ctx, id, created, loser)
	require.NoError(t, err)
	require.False(t, ok, "duplicate store of (id, created) must report false")

	expected := appencryption.EnvelopeKeyRecord{
		ID:            id,
		Created:       created,
		EncryptedKey:  []byte{0x00, 0x01, 0xfe, 0xff, 'w', 'i', 'n'},
		ParentKeyMeta: &appencryption.KeyMeta{ID: "_SK_service_product", Created: created - 60},
	}

	got, err := m.Load(ctx, id, created)
	require.NoError(t, err)
	require.NotNil(t, got)
	assert.Equal(t, expected, *got, "Load must return the record that was first stored, untouched by the rejected duplicate")

	latest, err := m.LoadLatest(ctx, id)
	require.NoError(t, err)
	require.NotNil(t, latest)
	assert.Equal(t, expected, *latest, "LoadLatest must return the record that was first stored, untouched by the rejected duplicate")

	// the neighbours are unaffected either way
	got, err = m.Load(ctx, id, older.Created)
	require.NoError(t, err)
	assert.Same(t, older, got)

	got, err = m.Load(ctx, other.ID, other.Created)
	require.NoError(t, err)
	assert.Same(t, other, got)
}
