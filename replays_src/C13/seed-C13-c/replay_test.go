// Demonstration for C13 (read-your-writes on the aws-v2 DynamoDB metastore).
//
// Placement: go/appencryption/plugins/aws-v2/dynamodb/metastore/metastore_consistency_demo_test.go
//
// Run with:
//
//	cd go/appencryption && GOPROXY=off GOSUMDB=off GOTOOLCHAIN=local \
//	  go test -vet=off -count=1 -run 'TestDemo_C13_ReadYourWrites' ./plugins/aws-v2/dynamodb/metastore/
//
// The test drives the real Metastore against a small deterministic model of a DynamoDB table that,
// like the real service, keeps a leader copy (all writes, and reads with ConsistentRead=true) and a
// lagging replica (reads without ConsistentRead). The replica only catches up when the test calls
// replicate(), so "a read that arrives before replication" is forced rather than raced.
package metastore_test

import (
	"context"
	"fmt"
	"sort"
	"strconv"
	"testing"

	"github.com/aws/aws-sdk-go-v2/aws"
	"github.com/aws/aws-sdk-go-v2/service/dynamodb"
	"github.com/aws/aws-sdk-go-v2/service/dynamodb/types"
	"github.com/stretchr/testify/assert"
	"github.com/stretchr/testify/require"

	"github.com/godaddy/asherah/go/appencryption"
	"github.com/godaddy/asherah/go/appencryption/plugins/aws-v2/dynamodb/metastore"
)

// laggingTable is one copy (leader or replica) of every table: table -> partition key -> sort key -> item.
type laggingTable map[string]map[string]map[int64]map[string]types.AttributeValue

func (t laggingTable) put(table, id string, created int64, item map[string]types.AttributeValue) {
	if t[table] == nil {
		t[table] = map[string]map[int64]map[string]types.AttributeValue{}
	}

	if t[table][id] == nil {
		t[table][id] = map[int64]map[string]types.AttributeValue{}
	}

	t[table][id][created] = item
}

// laggingDynamoDB models strongly/eventually consistent reads deterministically.
type laggingDynamoDB struct {
	region  string
	leader  laggingTable
	replica laggingTable
}

func newLaggingDynamoDB(region string) *laggingDynamoDB {
	return &laggingDynamoDB{region: region, leader: laggingTable{}, replica: laggingTable{}}
}

// replicate brings the replica up to date with the leader.
func (c *laggingDynamoDB) replicate() {
	for table, ids := range c.leader {
		for id, rows := range ids {
			for created, item := range rows {
				c.replica.put(table, id, created, item)
			}
		}
	}
}

func (c *laggingDynamoDB) view(consistent *bool) laggingTable {
	if consistent != nil && *consistent {
		return c.leader
	}

	return c.replica
}

func (c *laggingDynamoDB) Options() dynamodb.Options {
	return dynamodb.Options{Region: c.region}
}

func itemKey(m map[string]types.AttributeValue) (string, int64, error) {
	id, ok := m["Id"].(*types.AttributeValueMemberS)
	if !ok {
		return "", 0, fmt.Errorf("missing/invalid partition key")
	}

	n, ok := m["Created"].(*types.AttributeValueMemberN)
	if !ok {
		return "", 0, fmt.Errorf("missing/invalid sort key")
	}

	created, err := strconv.ParseInt(n.Value, 10, 64)

	return id.Value, created, err
}

func (c *laggingDynamoDB) PutItem(_ context.Context, in *dynamodb.PutItemInput, _ ...func(*dynamodb.Options)) (*dynamodb.PutItemOutput, error) {
	id, created, err := itemKey(in.Item)
	if err != nil {
		return nil, err
	}

	// Conditions are always evaluated against the leader.
	if cond := aws.ToString(in.ConditionExpression); cond != "" {
		if cond != "attribute_not_exists(Id)" && cond != "attribute_not_exists(Created)" {
			return nil, fmt.Errorf("model does not understand condition %q", cond)
		}

		if _, exists := c.leader[*in.TableName][id][created]; exists {
			return nil, &types.ConditionalCheckFailedException{Message: aws.String("The conditional request failed")}
		}
	}

	c.leader.put(*in.TableName, id, created, in.Item)

	return &dynamodb.PutItemOutput{}, nil
}

func (c *laggingDynamoDB) GetItem(_ context.Context, in *dynamodb.GetItemInput, _ ...func(*dynamodb.Options)) (*dynamodb.GetItemOutput, error) {
	id, created, err := itemKey(in.Key)
	if err != nil {
		return nil, err
	}

	// (projection is not modelled: returning extra attributes is harmless to the caller)
	return &dynamodb.GetItemOutput{Item: c.view(in.ConsistentRead)[*in.TableName][id][created]}, nil
}

func (c *laggingDynamoDB) Query(_ context.Context, in *dynamodb.QueryInput, _ ...func(*dynamodb.Options)) (*dynamodb.QueryOutput, error) {
	// The metastore only ever issues "<partition key> = <value>" key conditions.
	if len(in.ExpressionAttributeValues) != 1 {
		return nil, fmt.Errorf("model expects exactly one expression value, got %d", len(in.ExpressionAttributeValues))
	}

	var id string

	for _, v := range in.ExpressionAttributeValues {
		s, ok := v.(*types.AttributeValueMemberS)
		if !ok {
			return nil, fmt.Errorf("model expects a string partition key value")
		}

		id = s.Value
	}

	rows := c.view(in.ConsistentRead)[*in.TableName][id]

	createds := make([]int64, 0, len(rows))
	for created := range rows {
		createds = append(createds, created)
	}

	forward := in.ScanIndexForward == nil || *in.ScanIndexForward
	sort.Slice(createds, func(i, j int) bool {
		if forward {
			return createds[i] < createds[j]
		}

		return createds[i] > createds[j]
	})

	if in.Limit != nil && int(*in.Limit) < len(createds) {
		createds = createds[:*in.Limit]
	}

	out := &dynamodb.QueryOutput{}
	for _, created := range createds {
		out.Items = append(out.Items, rows[created])
	}

	out.Count = int32(len(out.Items))

	return out, nil
}

func demoRecord(created int64, key string) *appencryption.EnvelopeKeyRecord {
	return &appencryption.EnvelopeKeyRecord{
		Created:      created,
		EncryptedKey: []byte(key),
		ParentKeyMeta: &appencryption.KeyMeta{
			ID:      "_SK_service_product",
			Created: created - 60,
		},
	}
}

func TestDemo_C13_ReadYourWrites(t *testing.T) {
	for _, suffix := range []bool{false, true} {
		suffix := suffix

		t.Run(fmt.Sprintf("regionSuffix=%v", suffix), func(t *testing.T) {
			ctx := context.Background()
			client := newLaggingDynamoDB("us-west-2")

			db, err := metastore.NewDynamoDB(
				metastore.WithDynamoDBClient(client),
				metastore.WithTableName("CustomKeys"),
				metastore.WithRegionSuffix(suffix),
			)
			require.NoError(t, err)

			const id = "_IK_partition_service_product"

			// Nothing stored yet.
			got, err := db.LoadLatest(ctx, id)
			require.NoError(t, err)
			require.Nil(t, got)

			// First key: the Store has completed, so every later read must see it, even
			// though the replica has not caught up yet.
			ok, err := db.Store(ctx, id, 1000, demoRecord(1000, "first"))
			require.NoError(t, err)
			require.True(t, ok)

			got, err = db.Load(ctx, id, 1000)
			require.NoError(t, err)
			require.NotNil(t, got, "Load must see a completed Store")
			assert.Equal(t, []byte("first"), got.EncryptedKey)

			got, err = db.LoadLatest(ctx, id)
			require.NoError(t, err)
			require.NotNil(t, got, "LoadLatest must see a completed Store")
			assert.Equal(t, int64(1000), got.Created)
			assert.Equal(t, []byte("first"), got.EncryptedKey)

			// The replica catches up, then a rotation stores a newer key.
			client.replicate()

			ok, err = db.Store(ctx, id, 2000, demoRecord(2000, "second"))
			require.NoError(t, err)
			require.True(t, ok)

			got, err = db.LoadLatest(ctx, id)
			require.NoError(t, err)
			require.NotNil(t, got)
			assert.Equal(t, int64(2000), got.Created, "LoadLatest must return the greatest creation time stored so far")
			assert.Equal(t, []byte("second"), got.EncryptedKey)

			// Duplicates are still refused and leave the stored record alone.
			ok, err = db.Store(ctx, id, 2000, demoRecord(2000, "imposter"))
			require.Error(t, err)
			require.False(t, ok)

			got, err = db.Load(ctx, id, 2000)
			require.NoError(t, err)
			require.NotNil(t, got)
			assert.Equal(t, []byte("second"), got.EncryptedKey)
		})
	}
}
