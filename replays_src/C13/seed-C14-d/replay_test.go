// Demonstration for seed C14-d (racing key creators / metastore never overwritten).
//
// PLACE THIS FILE AT:
//
//	go/appencryption/pkg/persistence/memory_racing_store_demo_test.go
//
// RUN IT WITH (the sandbox is offline, hence the env vars; do NOT set GOFLAGS=-mod=mod in this module):
//
//	export GOPROXY=off GOSUMDB=off GOTOOLCHAIN=local
//	cd go/appencryption && go test -vet=off -count=1 -run 'TestC14Demo' -v ./pkg/persistence/
//
// Expected: both tests PASS on the unchanged tree and both FAIL with the seeded change applied.
//
// How the interleaving is forced (deterministically, no reliance on scheduler luck):
// MemoryMetastore embeds its sync.RWMutex, so the test can take the metastore's write lock itself. While the
// test holds it, the two racing Store calls for the same (id, created) are parked at the metastore's door.
// When the test releases the lock
//   - unchanged code: the two Stores take the write lock one after the other; the second sees the first's
//     record and is refused;
//   - seeded code: both Stores were parked as *readers*, both are admitted together, both find the slot empty,
//     and only afterwards do they queue for the write lock: both insert, the second silently replacing the
//     first's record, and both report stored == true.
package persistence_test

import (
	"context"
	"sync"
	"testing"
	"time"

	"github.com/stretchr/testify/assert"
	"github.com/stretchr/testify/require"

	"github.com/godaddy/asherah/go/appencryption"
	"github.com/godaddy/asherah/go/appencryption/pkg/crypto/aead"
	"github.com/godaddy/asherah/go/appencryption/pkg/kms"
	"github.com/godaddy/asherah/go/appencryption/pkg/persistence"
)

const (
	c14ParkTime = 500 * time.Millisecond // generous: time given to goroutines to reach the metastore lock
	c14Timeout  = 20 * time.Second
)

// TestC14Demo_Store_RacingInsertsOfSameKey_ExactlyOneWinsAndRecordIsNeverReplaced exercises the metastore alone.
func TestC14Demo_Store_RacingInsertsOfSameKey_ExactlyOneWinsAndRecordIsNeverReplaced(t *testing.T) {
	const (
		id      = "_SK_service_product"
		created = int64(1700000040)
	)

	ctx := context.Background()
	m := persistence.NewMemoryMetastore()

	recs := []*appencryption.EnvelopeKeyRecord{
		{ID: id, Created: created, EncryptedKey: []byte("key material of creator A")},
		{ID: id, Created: created, EncryptedKey: []byte("key material of creator B")},
	}

	type result struct {
		stored bool
		err    error
	}

	results := make([]result, len(recs))

	m.Lock() // park both creators at the metastore's door

	var wg sync.WaitGroup

	for i := range recs {
		wg.Add(1)

		go func(i int) {
			defer wg.Done()

			stored, err := m.Store(ctx, id, created, recs[i])
			results[i] = result{stored, err}
		}(i)
	}

	time.Sleep(c14ParkTime) // both are now blocked on the metastore's lock
	m.Unlock()
	wg.Wait()

	require.NoError(t, results[0].err)
	require.NoError(t, results[1].err)

	if !assert.NotEqual(t, results[0].stored, results[1].stored,
		"exactly one of two racing inserts of the same (id, created) must be accepted; got A=%v B=%v",
		results[0].stored, results[1].stored) {
		return
	}

	winner := recs[0]
	if results[1].stored {
		winner = recs[1]
	}

	got, err := m.Load(ctx, id, created)
	require.NoError(t, err)
	require.NotNil(t, got)
	assert.Equal(t, string(winner.EncryptedKey), string(got.EncryptedKey),
		"the record in the metastore must be the one whose insert was accepted")
}

// gateKMS is a KeyManagementService whose EncryptKey (called by the SDK right before it stores a freshly
// generated system key) first reports its arrival and then waits for the test to open the gate.
type gateKMS struct {
	appencryption.KeyManagementService

	arrived chan<- struct{}
	gate    <-chan struct{}
}

func (k *gateKMS) EncryptKey(ctx context.Context, key []byte) ([]byte, error) {
	k.arrived <- struct{}{}
	<-k.gate

	return k.KeyManagementService.EncryptKey(ctx, key)
}

// TestC14Demo_TwoColdProcessesRacingToCreateTheSystemKey_ConvergeOnLoadableKeys runs the whole SDK: two cold
// "processes" (two SessionFactory instances sharing one metastore) encrypt for the same partition at the same time,
// with their system key inserts forced to overlap. Afterwards a third, cold process must be able to decrypt what
// both of them produced, because everything they encrypted under has to be in the metastore.
func TestC14Demo_TwoColdProcessesRacingToCreateTheSystemKey_ConvergeOnLoadableKeys(t *testing.T) {
	const (
		precision = time.Hour
		partition = "partition-1"
		masterKey = "thisIsAStaticMasterKeyForTesting"
	)

	// Both processes must compute the same truncated Created for their new keys: stay away from the hour boundary.
	if time.Until(time.Now().Truncate(precision).Add(precision)) < 30*time.Second {
		time.Sleep(31 * time.Second)
	}

	ctx := context.Background()
	crypto := aead.NewAES256GCM()
	m := persistence.NewMemoryMetastore()

	static, err := kms.NewStatic(masterKey, crypto)
	require.NoError(t, err)

	defer static.Close()

	newProcess := func(k appencryption.KeyManagementService) *appencryption.SessionFactory {
		policy := appencryption.NewCryptoPolicy()
		policy.CreateDatePrecision = precision

		return appencryption.NewSessionFactory(&appencryption.Config{
			Service: "service",
			Product: "product",
			Policy:  policy,
		}, m, k, crypto)
	}

	arrived := make(chan struct{}, 2)
	gate := make(chan struct{})

	type outcome struct {
		drr *appencryption.DataRowRecord
		err error
	}

	payloads := [][]byte{[]byte("written by process A"), []byte("written by process B")}
	outcomes := make([]outcome, 2)

	var wg sync.WaitGroup

	for i := range payloads {
		wg.Add(1)

		go func(i int) {
			defer wg.Done()

			factory := newProcess(&gateKMS{KeyManagementService: static, arrived: arrived, gate: gate})
			defer factory.Close()

			session, err := factory.GetSession(partition)
			if err != nil {
				outcomes[i] = outcome{nil, err}
				return
			}

			defer session.Close()

			drr, err := session.Encrypt(ctx, payloads[i])
			outcomes[i] = outcome{drr, err}
		}(i)
	}

	// Wait until both processes have found the system key missing, generated their own and are about to store it.
	for i := 0; i < 2; i++ {
		select {
		case <-arrived:
		case <-time.After(c14Timeout):
			t.Fatal("timed out waiting for the processes to reach system key creation")
		}
	}

	m.Lock()                // park both system key inserts at the metastore's door ...
	close(gate)             // ... let both processes proceed to Metastore.Store ...
	time.Sleep(c14ParkTime) // ... wait until both are blocked there ...
	m.Unlock()              // ... and admit them.

	done := make(chan struct{})

	go func() {
		wg.Wait()
		close(done)
	}()

	select {
	case <-done:
	case <-time.After(c14Timeout):
		t.Fatal("timed out waiting for the racing encrypts to finish")
	}

	for i, o := range outcomes {
		if !assert.NoErrorf(t, o.err, "encrypt in process %c failed", 'A'+i) {
			return
		}
	}

	// Every key record present is now fixed: the SDK never modifies or removes records.
	m.RLock()
	for id, byCreated := range m.Envelopes {
		assert.Lenf(t, byCreated, 1, "racing creators must have converged on a single key for %s", id)
	}
	m.RUnlock()

	// A third process, starting cold, can only use what is in the metastore.
	verifier := newProcess(static)
	defer verifier.Close()

	session, err := verifier.GetSession(partition)
	require.NoError(t, err)

	defer session.Close()

	for i, o := range outcomes {
		got, err := session.Decrypt(ctx, *o.drr)
		if assert.NoErrorf(t, err, "a cold process cannot decrypt what process %c encrypted: "+
			"it used a key that is not (or no longer) in the metastore", 'A'+i) {
			assert.Equal(t, string(payloads[i]), string(got))
		}
	}
}
