// C16 demonstration (seed C16-f / prompt 6).
//
// Placement: go/appencryption/session_cache_c16_demo_test.go  (package appencryption, same
//            directory as session_cache.go).
//
// Run with:
//   export GOPROXY=off GOSUMDB=off GOTOOLCHAIN=local
//   (cd go/appencryption && go test -vet=off -count=1 -run 'TestC16Demo' -v .)
//
// What it shows: a caller that is handed a *cached* session must be able to use it until it
// closes it, even if the partition is evicted from the session cache at the very moment the
// caller is being handed the session. The test forces exactly that interleaving: goroutine A
// has completed its cache lookup for partition "a" (a hit) but has not yet been registered as
// a holder, when goroutine B asks for partition "b" on a cache of capacity 1 (evicting "a").
//
// The interleaving is forced with a thin cache.Interface decorator (pausingCache) handed to
// newSessionCacheWithCache; the decorated cache is a real pkg/cache instance wired exactly like
// newSessionCache wires it (same evict callback, same policies).
package appencryption

import (
	"context"
	"errors"
	"sync"
	"sync/atomic"
	"testing"
	"time"

	"github.com/stretchr/testify/assert"
	"github.com/stretchr/testify/require"

	"github.com/godaddy/asherah/go/appencryption/pkg/cache"
)

// c16Encryption is a fake Encryption that counts Close calls and refuses to work once closed.
type c16Encryption struct {
	id     string
	closes int32
}

func (e *c16Encryption) EncryptPayload(_ context.Context, _ []byte) (*DataRowRecord, error) {
	if atomic.LoadInt32(&e.closes) > 0 {
		return nil, errors.New("use of released session for partition " + e.id)
	}

	return &DataRowRecord{}, nil
}

func (e *c16Encryption) DecryptDataRowRecord(_ context.Context, _ DataRowRecord) ([]byte, error) {
	if atomic.LoadInt32(&e.closes) > 0 {
		return nil, errors.New("use of released session for partition " + e.id)
	}

	return []byte{}, nil
}

func (e *c16Encryption) Close() error {
	atomic.AddInt32(&e.closes, 1)
	return nil
}

func (e *c16Encryption) closeCount() int {
	return int(atomic.LoadInt32(&e.closes))
}

// pausingCache decorates a real cache. When armed, the next Get *hit* on pauseKey is held back
// (after the lookup itself has completed) until release is closed.
type pausingCache struct {
	cache.Interface[string, *Session]

	pauseKey string
	armed    int32
	reached  chan struct{}
	release  chan struct{}
}

func (p *pausingCache) Get(k string) (*Session, bool) {
	v, ok := p.Interface.Get(k)

	if ok && k == p.pauseKey && atomic.CompareAndSwapInt32(&p.armed, 1, 0) {
		close(p.reached)
		<-p.release
	}

	return v, ok
}

func TestC16Demo_HandedOutSessionSurvivesConcurrentEviction(t *testing.T) {
	for _, evictionPolicy := range []string{"lru", "lfu", "slru", "tinylfu"} {
		evictionPolicy := evictionPolicy

		t.Run(evictionPolicy, func(t *testing.T) {
			var (
				mu   sync.Mutex
				encs = map[string][]*c16Encryption{}
			)

			loader := func(id string) (*Session, error) {
				e := &c16Encryption{id: id}

				mu.Lock()
				encs[id] = append(encs[id], e)
				mu.Unlock()

				return &Session{encryption: e}, nil
			}

			policy := NewCryptoPolicy()
			policy.CacheSessions = true
			policy.SessionCacheMaxSize = 1
			policy.SessionCacheEvictionPolicy = evictionPolicy

			// same wiring as newSessionCache
			real := cache.New[string, *Session](policy.SessionCacheMaxSize).
				WithEvictFunc(func(_ string, v *Session) {
					go v.encryption.(*sharedEncryption).Remove()
				}).
				WithPolicy(cache.CachePolicy(evictionPolicy)).
				Build()

			pc := &pausingCache{
				Interface: real,
				pauseKey:  "a",
				reached:   make(chan struct{}),
				release:   make(chan struct{}),
			}

			sc := newSessionCacheWithCache(loader, policy, pc)

			// 1. prime the cache with partition "a" and hand the session back.
			s0, err := sc.Get("a")
			require.NoError(t, err)
			require.NoError(t, s0.Close())

			mu.Lock()
			require.Len(t, encs["a"], 1)
			encA := encs["a"][0]
			mu.Unlock()

			// 2. goroutine A asks for "a" again; its lookup hits and is then held back.
			atomic.StoreInt32(&pc.armed, 1)

			var (
				sA    *Session
				errA  error
				doneA = make(chan struct{})
			)

			go func() {
				defer close(doneA)
				sA, errA = sc.Get("a")
			}()

			select {
			case <-pc.reached:
			case <-time.After(10 * time.Second):
				t.Fatal("goroutine A never reached the cache lookup")
			}

			// 3. goroutine B asks for "b": capacity is 1, so "a" has to go.
			var (
				sB    *Session
				errB  error
				doneB = make(chan struct{})
			)

			go func() {
				defer close(doneB)
				sB, errB = sc.Get("b")
			}()

			// give B (and any teardown it triggers) plenty of time. (On the unchanged code B
			// simply queues up behind A and this times out; that is fine.)
			select {
			case <-doneB:
			case <-time.After(time.Second):
			}

			time.Sleep(500 * time.Millisecond)

			// 4. let A finish its Get.
			close(pc.release)

			for _, ch := range []chan struct{}{doneA, doneB} {
				select {
				case <-ch:
				case <-time.After(10 * time.Second):
					t.Fatal("Get did not return")
				}
			}

			require.NoError(t, errA)
			require.NoError(t, errB)
			require.NotNil(t, sA)
			require.NotNil(t, sB)

			// callers of a cached partition share one session
			assert.Same(t, s0, sA, "A should have been handed the cached session for partition a")

			// let any pending teardown goroutine run
			time.Sleep(500 * time.Millisecond)

			// 5. A still holds its session: it must not have been released, and it must work.
			assert.Equal(t, 0, encA.closeCount(), "session for partition a was released while A still holds it")

			_, err = sA.Encrypt(context.Background(), []byte("payload"))
			assert.NoError(t, err, "session handed to A must stay usable until A closes it")

			// 6. once A closes it, the (evicted) session is released exactly once.
			require.NoError(t, sA.Close())

			assert.Eventually(t, func() bool { return encA.closeCount() == 1 }, 10*time.Second, 10*time.Millisecond,
				"evicted session for partition a must be released once its last holder closed it")

			require.NoError(t, sB.Close())
			sc.Close()

			mu.Lock()
			all := make([]*c16Encryption, 0)
			for _, l := range encs {
				all = append(all, l...)
			}
			mu.Unlock()

			assert.Eventually(t, func() bool {
				for _, e := range all {
					if e.closeCount() < 1 {
						return false
					}
				}

				return true
			}, 10*time.Second, 10*time.Millisecond, "every session must be released after the cache is closed")

			time.Sleep(200 * time.Millisecond)

			for _, e := range all {
				assert.Equal(t, 1, e.closeCount(), "session for partition %s released %d times", e.id, e.closeCount())
			}
		})
	}
}
