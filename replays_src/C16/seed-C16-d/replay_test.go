// Demonstration for seed C16-d.
//
// Placement: go/appencryption/session_cache_shared_holders_test.go  (package appencryption)
//
// Run with:
//
//	export GOPROXY=off GOSUMDB=off GOTOOLCHAIN=local
//	cd go/appencryption && go test -vet=off -count=1 -run 'TestSharedSessionEvictedWhileHeldByTwoHolders' -v .
//
// Scenario (for every eviction policy, session cache capacity 1):
//  1. two callers get partition "a" -> they share ONE underlying session (two holders)
//  2. a third caller gets partition "b" -> "a" is evicted while both holders still hold it
//  3. the first holder closes its handle
//  4. the second holder must still be able to use the session; the underlying session must
//     not have been released yet
//  5. the second holder closes its handle -> the underlying session is released, exactly once
//  6. the cache is closed -> every underlying session has been released exactly once
package appencryption

import (
	"context"
	"errors"
	"sync"
	"testing"
	"time"

	"github.com/stretchr/testify/assert"
	"github.com/stretchr/testify/require"
)

// countingEncryption is a fake Encryption that counts calls to Close and refuses to work once closed
// (like a real session whose key cache has been torn down).
type countingEncryption struct {
	mu     sync.Mutex
	closed int
}

var errUsedAfterClose = errors.New("underlying session used after its resources were released")

func (e *countingEncryption) EncryptPayload(_ context.Context, _ []byte) (*DataRowRecord, error) {
	e.mu.Lock()
	defer e.mu.Unlock()

	if e.closed > 0 {
		return nil, errUsedAfterClose
	}

	return &DataRowRecord{}, nil
}

func (e *countingEncryption) DecryptDataRowRecord(_ context.Context, _ DataRowRecord) ([]byte, error) {
	e.mu.Lock()
	defer e.mu.Unlock()

	if e.closed > 0 {
		return nil, errUsedAfterClose
	}

	return []byte("ok"), nil
}

func (e *countingEncryption) Close() error {
	e.mu.Lock()
	defer e.mu.Unlock()

	e.closed++

	return nil
}

func (e *countingEncryption) closeCount() int {
	e.mu.Lock()
	defer e.mu.Unlock()

	return e.closed
}

func TestSharedSessionEvictedWhileHeldByTwoHolders(t *testing.T) {
	const settle = 300 * time.Millisecond

	for _, evictionPolicy := range []string{"lru", "lfu", "slru", "tinylfu"} {
		evictionPolicy := evictionPolicy

		t.Run(evictionPolicy, func(t *testing.T) {
			var (
				mu         sync.Mutex
				underlying = map[string][]*countingEncryption{}
			)

			loader := func(id string) (*Session, error) {
				mu.Lock()
				defer mu.Unlock()

				e := new(countingEncryption)
				underlying[id] = append(underlying[id], e)

				s := new(Session)
				sessionInjectEncryption(s, e)

				return s, nil
			}

			policy := NewCryptoPolicy()
			policy.SessionCacheMaxSize = 1
			policy.SessionCacheEvictionPolicy = evictionPolicy

			sc := newSessionCache(loader, policy)
			require.NotNil(t, sc)

			ctx := context.Background()

			// 1. two holders of partition "a" share one underlying session
			h1, err := sc.Get("a")
			require.NoError(t, err)

			h2, err := sc.Get("a")
			require.NoError(t, err)

			require.Same(t, h1, h2, "callers asking for a cached partition must share one session")
			require.Len(t, underlying["a"], 1)

			encA := underlying["a"][0]

			// 2. another partition pushes "a" out of the (capacity 1) cache while it is still held twice
			hb, err := sc.Get("b")
			require.NoError(t, err)

			time.Sleep(settle)

			require.Equal(t, 0, encA.closeCount(), "evicted session released while it still has two holders")

			_, err = h1.Encrypt(ctx, []byte("x"))
			require.NoError(t, err)

			// 3. first holder is done
			require.NoError(t, h1.Close())

			time.Sleep(settle)

			// 4. second holder still holds the session: it must still work and must not have been released
			assert.Equal(t, 0, encA.closeCount(),
				"evicted session was released after the FIRST of two holders closed it; the second holder still holds it")

			_, err = h2.Encrypt(ctx, []byte("x"))
			assert.NoError(t, err, "session handed out for a partition must keep working until its holder closes it")

			_, err = h2.Decrypt(ctx, DataRowRecord{})
			assert.NoError(t, err, "session handed out for a partition must keep working until its holder closes it")

			// 5. last holder is done: now (and only now) the session is released, exactly once
			require.NoError(t, h2.Close())

			assert.Eventually(t, func() bool { return encA.closeCount() >= 1 }, 5*time.Second, 10*time.Millisecond,
				"evicted session must be released once its last holder has closed it")

			time.Sleep(settle)

			assert.Equal(t, 1, encA.closeCount(), "evicted session must be released exactly once")

			// 6. closing the cache releases everything that is left, exactly once
			require.NoError(t, hb.Close())
			sc.Close()

			assert.Eventually(t, func() bool {
				mu.Lock()
				defer mu.Unlock()

				for _, list := range underlying {
					for _, e := range list {
						if e.closeCount() < 1 {
							return false
						}
					}
				}

				return true
			}, 5*time.Second, 10*time.Millisecond, "all sessions must be released when the cache closes")

			time.Sleep(settle)

			mu.Lock()
			defer mu.Unlock()

			for id, list := range underlying {
				for _, e := range list {
					assert.Equal(t, 1, e.closeCount(), "session for partition %q must be released exactly once", id)
				}
			}
		})
	}
}
