// Demonstration for seeded change C16-b.
//
// Placement: go/appencryption/session_cache_c16b_demo_test.go (package appencryption, i.e. next to
// session_cache.go).
//
// Run with:
//
//	cd go/appencryption && GOPROXY=off GOSUMDB=off GOTOOLCHAIN=local \
//	    go test -vet=off -count=1 -run 'TestC16b' -v .
//
// Expected: PASS on the unchanged tree, FAIL with the seeded change applied.
//
// Scenario (forced deterministically with channels, no reliance on scheduler luck):
// two goroutines ask a session-caching factory/cache for the SAME, not yet cached, partition at the same
// time. The first request is held inside session creation until the second request has either also
// entered session creation (only possible with the seeded change) or a generous timeout has expired
// (unchanged code: the second request is parked on the cache lock and is served from the cache afterwards).
package appencryption

import (
	"context"
	"sync"
	"sync/atomic"
	"testing"
	"time"

	"github.com/stretchr/testify/assert"
	"github.com/stretchr/testify/require"
)

const c16bHold = 1500 * time.Millisecond

// c16bEncryption is a minimal Encryption that counts how often it has been closed and refuses work afterwards.
type c16bEncryption struct {
	closes int32
}

func (e *c16bEncryption) EncryptPayload(_ context.Context, _ []byte) (*DataRowRecord, error) {
	if atomic.LoadInt32(&e.closes) > 0 {
		return nil, assert.AnError
	}

	return &DataRowRecord{}, nil
}

func (e *c16bEncryption) DecryptDataRowRecord(_ context.Context, _ DataRowRecord) ([]byte, error) {
	if atomic.LoadInt32(&e.closes) > 0 {
		return nil, assert.AnError
	}

	return []byte("ok"), nil
}

func (e *c16bEncryption) Close() error {
	atomic.AddInt32(&e.closes, 1)
	return nil
}

// c16bRendezvous holds the first caller of enter() until a second caller arrives or c16bHold elapses.
type c16bRendezvous struct {
	mu            sync.Mutex
	calls         int
	firstEntered  chan struct{}
	secondEntered chan struct{}
}

func newC16bRendezvous() *c16bRendezvous {
	return &c16bRendezvous{
		firstEntered:  make(chan struct{}),
		secondEntered: make(chan struct{}),
	}
}

func (r *c16bRendezvous) enter() {
	r.mu.Lock()
	r.calls++
	n := r.calls
	r.mu.Unlock()

	switch n {
	case 1:
		close(r.firstEntered)

		select {
		case <-r.secondEntered:
		case <-time.After(c16bHold):
		}
	case 2:
		close(r.secondEntered)
	}
}

func (r *c16bRendezvous) count() int {
	r.mu.Lock()
	defer r.mu.Unlock()

	return r.calls
}

// TestC16bConcurrentFirstGetsShareOneSessionAndTearDownOnce drives the session cache directly with a
// loader that records every underlying session it creates.
func TestC16bConcurrentFirstGetsShareOneSessionAndTearDownOnce(t *testing.T) {
	for _, evictionPolicy := range []string{"lru", "lfu", "slru", "tinylfu"} {
		evictionPolicy := evictionPolicy

		t.Run(evictionPolicy, func(t *testing.T) {
			rv := newC16bRendezvous()

			var (
				mu      sync.Mutex
				created []*c16bEncryption
			)

			loader := func(_ string) (*Session, error) {
				rv.enter()

				e := new(c16bEncryption)

				mu.Lock()
				created = append(created, e)
				mu.Unlock()

				s := new(Session)
				sessionInjectEncryption(s, e)

				return s, nil
			}

			policy := NewCryptoPolicy()
			policy.SessionCacheMaxSize = 2
			policy.SessionCacheEvictionPolicy = evictionPolicy

			sc := newSessionCache(loader, policy)

			var (
				wg     sync.WaitGroup
				s1, s2 *Session
				e1, e2 error
			)

			wg.Add(1)

			go func() {
				defer wg.Done()

				s1, e1 = sc.Get("partition")
			}()

			<-rv.firstEntered

			wg.Add(1)

			go func() {
				defer wg.Done()

				s2, e2 = sc.Get("partition")
			}()

			wg.Wait()

			require.NoError(t, e1)
			require.NoError(t, e2)

			// callers asking for a cached partition share one underlying session
			assert.Equal(t, 1, rv.count(), "one partition, requested twice: expected a single session to be created")
			assert.Same(t, s1, s2, "both callers of the same partition must share one session")

			// both holders can use what they were given
			_, err := s1.Encrypt(context.Background(), []byte("x"))
			assert.NoError(t, err)

			_, err = s2.Encrypt(context.Background(), []byte("x"))
			assert.NoError(t, err)

			// holders are done, factory shuts down
			require.NoError(t, s1.Close())
			require.NoError(t, s2.Close())
			sc.Close()

			// every underlying session that was ever created must be released exactly once
			mu.Lock()
			all := append([]*c16bEncryption(nil), created...)
			mu.Unlock()

			assert.Eventually(t, func() bool {
				for _, e := range all {
					if atomic.LoadInt32(&e.closes) < 1 {
						return false
					}
				}

				return true
			}, 3*time.Second, 10*time.Millisecond, "an underlying session was never released after cache close")

			// give stray closers a moment, then check for exactly-once
			time.Sleep(100 * time.Millisecond)

			for i, e := range all {
				assert.Equal(t, int32(1), atomic.LoadInt32(&e.closes), "underlying session #%d: number of releases", i)
			}
		})
	}
}

// c16bMetastore is a do-nothing Metastore whose GetRegionSuffix (consulted by the factory while it creates a
// session) runs the rendezvous. This drives the very same scenario through the public API only.
type c16bMetastore struct {
	rv *c16bRendezvous
}

func (m *c16bMetastore) Load(_ context.Context, _ string, _ int64) (*EnvelopeKeyRecord, error) {
	return nil, nil
}

func (m *c16bMetastore) LoadLatest(_ context.Context, _ string) (*EnvelopeKeyRecord, error) {
	return nil, nil
}

func (m *c16bMetastore) Store(_ context.Context, _ string, _ int64, _ *EnvelopeKeyRecord) (bool, error) {
	return true, nil
}

func (m *c16bMetastore) GetRegionSuffix() string {
	m.rv.enter()

	return ""
}

func TestC16bFactoryConcurrentFirstGetSessionShares(t *testing.T) {
	rv := newC16bRendezvous()

	factory := NewSessionFactory(&Config{
		Service: "svc",
		Product: "prod",
		Policy:  NewCryptoPolicy(WithSessionCache(), WithSessionCacheMaxSize(2)),
	}, &c16bMetastore{rv: rv}, nil, nil)
	defer factory.Close()

	var (
		wg     sync.WaitGroup
		s1, s2 *Session
		e1, e2 error
	)

	wg.Add(1)

	go func() {
		defer wg.Done()

		s1, e1 = factory.GetSession("partition")
	}()

	<-rv.firstEntered

	wg.Add(1)

	go func() {
		defer wg.Done()

		s2, e2 = factory.GetSession("partition")
	}()

	wg.Wait()

	require.NoError(t, e1)
	require.NoError(t, e2)

	defer s1.Close()
	defer s2.Close()

	assert.Equal(t, 1, rv.count(), "one partition, requested twice: expected a single session to be created")
	assert.Same(t, s1, s2, "both callers of the same partition must share one session")
	assert.Same(t, s1.encryption.(*sharedEncryption).Encryption, s2.encryption.(*sharedEncryption).Encryption,
		"both callers of the same partition must share one underlying session")
}
