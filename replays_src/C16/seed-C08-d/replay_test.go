// Demonstration for seed C08-d (shared cached session closed underneath a second user).
//
// Placement: go/appencryption/c08_shared_session_demo_test.go  (module github.com/godaddy/asherah/go/appencryption)
//
// Run with:
//
//	cd go/appencryption && GOPROXY=off GOSUMDB=off GOTOOLCHAIN=local \
//	    go test -vet=off -count=1 -run 'TestC08_SharedSessionEvictedWhileSecondUserStillHoldsIt' -v .
//
// Expected: PASS on the unchanged tree, FAIL with the seeded change in session_cache.go applied.
package appencryption_test

import (
	"context"
	"testing"
	"time"

	"github.com/godaddy/asherah/go/appencryption"
	"github.com/godaddy/asherah/go/appencryption/pkg/crypto/aead"
	"github.com/godaddy/asherah/go/appencryption/pkg/kms"
	"github.com/godaddy/asherah/go/appencryption/pkg/persistence"
)

// Two goroutines' worth of users (A and B) hold the same cached session for partition "p1".
// A third GetSession for another partition evicts "p1" from the (capacity 1) session cache.
// User A then closes its handle. User B has NOT closed its handle and is not racing with the
// close of the factory either, so every operation of B must keep succeeding.
func TestC08_SharedSessionEvictedWhileSecondUserStillHoldsIt(t *testing.T) {
	crypto := aead.NewAES256GCM()

	km, err := kms.NewStatic("thisIsAStaticMasterKeyForTesting", crypto)
	if err != nil {
		t.Fatalf("kms: %v", err)
	}

	policy := appencryption.NewCryptoPolicy(
		appencryption.WithSessionCache(),
		appencryption.WithSessionCacheMaxSize(1),
	)

	factory := appencryption.NewSessionFactory(
		&appencryption.Config{Service: "svc", Product: "prod", Policy: policy},
		persistence.NewMemoryMetastore(),
		km,
		crypto,
	)
	defer factory.Close()

	ctx := context.Background()
	payload := []byte("the quick brown fox")

	// user A and user B obtain the (same, cached) session for p1
	a, err := factory.GetSession("p1")
	if err != nil {
		t.Fatalf("GetSession(p1) A: %v", err)
	}

	b, err := factory.GetSession("p1")
	if err != nil {
		t.Fatalf("GetSession(p1) B: %v", err)
	}

	drr, err := a.Encrypt(ctx, payload)
	if err != nil {
		t.Fatalf("A.Encrypt: %v", err)
	}

	if got, err := b.Decrypt(ctx, *drr); err != nil || string(got) != string(payload) {
		t.Fatalf("B.Decrypt before churn: got %q err %v", got, err)
	}

	// session-cache churn: a session for another partition pushes p1 out of the cache
	c, err := factory.GetSession("p2")
	if err != nil {
		t.Fatalf("GetSession(p2): %v", err)
	}
	defer c.Close()

	// give the (asynchronous) eviction callback ample time to run and start waiting for A and B
	time.Sleep(500 * time.Millisecond)

	// user A is done; user B is still holding the session
	if err := a.Close(); err != nil {
		t.Fatalf("A.Close: %v", err)
	}

	// let the woken eviction goroutine run
	time.Sleep(300 * time.Millisecond)

	// B keeps working for a while: every single operation must succeed with the right result
	deadline := time.Now().Add(1500 * time.Millisecond)
	for i := 0; time.Now().Before(deadline); i++ {
		got, err := b.Decrypt(ctx, *drr)
		if err != nil {
			t.Fatalf("B.Decrypt #%d failed although B never closed its session: %v", i, err)
		}

		if string(got) != string(payload) {
			t.Fatalf("B.Decrypt #%d returned %q, want %q", i, got, payload)
		}

		drr2, err := b.Encrypt(ctx, payload)
		if err != nil {
			t.Fatalf("B.Encrypt #%d failed although B never closed its session: %v", i, err)
		}

		got, err = b.Decrypt(ctx, *drr2)
		if err != nil || string(got) != string(payload) {
			t.Fatalf("B round trip #%d: got %q err %v", i, got, err)
		}

		time.Sleep(20 * time.Millisecond)
	}

	if err := b.Close(); err != nil {
		t.Fatalf("B.Close: %v", err)
	}
}
