// Demonstration for the seeded C20 defect (stale system key is re-unwrapped by every waiting caller).
//
// PLACEMENT: copy this file to  go/appencryption/c20_stale_herd_demo_test.go  (package appencryption,
//            next to key_cache.go; it is an in-package test because it back-dates cache entries).
//
// RUN (from the repository root, offline sandbox):
//
//	export GOPROXY=off GOSUMDB=off GOTOOLCHAIN=local
//	(cd go/appencryption && go test -vet=off -count=1 -run 'TestC20Demo' -v .)
//
// Expected: PASS on the unchanged tree, FAIL (TestC20Demo_StaleSystemKey_ConcurrentSessions_OneUnwrap) with the
// change applied. TestC20Demo_StaleSystemKey_SequentialSessions_OneUnwrap is a control that passes on both trees:
// it shows the same history without the interleaving does not expose the defect.
//
// What it does: one factory (system-key cache on, per-session IK caches), three partitions. Each partition
// encrypts one record. Then "the clock is advanced past the revoke-check interval" by back-dating the loadedAt of
// the factory's system-key cache entries (the same technique key_cache_test.go uses). Then three NEW sessions, one
// per partition, decrypt their record AT THE SAME TIME. Each needs the shared system key to unwrap its IK. A
// logger installed through the public pkg/log.SetLogger hook holds every caller at the "stale" debug line -- which
// is emitted inside the read-locked fast path of keyCache.GetOrLoad -- until all three have seen the stale entry,
// so all three then queue for the write lock. The property says the system key's record is re-read once and the
// KMS unwraps it once for the whole factory in that interval; the callers behind the first one must notice, once
// they hold the write lock, that the entry has just been refreshed.
package appencryption

import (
	"context"
	"crypto/aes"
	"crypto/cipher"
	"crypto/rand"
	"errors"
	"fmt"
	"strings"
	"sync"
	"sync/atomic"
	"testing"
	"time"

	"github.com/godaddy/asherah/go/appencryption/pkg/log"
)

// ---- fakes (pkg/kms, pkg/persistence and pkg/crypto/aead import this package, so they can't be used here) ----

type c20KMS struct {
	encrypts atomic.Int64
	decrypts atomic.Int64
}

func (k *c20KMS) EncryptKey(_ context.Context, b []byte) ([]byte, error) {
	k.encrypts.Add(1)

	out := append([]byte("kms:"), b...)

	return out, nil
}

func (k *c20KMS) DecryptKey(_ context.Context, b []byte) ([]byte, error) {
	k.decrypts.Add(1)

	if len(b) < 4 || string(b[:4]) != "kms:" {
		return nil, errors.New("c20KMS: bad ciphertext")
	}

	return append([]byte(nil), b[4:]...), nil
}

type c20Metastore struct {
	mu    sync.Mutex
	m     map[string]*EnvelopeKeyRecord
	loads map[string]int // Load + LoadLatest calls per key id
}

func newC20Metastore() *c20Metastore {
	return &c20Metastore{m: map[string]*EnvelopeKeyRecord{}, loads: map[string]int{}}
}

func (s *c20Metastore) Load(_ context.Context, id string, created int64) (*EnvelopeKeyRecord, error) {
	s.mu.Lock()
	defer s.mu.Unlock()

	s.loads[id]++

	if r, ok := s.m[fmt.Sprintf("%s/%d", id, created)]; ok {
		cp := *r
		return &cp, nil
	}

	return nil, nil
}

func (s *c20Metastore) LoadLatest(_ context.Context, id string) (*EnvelopeKeyRecord, error) {
	s.mu.Lock()
	defer s.mu.Unlock()

	s.loads[id]++

	var latest *EnvelopeKeyRecord

	for k, r := range s.m {
		if strings.HasPrefix(k, id+"/") && (latest == nil || r.Created > latest.Created) {
			latest = r
		}
	}

	if latest == nil {
		return nil, nil
	}

	cp := *latest

	return &cp, nil
}

func (s *c20Metastore) Store(_ context.Context, id string, created int64, r *EnvelopeKeyRecord) (bool, error) {
	s.mu.Lock()
	defer s.mu.Unlock()

	k := fmt.Sprintf("%s/%d", id, created)
	if _, ok := s.m[k]; ok {
		return false, nil
	}

	cp := *r
	s.m[k] = &cp

	return true, nil
}

func (s *c20Metastore) loadsOf(id string) int {
	s.mu.Lock()
	defer s.mu.Unlock()

	return s.loads[id]
}

type c20AEAD struct{}

func (c20AEAD) Encrypt(data, key []byte) ([]byte, error) {
	blk, err := aes.NewCipher(key)
	if err != nil {
		return nil, err
	}

	gcm, err := cipher.NewGCM(blk)
	if err != nil {
		return nil, err
	}

	nonce := make([]byte, gcm.NonceSize())
	if _, err := rand.Read(nonce); err != nil {
		return nil, err
	}

	return append(nonce, gcm.Seal(nil, nonce, data, nil)...), nil
}

func (c20AEAD) Decrypt(data, key []byte) ([]byte, error) {
	blk, err := aes.NewCipher(key)
	if err != nil {
		return nil, err
	}

	gcm, err := cipher.NewGCM(blk)
	if err != nil {
		return nil, err
	}

	if len(data) < gcm.NonceSize() {
		return nil, errors.New("c20AEAD: short ciphertext")
	}

	return gcm.Open(nil, data[:gcm.NonceSize()], data[gcm.NonceSize():], nil)
}

// c20StaleBarrier is a pkg/log logger. It ignores everything except keyCache.getFresh's "stale" line for the
// target cache; the first `need` callers reaching that line are held until all of them have arrived.
type c20StaleBarrier struct {
	target *keyCache
	need   int

	mu       sync.Mutex
	arrived  int
	release  chan struct{}
	timedOut atomic.Bool
}

func (b *c20StaleBarrier) Debugf(format string, v ...interface{}) {
	if !strings.Contains(format, "stale -- id") || len(v) == 0 {
		return
	}

	if c, ok := v[0].(*keyCache); !ok || c != b.target {
		return
	}

	b.mu.Lock()
	b.arrived++
	n := b.arrived

	if n == b.need {
		close(b.release)
	}
	b.mu.Unlock()

	if n > b.need {
		return // later "stale" lines (e.g. the re-check under the write lock) pass straight through
	}

	select {
	case <-b.release:
	case <-time.After(20 * time.Second):
		b.timedOut.Store(true)
	}
}

// ---- scenario ----

type c20Fixture struct {
	kms     *c20KMS
	store   *c20Metastore
	factory *SessionFactory
	parts   []string
	drrs    []*DataRowRecord
	skID    string
}

func newC20Fixture(t *testing.T) *c20Fixture {
	t.Helper()

	f := &c20Fixture{
		kms:   new(c20KMS),
		store: newC20Metastore(),
		parts: []string{"partition-a", "partition-b", "partition-c"},
	}

	policy := NewCryptoPolicy(WithRevokeCheckInterval(time.Hour)) // SK cache on, per-session IK caches on
	cfg := &Config{Policy: policy, Product: "c20", Service: "demo"}
	f.factory = NewSessionFactory(cfg, f.store, f.kms, c20AEAD{})
	f.skID = newPartition("x", cfg.Service, cfg.Product).SystemKeyID()

	// every partition encrypts one record (creates the one system key and one IK per partition)
	for _, p := range f.parts {
		s, err := f.factory.GetSession(p)
		if err != nil {
			t.Fatal(err)
		}

		drr, err := s.Encrypt(context.Background(), []byte("payload of "+p))
		if err != nil {
			t.Fatal(err)
		}

		// repeating it on the same session is free (sanity: the caches do work)
		kmsBefore, skLoadsBefore := f.kms.decrypts.Load()+f.kms.encrypts.Load(), f.store.loadsOf(f.skID)
		if _, err := s.Decrypt(context.Background(), *drr); err != nil {
			t.Fatal(err)
		}

		if got := f.kms.decrypts.Load() + f.kms.encrypts.Load(); got != kmsBefore {
			t.Fatalf("sanity: cached decrypt used the KMS (%d -> %d)", kmsBefore, got)
		}

		if got := f.store.loadsOf(f.skID); got != skLoadsBefore {
			t.Fatalf("sanity: cached decrypt read the SK record (%d -> %d)", skLoadsBefore, got)
		}

		f.drrs = append(f.drrs, drr)
		s.Close()
	}

	return f
}

// advancePastInterval stands in for "the clock moves past the revoke-check interval": every entry of the factory's
// system-key cache now looks as if it was loaded two intervals ago.
func (f *c20Fixture) advancePastInterval(t *testing.T) *keyCache {
	t.Helper()

	skc, ok := f.factory.systemKeys.(*keyCache)
	if !ok {
		t.Fatalf("unexpected system key cache type %T", f.factory.systemKeys)
	}

	sc, ok := skc.keys.(*simpleCache)
	if !ok {
		t.Fatalf("unexpected system key cache backend %T", skc.keys)
	}

	skc.rw.Lock()
	defer skc.rw.Unlock()

	if len(sc.m) != 1 {
		t.Fatalf("expected exactly one cached system key, have %d", len(sc.m))
	}

	for k, e := range sc.m {
		e.loadedAt = time.Now().Add(-2 * f.factory.Config.Policy.RevokeCheckInterval)
		sc.m[k] = e
	}

	return skc
}

func (f *c20Fixture) decryptOnNewSession(i int) error {
	s, err := f.factory.GetSession(f.parts[i])
	if err != nil {
		return err
	}
	defer s.Close()

	got, err := s.Decrypt(context.Background(), *f.drrs[i])
	if err != nil {
		return err
	}

	if want := "payload of " + f.parts[i]; string(got) != want {
		return fmt.Errorf("decrypted %q, want %q", got, want)
	}

	return nil
}

// Control: same history, sessions one after the other. Passes with and without the change.
func TestC20Demo_StaleSystemKey_SequentialSessions_OneUnwrap(t *testing.T) {
	f := newC20Fixture(t)
	defer f.factory.Close()

	f.advancePastInterval(t)

	kms0, sk0 := f.kms.decrypts.Load(), f.store.loadsOf(f.skID)

	for i := range f.parts {
		if err := f.decryptOnNewSession(i); err != nil {
			t.Fatal(err)
		}
	}

	if got := f.kms.decrypts.Load() - kms0; got != 1 {
		t.Errorf("system key unwrapped by the KMS %d times after the interval elapsed, want exactly 1", got)
	}

	if got := f.store.loadsOf(f.skID) - sk0; got != 1 {
		t.Errorf("system key record read %d times after the interval elapsed, want exactly 1", got)
	}
}

// The demonstration: same history, but the three sessions hit the stale system key at the same time.
func TestC20Demo_StaleSystemKey_ConcurrentSessions_OneUnwrap(t *testing.T) {
	f := newC20Fixture(t)
	defer f.factory.Close()

	skc := f.advancePastInterval(t)

	barrier := &c20StaleBarrier{target: skc, need: len(f.parts), release: make(chan struct{})}

	log.SetLogger(barrier)
	defer log.SetLogger(nil)

	kms0, sk0 := f.kms.decrypts.Load(), f.store.loadsOf(f.skID)

	var wg sync.WaitGroup

	errs := make([]error, len(f.parts))

	for i := range f.parts {
		wg.Add(1)

		go func(i int) {
			defer wg.Done()

			errs[i] = f.decryptOnNewSession(i)
		}(i)
	}

	wg.Wait()

	for i, err := range errs {
		if err != nil {
			t.Fatalf("decrypt on %s: %v", f.parts[i], err)
		}
	}

	if barrier.timedOut.Load() || barrier.arrived < barrier.need {
		t.Fatalf("could not arrange the interleaving: only %d of %d callers saw the stale system key", barrier.arrived, barrier.need)
	}

	if got := f.kms.decrypts.Load() - kms0; got != 1 {
		t.Errorf("system key unwrapped by the KMS %d times within one revoke-check interval (one factory, %d sessions), want exactly 1",
			got, len(f.parts))
	}

	if got := f.store.loadsOf(f.skID) - sk0; got != 1 {
		t.Errorf("system key record read from the metastore %d times within one revoke-check interval, want exactly 1", got)
	}

	// and the interval that just started is honoured afterwards: one more new session costs no SK read and no KMS call
	kms1, sk1 := f.kms.decrypts.Load(), f.store.loadsOf(f.skID)

	if err := f.decryptOnNewSession(0); err != nil {
		t.Fatal(err)
	}

	if f.kms.decrypts.Load() != kms1 || f.store.loadsOf(f.skID) != sk1 {
		t.Errorf("a decrypt right after the refresh went to the KMS/metastore for the system key again")
	}
}
