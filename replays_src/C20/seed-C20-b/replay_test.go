// Demonstration for seed C20-b (key caching: one reload per revoke-check interval).
//
// PLACE THIS FILE AT:  go/appencryption/c20_stale_reload_race_demo_test.go
// RUN WITH:
//
//	export GOPROXY=off GOSUMDB=off GOTOOLCHAIN=local
//	cd go/appencryption && go test -vet=off -count=1 -run 'TestC20Demo' -v .
//
// Expected: PASS on the unchanged tree, FAIL with the seeded change to keyCache.GetOrLoad.
//
// The test uses only the public API (SessionFactory, Session, policy options, pkg/log.SetLogger) plus
// counting wrappers around the in-memory metastore and the static KMS.
//
// Property checked (C20): once the revoke-check interval has elapsed the system key's record is re-read
// ONCE and the system key is unwrapped by the KMS at most ONCE per factory per interval, however many
// sessions and partitions use it.
//
// The interleaving that the seeded bug needs is forced deterministically with the library's own debug-log
// hook: keyCache.getFresh logs "<cache> stale -- id: ..." while the caller still holds the cache's read lock.
// The logger below turns the first N such log calls on the *system* key cache into a barrier, so all N
// sessions have observed "system key is stale" under the shared read lock before any of them can take the
// write lock. After that they serialise on the write lock; the first one reloads, and every later one must
// notice (second lookup under the write lock) that the key is fresh again.
package appencryption_test

import (
	"context"
	"fmt"
	"strings"
	"sync"
	"sync/atomic"
	"testing"
	"time"

	"github.com/godaddy/asherah/go/appencryption"
	"github.com/godaddy/asherah/go/appencryption/pkg/crypto/aead"
	"github.com/godaddy/asherah/go/appencryption/pkg/kms"
	"github.com/godaddy/asherah/go/appencryption/pkg/log"
	"github.com/godaddy/asherah/go/appencryption/pkg/persistence"
)

// c20CountingKMS counts calls to the wrapped KMS.
type c20CountingKMS struct {
	inner    appencryption.KeyManagementService
	decrypts atomic.Int64
	encrypts atomic.Int64
}

func (k *c20CountingKMS) EncryptKey(ctx context.Context, b []byte) ([]byte, error) {
	k.encrypts.Add(1)
	return k.inner.EncryptKey(ctx, b)
}

func (k *c20CountingKMS) DecryptKey(ctx context.Context, b []byte) ([]byte, error) {
	k.decrypts.Add(1)
	return k.inner.DecryptKey(ctx, b)
}

// c20CountingMetastore counts calls to the wrapped metastore; Load calls are also counted per key id.
type c20CountingMetastore struct {
	inner appencryption.Metastore

	mu        sync.Mutex
	loadsByID map[string]int
	total     int
}

func (m *c20CountingMetastore) note(id string, isLoad bool) {
	m.mu.Lock()
	defer m.mu.Unlock()

	m.total++

	if isLoad {
		m.loadsByID[id]++
	}
}

func (m *c20CountingMetastore) Load(ctx context.Context, id string, created int64) (*appencryption.EnvelopeKeyRecord, error) {
	m.note(id, true)
	return m.inner.Load(ctx, id, created)
}

func (m *c20CountingMetastore) LoadLatest(ctx context.Context, id string) (*appencryption.EnvelopeKeyRecord, error) {
	m.note(id, false)
	return m.inner.LoadLatest(ctx, id)
}

func (m *c20CountingMetastore) Store(ctx context.Context, id string, created int64, ekr *appencryption.EnvelopeKeyRecord) (bool, error) {
	m.note(id, false)
	return m.inner.Store(ctx, id, created, ekr)
}

func (m *c20CountingMetastore) snapshot() (total int, systemKeyLoads int) {
	m.mu.Lock()
	defer m.mu.Unlock()

	for id, n := range m.loadsByID {
		if strings.HasPrefix(id, "_SK_") {
			systemKeyLoads += n
		}
	}

	return m.total, systemKeyLoads
}

// c20BarrierLogger makes the first `parties` "stale" debug-log calls of the system key cache wait for each other.
type c20BarrierLogger struct {
	parties  int64
	arrived  atomic.Int64
	released chan struct{}
	timedOut atomic.Bool
}

func newC20BarrierLogger(parties int) *c20BarrierLogger {
	return &c20BarrierLogger{parties: int64(parties), released: make(chan struct{})}
}

func (l *c20BarrierLogger) Debugf(format string, v ...interface{}) {
	if !strings.HasPrefix(format, "%s stale") || len(v) == 0 {
		return
	}

	// v[0] is the *keyCache; its String() is "keyCache(0x..){type=system|intermediate,...}"
	if !strings.Contains(fmt.Sprintf("%s", v[0]), "type=system") {
		return
	}

	n := l.arrived.Add(1)

	switch {
	case n == l.parties:
		close(l.released)
	case n < l.parties:
		select {
		case <-l.released:
		case <-time.After(20 * time.Second):
			l.timedOut.Store(true)
		}
	}
	// n > parties: the barrier has already been used up, pass straight through
}

func TestC20Demo_SystemKeyReloadedOncePerIntervalAcrossConcurrentSessions(t *testing.T) {
	const (
		partitions = 4
		interval   = 2 * time.Second
	)

	ctx := context.Background()
	crypto := aead.NewAES256GCM()

	static, err := kms.NewStatic("thisIsAStaticMasterKeyForTesting", crypto)
	if err != nil {
		t.Fatal(err)
	}
	defer static.Close()

	countingKMS := &c20CountingKMS{inner: static}
	store := &c20CountingMetastore{inner: persistence.NewMemoryMetastore(), loadsByID: map[string]int{}}

	// default caching policy: system keys cached per factory, intermediate keys cached per session
	policy := appencryption.NewCryptoPolicy(appencryption.WithRevokeCheckInterval(interval))
	config := &appencryption.Config{Policy: policy, Product: "c20", Service: "demo"}

	factory := appencryption.NewSessionFactory(config, store, countingKMS, crypto)
	defer factory.Close()

	sessions := make([]*appencryption.Session, partitions)
	records := make([]*appencryption.DataRowRecord, partitions)

	for i := range sessions {
		s, err := factory.GetSession(fmt.Sprintf("partition-%d", i))
		if err != nil {
			t.Fatal(err)
		}
		defer s.Close()

		sessions[i] = s

		if records[i], err = s.Encrypt(ctx, []byte(fmt.Sprintf("payload-%d", i))); err != nil {
			t.Fatal(err)
		}
	}

	decryptAll := func(concurrent bool) {
		t.Helper()

		var wg sync.WaitGroup

		for i := range sessions {
			i := i
			work := func() {
				got, err := sessions[i].Decrypt(ctx, *records[i])
				if err != nil {
					t.Errorf("decrypt %d: %v", i, err)
					return
				}

				if string(got) != fmt.Sprintf("payload-%d", i) {
					t.Errorf("decrypt %d: unexpected payload %q", i, got)
				}
			}

			if !concurrent {
				work()
				continue
			}

			wg.Add(1)

			go func() {
				defer wg.Done()
				work()
			}()
		}

		wg.Wait()
	}

	// --- within the interval: repeating operations that already succeeded makes no external calls at all
	decryptAll(false)

	total0, _ := store.snapshot()
	kms0 := countingKMS.decrypts.Load() + countingKMS.encrypts.Load()

	decryptAll(false)
	decryptAll(true)

	total1, _ := store.snapshot()
	kms1 := countingKMS.decrypts.Load() + countingKMS.encrypts.Load()

	if total1 != total0 || kms1 != kms0 {
		t.Fatalf("within the interval: expected no metastore/KMS calls, got %d metastore and %d KMS calls", total1-total0, kms1-kms0)
	}

	// --- control: interval elapsed, sessions used one after the other: one SK record read, one KMS unwrap
	time.Sleep(interval + 500*time.Millisecond)

	_, skLoadsBefore := store.snapshot()
	unwrapsBefore := countingKMS.decrypts.Load()

	decryptAll(false)

	_, skLoadsAfter := store.snapshot()
	unwrapsAfter := countingKMS.decrypts.Load()

	if d := unwrapsAfter - unwrapsBefore; d != 1 {
		t.Errorf("sequential use after the interval: system key unwrapped by the KMS %d times, want 1", d)
	}

	if d := skLoadsAfter - skLoadsBefore; d != 1 {
		t.Errorf("sequential use after the interval: system key record read %d times, want 1", d)
	}

	// --- interval elapsed again, all sessions used at the same moment: still one SK record read, one KMS unwrap
	time.Sleep(interval + 500*time.Millisecond)

	barrier := newC20BarrierLogger(partitions)

	log.SetLogger(barrier)
	defer log.SetLogger(nil)

	_, skLoadsBefore = store.snapshot()
	unwrapsBefore = countingKMS.decrypts.Load()

	decryptAll(true)

	log.SetLogger(nil)

	_, skLoadsAfter = store.snapshot()
	unwrapsAfter = countingKMS.decrypts.Load()

	if barrier.timedOut.Load() || barrier.arrived.Load() < int64(partitions) {
		t.Fatalf("test harness problem: barrier was not reached by all %d sessions (arrived=%d)", partitions, barrier.arrived.Load())
	}

	if d := unwrapsAfter - unwrapsBefore; d != 1 {
		t.Errorf("concurrent use after the interval: system key unwrapped by the KMS %d times in one interval, want 1", d)
	}

	if d := skLoadsAfter - skLoadsBefore; d != 1 {
		t.Errorf("concurrent use after the interval: system key record read %d times in one interval, want 1", d)
	}
}
