// C20 seed demonstration (round 4).
//
// Placement: go/appencryption/c20_seed_demo_test.go   (package appencryption_test, module go/appencryption)
//
// Run with:
//
//	export GOPROXY=off GOSUMDB=off GOTOOLCHAIN=local
//	cd go/appencryption && go test -vet=off -count=1 -run 'TestC20Seed' -v .
//
// Expected: PASS on the unchanged tree, FAIL with the seeded change applied.
//
// The tests use the real clock with short revoke-check intervals and generous margins (>= 0.5s on every
// comparison), a counting wrapper around the in-memory metastore and a counting wrapper around the static KMS.
//
//	TestC20Seed_LongIdleGap_ReReadOnlyOnce       : use, stay idle for 3.5 intervals, use (one re-read is allowed),
//	                                               use again at once -> must not touch metastore or KMS;
//	                                               also a second partition must not make the KMS unwrap the
//	                                               system key a second time.
//	TestC20Seed_GapBetweenOneAndTwoIntervals     : use, idle for 1.5 intervals, use (re-read), wait 0.75 interval,
//	                                               use -> still inside the interval that started at the re-read,
//	                                               must not touch metastore or KMS.
package appencryption_test

import (
	"context"
	"sync"
	"testing"
	"time"

	"github.com/godaddy/asherah/go/appencryption"
	"github.com/godaddy/asherah/go/appencryption/pkg/crypto/aead"
	"github.com/godaddy/asherah/go/appencryption/pkg/kms"
	"github.com/godaddy/asherah/go/appencryption/pkg/persistence"
)

type c20Counts struct {
	load       int
	loadLatest int
	store      int
	kmsEncrypt int
	kmsDecrypt int
}

type c20Counters struct {
	mu sync.Mutex
	c20Counts
}

func (c *c20Counters) reset() {
	c.mu.Lock()
	defer c.mu.Unlock()

	c.c20Counts = c20Counts{}
}

func (c *c20Counters) total() int {
	c.mu.Lock()
	defer c.mu.Unlock()

	return c.load + c.loadLatest + c.store + c.kmsEncrypt + c.kmsDecrypt
}

func (c *c20Counters) snapshot() c20Counts {
	c.mu.Lock()
	defer c.mu.Unlock()

	return c.c20Counts
}

type c20Metastore struct {
	inner appencryption.Metastore
	n     *c20Counters
}

func (m *c20Metastore) Load(ctx context.Context, id string, created int64) (*appencryption.EnvelopeKeyRecord, error) {
	m.n.mu.Lock()
	m.n.load++
	m.n.mu.Unlock()

	return m.inner.Load(ctx, id, created)
}

func (m *c20Metastore) LoadLatest(ctx context.Context, id string) (*appencryption.EnvelopeKeyRecord, error) {
	m.n.mu.Lock()
	m.n.loadLatest++
	m.n.mu.Unlock()

	return m.inner.LoadLatest(ctx, id)
}

func (m *c20Metastore) Store(ctx context.Context, id string, created int64, ekr *appencryption.EnvelopeKeyRecord) (bool, error) {
	m.n.mu.Lock()
	m.n.store++
	m.n.mu.Unlock()

	return m.inner.Store(ctx, id, created, ekr)
}

type c20KMS struct {
	inner appencryption.KeyManagementService
	n     *c20Counters
}

func (k *c20KMS) EncryptKey(ctx context.Context, b []byte) ([]byte, error) {
	k.n.mu.Lock()
	k.n.kmsEncrypt++
	k.n.mu.Unlock()

	return k.inner.EncryptKey(ctx, b)
}

func (k *c20KMS) DecryptKey(ctx context.Context, b []byte) ([]byte, error) {
	k.n.mu.Lock()
	k.n.kmsDecrypt++
	k.n.mu.Unlock()

	return k.inner.DecryptKey(ctx, b)
}

type c20Fixture struct {
	ctx      context.Context
	counters *c20Counters
	factory  *appencryption.SessionFactory
	closers  []func()
}

func newC20Fixture(t *testing.T, interval time.Duration) *c20Fixture {
	t.Helper()

	crypto := aead.NewAES256GCM()
	counters := new(c20Counters)

	staticKMS, err := kms.NewStatic("thisIsAStaticMasterKeyForTesting", crypto)
	if err != nil {
		t.Fatal(err)
	}

	// default caching policy: system keys cached per factory, intermediate keys cached per session
	policy := appencryption.NewCryptoPolicy(appencryption.WithRevokeCheckInterval(interval))

	factory := appencryption.NewSessionFactory(
		&appencryption.Config{Service: "svc", Product: "prod", Policy: policy},
		&c20Metastore{inner: persistence.NewMemoryMetastore(), n: counters},
		&c20KMS{inner: staticKMS, n: counters},
		crypto,
	)

	f := &c20Fixture{ctx: context.Background(), counters: counters, factory: factory}
	t.Cleanup(func() {
		for _, c := range f.closers {
			c()
		}

		factory.Close()
		staticKMS.Close()
	})

	return f
}

func (f *c20Fixture) session(t *testing.T, id string) *appencryption.Session {
	t.Helper()

	s, err := f.factory.GetSession(id)
	if err != nil {
		t.Fatal(err)
	}

	f.closers = append(f.closers, func() { s.Close() })

	return s
}

func (f *c20Fixture) encrypt(t *testing.T, s *appencryption.Session, data string) *appencryption.DataRowRecord {
	t.Helper()

	drr, err := s.Encrypt(f.ctx, []byte(data))
	if err != nil {
		t.Fatalf("encrypt: %v", err)
	}

	return drr
}

func (f *c20Fixture) decrypt(t *testing.T, s *appencryption.Session, drr *appencryption.DataRowRecord, want string) {
	t.Helper()

	got, err := s.Decrypt(f.ctx, *drr)
	if err != nil {
		t.Fatalf("decrypt: %v", err)
	}

	if string(got) != want {
		t.Fatalf("decrypt: got %q want %q", got, want)
	}
}

func (f *c20Fixture) expectNoCalls(t *testing.T, what string) {
	t.Helper()

	if n := f.counters.total(); n != 0 {
		t.Fatalf("%s: expected no metastore/KMS calls, got %+v", what, f.counters.snapshot())
	}
}

func TestC20Seed_LongIdleGap_ReReadOnlyOnce(t *testing.T) {
	const interval = time.Second

	f := newC20Fixture(t, interval)
	s1 := f.session(t, "p1")
	s2 := f.session(t, "p2")

	// t = 0: first use of both partitions
	drr1 := f.encrypt(t, s1, "one")
	drr2 := f.encrypt(t, s2, "two")

	f.counters.reset()
	f.decrypt(t, s1, drr1, "one")
	f.decrypt(t, s2, drr2, "two")
	f.encrypt(t, s1, "one again")
	f.expectNoCalls(t, "repeat within the first interval")

	// stay idle for three and a half intervals
	time.Sleep(3*interval + interval/2)

	// first use after the gap: p1's intermediate key record and the system key record are re-read once (allowed)
	f.counters.reset()
	f.decrypt(t, s1, drr1, "one")

	first := f.counters.snapshot()
	t.Logf("first use after the gap: %+v", first)

	if first.load != 2 || first.kmsDecrypt != 1 || first.loadLatest != 0 || first.store != 0 || first.kmsEncrypt != 0 {
		t.Fatalf("first use after the gap: expected exactly one re-read of the IK record, one of the SK record "+
			"and one KMS unwrap, got %+v", first)
	}

	// immediate repeats: a new interval started at the re-read, nothing may be fetched again
	f.counters.reset()
	f.decrypt(t, s1, drr1, "one")
	f.expectNoCalls(t, "decrypt repeated right after the re-read")

	f.counters.reset()
	f.encrypt(t, s1, "one more")
	f.expectNoCalls(t, "encrypt repeated right after the re-read")

	// another partition of the same factory: its own IK record is re-read once, but the system key was already
	// unwrapped in this interval and must not go to the KMS again
	f.counters.reset()
	f.decrypt(t, s2, drr2, "two")

	second := f.counters.snapshot()
	t.Logf("second partition after the gap: %+v", second)

	if second.kmsDecrypt != 0 {
		t.Fatalf("system key unwrapped by the KMS more than once within one interval: %+v", second)
	}

	if second.load != 1 {
		t.Fatalf("second partition: expected exactly one re-read (its IK record), got %+v", second)
	}
}

func TestC20Seed_GapBetweenOneAndTwoIntervals(t *testing.T) {
	const interval = 2 * time.Second

	f := newC20Fixture(t, interval)
	s1 := f.session(t, "p1")

	// t = 0
	drr1 := f.encrypt(t, s1, "one")

	// t = 3s (1.5 intervals): re-read once
	time.Sleep(3 * time.Second)

	f.counters.reset()
	f.decrypt(t, s1, drr1, "one")
	t.Logf("use at 1.5 intervals: %+v", f.counters.snapshot())

	// t = 4.5s: only 1.5s (0.75 interval) after the re-read
	time.Sleep(1500 * time.Millisecond)

	f.counters.reset()
	f.decrypt(t, s1, drr1, "one")
	f.expectNoCalls(t, "decrypt 0.75 interval after the keys were re-read")
}
