// Demonstration for seed C17-e (prompt 5).
//
// Place this file at:
//
//	go/appencryption/plugins/aws-v2/kms/seed_c17e_demo_test.go
//
// Run with:
//
//	export GOPROXY=off GOSUMDB=off GOTOOLCHAIN=local
//	(cd go/appencryption && go test -vet=off -count=1 -run 'TestSeedC17e' ./plugins/aws-v2/kms/)
//
// Passes on the unchanged tree, fails with patch.diff applied.
package kms_test

import (
	"bytes"
	"context"
	"crypto/rand"
	"errors"
	"sync"
	"testing"

	"github.com/aws/aws-sdk-go-v2/aws"
	awskms "github.com/aws/aws-sdk-go-v2/service/kms"
	"github.com/stretchr/testify/assert"
	"github.com/stretchr/testify/require"

	"github.com/godaddy/asherah/go/appencryption/pkg/crypto/aead"
	"github.com/godaddy/asherah/go/appencryption/plugins/aws-v2/kms"
)

// seedFakeKMS is a tiny in-memory stand-in for the regional AWS KMS endpoints.
type seedFakeKMS struct {
	mu    sync.Mutex
	down  map[string]bool
	calls []string // "<op>:<region>" in call order
}

func (f *seedFakeKMS) setDown(regions ...string) {
	f.mu.Lock()
	defer f.mu.Unlock()

	f.down = map[string]bool{}
	for _, r := range regions {
		f.down[r] = true
	}

	f.calls = nil
}

func (f *seedFakeKMS) decryptCalls() (out []string) {
	f.mu.Lock()
	defer f.mu.Unlock()

	for _, c := range f.calls {
		if len(c) > 8 && c[:8] == "decrypt:" {
			out = append(out, c[8:])
		}
	}

	return out
}

type seedFakeClient struct {
	f      *seedFakeKMS
	region string
}

func (c *seedFakeClient) enter(op string) error {
	c.f.mu.Lock()
	defer c.f.mu.Unlock()

	c.f.calls = append(c.f.calls, op+":"+c.region)

	if c.f.down[c.region] {
		return errors.New("region " + c.region + " is down")
	}

	return nil
}

// a regional "ciphertext" is "<region>|" followed by the plaintext: only that region can open it.
func (c *seedFakeClient) wrap(pt []byte) []byte {
	return append([]byte(c.region+"|"), pt...)
}

func (c *seedFakeClient) Encrypt(_ context.Context, in *awskms.EncryptInput, _ ...func(*awskms.Options)) (*awskms.EncryptOutput, error) {
	if err := c.enter("encrypt"); err != nil {
		return nil, err
	}

	return &awskms.EncryptOutput{KeyId: in.KeyId, CiphertextBlob: c.wrap(in.Plaintext)}, nil
}

func (c *seedFakeClient) Decrypt(_ context.Context, in *awskms.DecryptInput, _ ...func(*awskms.Options)) (*awskms.DecryptOutput, error) {
	if err := c.enter("decrypt"); err != nil {
		return nil, err
	}

	prefix := []byte(c.region + "|")
	if !bytes.HasPrefix(in.CiphertextBlob, prefix) {
		return nil, errors.New("ciphertext does not belong to region " + c.region)
	}

	return &awskms.DecryptOutput{Plaintext: append([]byte(nil), in.CiphertextBlob[len(prefix):]...)}, nil
}

func (c *seedFakeClient) GenerateDataKey(_ context.Context, in *awskms.GenerateDataKeyInput, _ ...func(*awskms.Options)) (*awskms.GenerateDataKeyOutput, error) {
	if err := c.enter("generate"); err != nil {
		return nil, err
	}

	pt := make([]byte, 32)
	if _, err := rand.Read(pt); err != nil {
		return nil, err
	}

	return &awskms.GenerateDataKeyOutput{KeyId: in.KeyId, Plaintext: pt, CiphertextBlob: c.wrap(pt)}, nil
}

const (
	seedA = "us-west-2" // preferred
	seedB = "us-east-1"
	seedC = "eu-west-1"
)

func seedNewKMS(t *testing.T, f *seedFakeKMS) *kms.AWSKMS {
	t.Helper()

	arnMap := map[string]string{
		seedA: "arn:aws:kms:" + seedA + ":1:key/a",
		seedB: "arn:aws:kms:" + seedB + ":1:key/b",
		seedC: "arn:aws:kms:" + seedC + ":1:key/c",
	}

	k, err := kms.NewBuilder(aead.NewAES256GCM(), arnMap).
		WithAWSConfig(aws.Config{}).
		WithPreferredRegion(seedA).
		WithKMSFactory(func(cfg aws.Config, _ ...func(*awskms.Options)) kms.AWSClient {
			return &seedFakeClient{f: f, region: cfg.Region}
		}).
		Build()
	require.NoError(t, err)

	return k
}

// A long-lived AWSKMS first unwraps an envelope that was written while the preferred region was
// unavailable (so it has no entry for that region), and afterwards keeps serving ordinary envelopes.
func TestSeedC17e_UnwrapAfterPartialEnvelope(t *testing.T) {
	ctx := context.Background()
	f := &seedFakeKMS{}

	sysKey1 := []byte("system key wrapped during outage")
	sysKey2 := []byte("system key wrapped on a good day.")

	// Writer: wraps one key while the preferred region is out, another with every region healthy.
	writer := seedNewKMS(t, f)

	f.setDown(seedA)
	partial, err := writer.EncryptKey(ctx, sysKey1)
	require.NoError(t, err)

	f.setDown()
	full, err := writer.EncryptKey(ctx, sysKey2)
	require.NoError(t, err)

	// Reader: a separate, fresh instance with the same configuration.
	reader := seedNewKMS(t, f)

	// Step 1: the partial envelope opens through a surviving region.
	f.setDown()
	got, err := reader.DecryptKey(ctx, partial)
	require.NoError(t, err)
	require.Equal(t, sysKey1, got)
	require.NotContains(t, f.decryptCalls(), seedA, "the partial envelope has no entry for the preferred region")

	// Step 2: everything healthy; the full envelope must go to the preferred region first (and only).
	f.setDown()
	got, err = reader.DecryptKey(ctx, full)
	require.NoError(t, err)
	require.Equal(t, sysKey2, got)
	assert.Equal(t, []string{seedA}, f.decryptCalls(), "preferred region must be tried first")

	// Step 3: only the preferred region survives; the full envelope has an entry for it, so unwrap must succeed.
	f.setDown(seedB, seedC)
	got, err = reader.DecryptKey(ctx, full)
	assert.NoError(t, err, "one surviving region with an entry must be enough")
	assert.Equal(t, sysKey2, got)

	// Step 4: a key wrapped by the reader with every region healthy has an entry for every region.
	f.setDown()
	env, err := reader.EncryptKey(ctx, sysKey2)
	require.NoError(t, err)

	for _, only := range []string{seedA, seedB, seedC} {
		var others []string
		for _, r := range []string{seedA, seedB, seedC} {
			if r != only {
				others = append(others, r)
			}
		}

		f.setDown(others...)
		got, err = seedNewKMS(t, f).DecryptKey(ctx, env)
		assert.NoError(t, err, "envelope must open through %s alone", only)
		assert.Equal(t, sysKey2, got)
	}
}
