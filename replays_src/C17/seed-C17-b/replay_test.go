// Demonstration for seeded change C17-b.
//
// Placement: go/appencryption/plugins/aws-v1/kms/seed_c17b_demo_test.go
//            (package kms, next to aws.go; module github.com/godaddy/asherah/go/appencryption)
//
// Run:
//   export GOPROXY=off GOSUMDB=off GOTOOLCHAIN=local
//   cd go/appencryption && go test -vet=off -count=1 -run 'TestSeedC17b' ./plugins/aws-v1/kms/
//
// Expected: PASS on the unchanged tree, FAIL with patch.diff applied.
//
// The fakes below model a set of independent regional KMS endpoints. Each
// region "encrypts" a data key under its own master key (the blob is tagged
// with the region, so only that region can decrypt it) and can be switched
// off individually for GenerateDataKey / Encrypt / Decrypt.
package kms

import (
	"bytes"
	"context"
	"encoding/json"
	"errors"
	"fmt"
	"runtime"
	"sync"
	"testing"

	"github.com/aws/aws-sdk-go/aws"
	"github.com/aws/aws-sdk-go/aws/request"
	"github.com/aws/aws-sdk-go/service/kms"

	"github.com/godaddy/asherah/go/appencryption/pkg/crypto/aead"
)

type seedRegionKMS struct {
	mu     sync.Mutex
	region string
	arn    string

	failGenerate bool
	failEncrypt  bool
	failDecrypt  bool

	encryptCalls int
}

func seedARN(region string) string {
	return "arn:aws:kms:" + region + ":111122223333:key/seed-" + region
}

func (f *seedRegionKMS) wrap(plain []byte) []byte {
	return append([]byte(f.region+"|"), plain...)
}

func (f *seedRegionKMS) GenerateDataKeyWithContext(_ aws.Context, in *kms.GenerateDataKeyInput, _ ...request.Option) (*kms.GenerateDataKeyOutput, error) {
	f.mu.Lock()
	defer f.mu.Unlock()

	if f.failGenerate {
		return nil, errors.New(f.region + ": GenerateDataKey unavailable")
	}

	if *in.KeyId != f.arn {
		return nil, fmt.Errorf("%s: unknown key %s", f.region, *in.KeyId)
	}

	// deterministic 32-byte data key, fresh slice every time (EncryptKey wipes it)
	plain := bytes.Repeat([]byte{0x5a}, 32)

	return &kms.GenerateDataKeyOutput{
		KeyId:          aws.String(f.arn),
		Plaintext:      plain,
		CiphertextBlob: f.wrap(plain),
	}, nil
}

func (f *seedRegionKMS) EncryptWithContext(_ aws.Context, in *kms.EncryptInput, _ ...request.Option) (*kms.EncryptOutput, error) {
	f.mu.Lock()
	defer f.mu.Unlock()

	f.encryptCalls++

	if f.failEncrypt {
		return nil, errors.New(f.region + ": Encrypt unavailable")
	}

	if *in.KeyId != f.arn {
		return nil, fmt.Errorf("%s: unknown key %s", f.region, *in.KeyId)
	}

	return &kms.EncryptOutput{
		KeyId:          aws.String(f.arn),
		CiphertextBlob: f.wrap(in.Plaintext),
	}, nil
}

func (f *seedRegionKMS) DecryptWithContext(_ aws.Context, in *kms.DecryptInput, _ ...request.Option) (*kms.DecryptOutput, error) {
	f.mu.Lock()
	defer f.mu.Unlock()

	if f.failDecrypt {
		return nil, errors.New(f.region + ": Decrypt unavailable")
	}

	prefix := []byte(f.region + "|")
	if !bytes.HasPrefix(in.CiphertextBlob, prefix) {
		return nil, errors.New(f.region + ": InvalidCiphertextException")
	}

	return &kms.DecryptOutput{
		KeyId:     aws.String(f.arn),
		Plaintext: append([]byte(nil), in.CiphertextBlob[len(prefix):]...),
	}, nil
}

// seedNewKMS builds an AWSKMS the same way newAWS does (clients sorted preferred-first),
// but over the fake regional endpoints.
func seedNewKMS(preferred string, regions []string) (*AWSKMS, map[string]*seedRegionKMS) {
	fakes := make(map[string]*seedRegionKMS, len(regions))
	clients := make([]AWSKMSClient, 0, len(regions))

	for _, r := range regions {
		f := &seedRegionKMS{region: r, arn: seedARN(r)}
		fakes[r] = f
		clients = append(clients, AWSKMSClient{KMS: f, Region: r, ARN: f.arn})
	}

	return &AWSKMS{
		Crypto:  aead.NewAES256GCM(),
		Clients: sortClients(preferred, clients),
	}, fakes
}

// seedCheckEnvelope asserts that the envelope holds exactly one KEK per expected region
// and that the system key can be recovered through each of those regions ALONE.
func seedCheckEnvelope(t *testing.T, m *AWSKMS, fakes map[string]*seedRegionKMS, env, sysKey []byte, expect []string) {
	t.Helper()

	var en envelope
	if err := json.Unmarshal(env, &en); err != nil {
		t.Fatalf("envelope does not parse: %v", err)
	}

	got := map[string]int{}
	for _, k := range en.KMSKEKs {
		got[k.Region]++
	}

	for _, r := range expect {
		if got[r] != 1 {
			t.Errorf("envelope must hold exactly one KEK for region %s (its Encrypt/GenerateDataKey succeeded), have %d; envelope regions: %v", r, got[r], got)
		}
	}

	if len(en.KMSKEKs) != len(expect) {
		t.Errorf("envelope has %d KEKs, want %d (%v); envelope regions: %v", len(en.KMSKEKs), len(expect), expect, got)
	}

	// Every region with an entry must be able to unwrap on its own.
	for _, survivor := range expect {
		for r, f := range fakes {
			f.mu.Lock()
			f.failDecrypt = r != survivor
			f.mu.Unlock()
		}

		out, err := m.DecryptKey(context.Background(), env)
		if err != nil {
			t.Errorf("only %s alive: DecryptKey failed: %v", survivor, err)
			continue
		}

		if !bytes.Equal(out, sysKey) {
			t.Errorf("only %s alive: DecryptKey returned different bytes", survivor)
		}
	}

	for _, f := range fakes {
		f.mu.Lock()
		f.failDecrypt = false
		f.mu.Unlock()
	}
}

// Three healthy regions: the envelope must contain one entry per region, and each
// region alone must be able to unwrap.
func TestSeedC17b_ThreeRegions_EveryRegionCanUnwrap(t *testing.T) {
	defer runtime.GOMAXPROCS(runtime.GOMAXPROCS(1))

	regions := []string{"us-west-2", "us-east-2", "eu-west-1"}
	sysKey := []byte("0123456789abcdef0123456789abcdef")

	for iter := 0; iter < 25 && !t.Failed(); iter++ {
		m, fakes := seedNewKMS("us-west-2", regions)

		env, err := m.EncryptKey(context.Background(), append([]byte(nil), sysKey...))
		if err != nil {
			t.Fatalf("EncryptKey: %v", err)
		}

		for _, r := range regions[1:] {
			if n := fakes[r].encryptCalls; n != 1 {
				t.Errorf("region %s: Encrypt called %d times, want 1", r, n)
			}
		}

		seedCheckEnvelope(t, m, fakes, env, sysKey, regions)
	}
}

// Two regions; at wrap time the preferred region cannot GenerateDataKey (so the data key
// comes from the secondary) but its Encrypt works. Later the secondary goes away: the
// preferred region must still be able to unwrap.
func TestSeedC17b_TwoRegions_WrapFallback_PreferredCanUnwrapLater(t *testing.T) {
	defer runtime.GOMAXPROCS(runtime.GOMAXPROCS(1))

	regions := []string{"us-west-2", "us-east-2"}
	sysKey := []byte("fedcba9876543210fedcba9876543210")

	for iter := 0; iter < 25 && !t.Failed(); iter++ {
		m, fakes := seedNewKMS("us-west-2", regions)
		fakes["us-west-2"].failGenerate = true

		env, err := m.EncryptKey(context.Background(), append([]byte(nil), sysKey...))
		if err != nil {
			t.Fatalf("EncryptKey: %v", err)
		}

		seedCheckEnvelope(t, m, fakes, env, sysKey, regions)
	}
}

// Four regions, one of them is down for Encrypt at wrap time: the three others must each
// have an entry and each must unwrap alone.
func TestSeedC17b_FourRegions_OneDownAtWrap(t *testing.T) {
	defer runtime.GOMAXPROCS(runtime.GOMAXPROCS(1))

	regions := []string{"us-west-2", "us-east-2", "eu-west-1", "ap-south-1"}
	sysKey := []byte("00112233445566778899aabbccddeeff")

	for iter := 0; iter < 25 && !t.Failed(); iter++ {
		m, fakes := seedNewKMS("eu-west-1", regions)
		fakes["us-east-2"].failEncrypt = true

		env, err := m.EncryptKey(context.Background(), append([]byte(nil), sysKey...))
		if err != nil {
			t.Fatalf("EncryptKey: %v", err)
		}

		seedCheckEnvelope(t, m, fakes, env, sysKey, []string{"us-west-2", "eu-west-1", "ap-south-1"})
	}
}
