// Demonstration for seed C17-d.
//
// Place this file at: go/appencryption/plugins/aws-v2/kms/seed_c17d_demo_test.go
// Run with:
//
//	export GOPROXY=off GOSUMDB=off GOTOOLCHAIN=local
//	cd go/appencryption && go test -vet=off -count=1 -run 'TestSeedC17d' ./plugins/aws-v2/kms/
//
// Scenario: a system key is wrapped while every region is healthy, so the envelope carries one
// entry per region. Afterwards the master key of ONE region is replaced (disaster recovery, a
// re-created key, a mis-copied multi-region replica...), so that region's KMS now answers Decrypt
// for the old entry with InvalidCiphertextException. All the other regions are still perfectly able
// to unwrap their own entry, therefore DecryptKey must succeed and return the identical bytes,
// whichever region is the preferred one.
package kms_test

import (
	"bytes"
	"context"
	"crypto/rand"
	"errors"
	"fmt"
	"sort"
	"sync"
	"testing"

	"github.com/aws/aws-sdk-go-v2/aws"
	awskms "github.com/aws/aws-sdk-go-v2/service/kms"
	"github.com/aws/aws-sdk-go-v2/service/kms/types"

	"github.com/godaddy/asherah/go/appencryption/pkg/crypto/aead"
	"github.com/godaddy/asherah/go/appencryption/plugins/aws-v2/kms"
)

// seedRegion is an in-memory stand-in for the KMS endpoint of one region.
type seedRegion struct {
	mu sync.Mutex

	name string
	arn  string

	// generation is bumped when the master key is replaced; blobs of older generations are rejected
	// the way real KMS rejects them: with InvalidCiphertextException.
	generation byte
	// down makes every call fail with a plain (outage-like) error.
	down bool

	decryptCalls int
}

func (r *seedRegion) seal(plaintext []byte) []byte {
	out := []byte{r.generation}
	out = append(out, []byte(r.name+"|")...)

	for _, b := range plaintext {
		out = append(out, b^0x5a)
	}

	return out
}

func (r *seedRegion) open(blob []byte) ([]byte, error) {
	prefix := append([]byte{r.generation}, []byte(r.name+"|")...)
	if !bytes.HasPrefix(blob, prefix) {
		return nil, &types.InvalidCiphertextException{Message: aws.String("ciphertext not produced by this key")}
	}

	out := make([]byte, 0, len(blob)-len(prefix))
	for _, b := range blob[len(prefix):] {
		out = append(out, b^0x5a)
	}

	return out, nil
}

func (r *seedRegion) GenerateDataKey(_ context.Context, in *awskms.GenerateDataKeyInput, _ ...func(*awskms.Options)) (*awskms.GenerateDataKeyOutput, error) {
	r.mu.Lock()
	defer r.mu.Unlock()

	if r.down {
		return nil, errors.New("region unavailable: " + r.name)
	}

	pt := make([]byte, 32)
	if _, err := rand.Read(pt); err != nil {
		return nil, err
	}

	return &awskms.GenerateDataKeyOutput{KeyId: in.KeyId, Plaintext: pt, CiphertextBlob: r.seal(pt)}, nil
}

func (r *seedRegion) Encrypt(_ context.Context, in *awskms.EncryptInput, _ ...func(*awskms.Options)) (*awskms.EncryptOutput, error) {
	r.mu.Lock()
	defer r.mu.Unlock()

	if r.down {
		return nil, errors.New("region unavailable: " + r.name)
	}

	return &awskms.EncryptOutput{KeyId: in.KeyId, CiphertextBlob: r.seal(in.Plaintext)}, nil
}

func (r *seedRegion) Decrypt(_ context.Context, in *awskms.DecryptInput, _ ...func(*awskms.Options)) (*awskms.DecryptOutput, error) {
	r.mu.Lock()
	defer r.mu.Unlock()

	r.decryptCalls++

	if r.down {
		return nil, errors.New("region unavailable: " + r.name)
	}

	pt, err := r.open(in.CiphertextBlob)
	if err != nil {
		return nil, err
	}

	return &awskms.DecryptOutput{KeyId: in.KeyId, Plaintext: pt}, nil
}

var _ kms.AWSClient = (*seedRegion)(nil)

func seedBuild(t *testing.T, regions map[string]*seedRegion, preferred string) *kms.AWSKMS {
	t.Helper()

	arnMap := make(map[string]string, len(regions))
	for name, r := range regions {
		arnMap[name] = r.arn
	}

	k, err := kms.NewBuilder(aead.NewAES256GCM(), arnMap).
		WithAWSConfig(aws.Config{}).
		WithPreferredRegion(preferred).
		WithKMSFactory(func(cfg aws.Config, _ ...func(*awskms.Options)) kms.AWSClient {
			return regions[cfg.Region]
		}).
		Build()
	if err != nil {
		t.Fatalf("Build: %v", err)
	}

	return k
}

func TestSeedC17d_UnwrapSurvivesARegionWhoseEntryIsRejected(t *testing.T) {
	all := []string{"us-west-2", "us-east-1", "eu-west-1", "ap-south-1"}

	for n := 2; n <= len(all); n++ {
		names := all[:n]

		for _, preferred := range names {
			for _, replaced := range names {
				name := fmt.Sprintf("regions=%d/preferred=%s/replaced=%s", n, preferred, replaced)

				t.Run(name, func(t *testing.T) {
					regions := make(map[string]*seedRegion, n)
					for _, r := range names {
						regions[r] = &seedRegion{name: r, arn: "arn:aws:kms:" + r + ":123456789012:key/seed", generation: 1}
					}

					k := seedBuild(t, regions, preferred)

					systemKey := make([]byte, 32)
					if _, err := rand.Read(systemKey); err != nil {
						t.Fatal(err)
					}

					want := append([]byte(nil), systemKey...)

					// wrap with every region healthy: one entry per region
					envelope, err := k.EncryptKey(context.Background(), systemKey)
					if err != nil {
						t.Fatalf("EncryptKey: %v", err)
					}

					// sanity: unwrap with every region healthy
					got, err := k.DecryptKey(context.Background(), envelope)
					if err != nil || !bytes.Equal(got, want) {
						t.Fatalf("healthy unwrap: got %x err %v", got, err)
					}

					// one region's master key is replaced: its old entry is now rejected by KMS
					regions[replaced].generation = 2

					for _, r := range regions {
						r.decryptCalls = 0
					}

					got, err = k.DecryptKey(context.Background(), envelope)
					if err != nil {
						var order []string
						for _, r := range names {
							order = append(order, fmt.Sprintf("%s:%d", r, regions[r].decryptCalls))
						}

						sort.Strings(order)
						t.Fatalf("unwrap failed although %d other region(s) can still decrypt their entry: %v (decrypt calls %v)",
							n-1, err, order)
					}

					if !bytes.Equal(got, want) {
						t.Fatalf("unwrap returned different bytes: got %x want %x", got, want)
					}

					// the preferred region must still have been asked first
					if regions[preferred].decryptCalls != 1 {
						t.Fatalf("preferred region %s was asked %d times, want 1", preferred, regions[preferred].decryptCalls)
					}
				})
			}
		}
	}
}

// A plain outage of the same region keeps working with and without the change: this is what the
// existing suite exercises (errors.New from the mocked client) and why it does not notice.
func TestSeedC17d_PlainOutageStillFallsBack(t *testing.T) {
	regions := map[string]*seedRegion{
		"us-west-2": {name: "us-west-2", arn: "arn:west", generation: 1},
		"us-east-1": {name: "us-east-1", arn: "arn:east", generation: 1},
	}

	k := seedBuild(t, regions, "us-west-2")

	systemKey := []byte("0123456789abcdef0123456789abcdef")
	want := append([]byte(nil), systemKey...)

	envelope, err := k.EncryptKey(context.Background(), systemKey)
	if err != nil {
		t.Fatal(err)
	}

	regions["us-west-2"].down = true

	got, err := k.DecryptKey(context.Background(), envelope)
	if err != nil || !bytes.Equal(got, want) {
		t.Fatalf("got %x err %v", got, err)
	}
}
