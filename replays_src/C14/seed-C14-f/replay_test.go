// Demonstration for property C14 (racing key creators converge on persisted keys).
//
// Placement: go/appencryption/c14_sk_race_demo_test.go  (package appencryption_test, module go/appencryption)
//
// Run with:
//
//	cd go/appencryption && GOPROXY=off GOSUMDB=off GOTOOLCHAIN=local \
//	    go test -vet=off -count=1 -run 'TestC14Demo' -v .
//
// The test drives two independent "processes" (two SessionFactory instances that share nothing but the
// metastore and the KMS master key) through one specific interleaving of metastore calls:
//
//	B: LoadLatest(SK)            -> nothing there (cold start)
//	A: a complete Encrypt        -> creates and stores SK_a and IK_a
//	B: Store(SK_b)               -> refused, SK_a already sits at (id, created)
//	B: LoadLatest(SK)            -> SK_a
//	B: ... continues its Encrypt
//
// The interleaving is forced, not raced for: B's metastore handle runs A's Encrypt synchronously right after
// B's first LoadLatest of the system key id has returned.
//
// Expected (unchanged code): B discards SK_b, adopts SK_a, and everything either process writes can be
// read by any other process that only has the metastore and the KMS.
package appencryption_test

import (
	"context"
	"strings"
	"sync"
	"testing"
	"time"

	"github.com/godaddy/asherah/go/appencryption"
	"github.com/godaddy/asherah/go/appencryption/pkg/crypto/aead"
	"github.com/godaddy/asherah/go/appencryption/pkg/kms"
	"github.com/godaddy/asherah/go/appencryption/pkg/persistence"
)

const (
	c14Service   = "svc"
	c14Product   = "prod"
	c14MasterKey = "thisIsAStaticMasterKeyForTesting" // 32 bytes
)

// c14Call is one entry of the metastore call log.
type c14Call struct {
	who, op, id string
	created     int64
	ok          bool
}

// c14Log is shared by all handles onto the same backing store.
type c14Log struct {
	mu    sync.Mutex
	calls []c14Call
}

func (l *c14Log) add(c c14Call) {
	l.mu.Lock()
	defer l.mu.Unlock()

	l.calls = append(l.calls, c)
}

// c14Metastore is one process's handle onto the shared backing store. It logs every call and lets the
// test run a hook right after this process's first LoadLatest of a system key id.
type c14Metastore struct {
	who   string
	inner appencryption.Metastore
	log   *c14Log

	afterFirstSKLoadLatest func()
	fired                  bool
}

func (m *c14Metastore) Load(ctx context.Context, id string, created int64) (*appencryption.EnvelopeKeyRecord, error) {
	ekr, err := m.inner.Load(ctx, id, created)
	m.log.add(c14Call{who: m.who, op: "Load", id: id, created: created, ok: ekr != nil})

	return ekr, err
}

func (m *c14Metastore) LoadLatest(ctx context.Context, id string) (*appencryption.EnvelopeKeyRecord, error) {
	ekr, err := m.inner.LoadLatest(ctx, id)
	m.log.add(c14Call{who: m.who, op: "LoadLatest", id: id, ok: ekr != nil})

	if strings.HasPrefix(id, "_SK_") && !m.fired && m.afterFirstSKLoadLatest != nil {
		m.fired = true
		m.afterFirstSKLoadLatest()
	}

	return ekr, err
}

func (m *c14Metastore) Store(ctx context.Context, id string, created int64, ekr *appencryption.EnvelopeKeyRecord) (bool, error) {
	ok, err := m.inner.Store(ctx, id, created, ekr)
	m.log.add(c14Call{who: m.who, op: "Store", id: id, created: created, ok: ok})

	return ok, err
}

// c14Process builds a fresh "process": its own factory, caches, KMS client and metastore handle.
func c14Process(t *testing.T, who string, backing appencryption.Metastore, log *c14Log) (*appencryption.SessionFactory, *c14Metastore) {
	t.Helper()

	crypto := aead.NewAES256GCM()

	k, err := kms.NewStatic(c14MasterKey, crypto)
	if err != nil {
		t.Fatalf("static kms: %v", err)
	}

	ms := &c14Metastore{who: who, inner: backing, log: log}

	f := appencryption.NewSessionFactory(&appencryption.Config{
		Service: c14Service,
		Product: c14Product,
		Policy:  appencryption.NewCryptoPolicy(),
	}, ms, k, crypto)

	t.Cleanup(func() { f.Close() })

	return f, ms
}

func c14Encrypt(t *testing.T, f *appencryption.SessionFactory, partition string, payload []byte) (*appencryption.DataRowRecord, error) {
	t.Helper()

	s, err := f.GetSession(partition)
	if err != nil {
		t.Fatalf("GetSession(%s): %v", partition, err)
	}
	defer s.Close()

	return s.Encrypt(context.Background(), payload)
}

func c14Decrypt(t *testing.T, f *appencryption.SessionFactory, partition string, drr *appencryption.DataRowRecord) ([]byte, error) {
	t.Helper()

	s, err := f.GetSession(partition)
	if err != nil {
		t.Fatalf("GetSession(%s): %v", partition, err)
	}
	defer s.Close()

	return s.Decrypt(context.Background(), *drr)
}

// c14AvoidMinuteBoundary keeps the forced race inside one create-date-precision window (one minute by
// default) so that both creators really do collide on the same (id, created).
func c14AvoidMinuteBoundary() {
	if s := time.Now().Second(); s >= 50 {
		time.Sleep(time.Duration(61-s) * time.Second)
	}
}

// c14Race runs the interleaving described at the top of the file. Process A encrypts for partitionA,
// process B for partitionB.
func c14Race(t *testing.T, partitionA, partitionB string) {
	c14AvoidMinuteBoundary()

	backing := persistence.NewMemoryMetastore()
	log := &c14Log{}

	procA, _ := c14Process(t, "A", backing, log)
	procB, msB := c14Process(t, "B", backing, log)

	payloadA, payloadB := []byte("written by process A"), []byte("written by process B")

	var (
		drrA *appencryption.DataRowRecord
		errA error
	)

	msB.afterFirstSKLoadLatest = func() {
		drrA, errA = c14Encrypt(t, procA, partitionA, payloadA)
	}

	drrB, errB := c14Encrypt(t, procB, partitionB, payloadB)

	if errA != nil {
		t.Fatalf("process A (race winner) failed to encrypt: %v", errA)
	}

	// Sanity: the interleaving we wanted did happen - B found no SK, then had its SK insert refused.
	var sawColdLoad, sawRefusedStore bool

	for _, c := range log.calls {
		if c.who != "B" || !strings.HasPrefix(c.id, "_SK_") {
			continue
		}

		switch {
		case c.op == "LoadLatest" && !c.ok && !sawRefusedStore:
			sawColdLoad = true
		case c.op == "Store" && !c.ok:
			sawRefusedStore = true
		}
	}

	if !sawColdLoad || !sawRefusedStore {
		t.Fatalf("forced interleaving did not take place (coldLoad=%v refusedStore=%v): %+v", sawColdLoad, sawRefusedStore, log.calls)
	}

	// C14: the loser of the SK insert still ends up encrypting ...
	if errB != nil {
		t.Fatalf("process B (race loser) did not converge, Encrypt failed: %v", errB)
	}

	// ... under keys that are in the metastore and that everybody else can load: a third process that has
	// never seen either of them (cold caches, only the metastore and the KMS) must be able to read both rows.
	procC, _ := c14Process(t, "C", backing, log)

	for _, tc := range []struct {
		name, partition string
		drr             *appencryption.DataRowRecord
		want            []byte
	}{
		{"row written by A", partitionA, drrA, payloadA},
		{"row written by B", partitionB, drrB, payloadB},
	} {
		got, err := c14Decrypt(t, procC, tc.partition, tc.drr)
		if err != nil {
			t.Errorf("fresh process C cannot decrypt %s: %v (its key chain is not the one in the metastore)", tc.name, err)
			continue
		}

		if string(got) != string(tc.want) {
			t.Errorf("fresh process C decrypted %s to %q, want %q", tc.name, got, tc.want)
		}
	}

	// And the winner can read what the loser wrote (they share the SK; for the same partition also the IK).
	if partitionA == partitionB {
		if _, err := c14Decrypt(t, procA, partitionB, drrB); err != nil {
			t.Errorf("process A cannot decrypt the row written by B: %v", err)
		}
	}

	// Exactly one system key record may exist: B's refused insert must not have produced or replaced anything.
	skRecords := 0

	for id, byCreated := range backing.Envelopes {
		if strings.HasPrefix(id, "_SK_") {
			skRecords += len(byCreated)
		}
	}

	if skRecords != 1 {
		t.Errorf("expected exactly 1 system key record in the metastore, found %d", skRecords)
	}
}

// Both processes serve the same partition: they race on the SK and then on the IK.
func TestC14Demo_RacingSystemKeyCreators_SamePartition(t *testing.T) {
	c14Race(t, "partition-1", "partition-1")
}

// The processes serve different partitions: they race on the (shared) SK only; each stores its own IK.
func TestC14Demo_RacingSystemKeyCreators_DifferentPartitions(t *testing.T) {
	c14Race(t, "partition-1", "partition-2")
}
