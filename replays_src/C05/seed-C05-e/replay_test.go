// Demonstration for seeded defect C05-e.
//
// Placement: go/appencryption/revoke_read_refresh_demo_test.go (module github.com/godaddy/asherah/go/appencryption)
//
// Run (from go/appencryption; do NOT set GOFLAGS=-mod=mod there):
//
//	export GOPROXY=off GOSUMDB=off GOTOOLCHAIN=local
//	go test -vet=off -count=1 -run 'TestRevokedIK_ReadBeforeWrite' -v .
//
// Scenario (mixed read/write workload on a long-lived session):
//  1. a session encrypts a record -> IK1 is created, persisted and cached as the session's latest IK
//  2. IK1 is flagged revoked in the metastore
//  3. more than one revoke-check interval passes
//  4. the session first DECRYPTS the old record (written under IK1), and only then
//  5. ENCRYPTS a new record.
//
// Expected: the decrypt succeeds (records under a revoked key stay readable) and the new record is written under
// a newly created, persisted IK with a later creation stamp - the revocation is at most one interval old.
// Steps 3-5 are repeated a few times: the revoked key must never come back.
package appencryption_test

import (
	"context"
	"testing"
	"time"

	"github.com/godaddy/asherah/go/appencryption"
	"github.com/godaddy/asherah/go/appencryption/pkg/crypto/aead"
	"github.com/godaddy/asherah/go/appencryption/pkg/kms"
	"github.com/godaddy/asherah/go/appencryption/pkg/persistence"
)

const (
	demoInterval = time.Second
	demoWait     = demoInterval + 600*time.Millisecond
)

// revokeInMetastore flags the key (id, created) revoked the way an operator's tooling would: the stored record is
// replaced by a copy with Revoked set (the record already handed out to readers is left untouched).
func revokeInMetastore(t *testing.T, m *persistence.MemoryMetastore, id string, created int64) {
	t.Helper()

	m.Lock()
	defer m.Unlock()

	old, ok := m.Envelopes[id][created]
	if !ok {
		t.Fatalf("key %s/%d is not in the metastore", id, created)
	}

	cp := *old
	cp.Revoked = true
	m.Envelopes[id][created] = &cp
}

func TestRevokedIK_ReadBeforeWrite(t *testing.T) {
	configs := []struct {
		name string
		opts []appencryption.PolicyOption
	}{
		{name: "per-session-cache"},
		{name: "shared-ik-cache", opts: []appencryption.PolicyOption{appencryption.WithSharedIntermediateKeyCache(10)}},
		{name: "session-cache", opts: []appencryption.PolicyOption{appencryption.WithSessionCache()}},
	}

	for _, cfg := range configs {
		cfg := cfg

		t.Run(cfg.name, func(t *testing.T) {
			ctx := context.Background()

			crypto := aead.NewAES256GCM()

			km, err := kms.NewStatic("thisIsAStaticMasterKeyForTesting", crypto)
			if err != nil {
				t.Fatal(err)
			}
			defer km.Close()

			metastore := persistence.NewMemoryMetastore()

			opts := append([]appencryption.PolicyOption{appencryption.WithRevokeCheckInterval(demoInterval)}, cfg.opts...)
			policy := appencryption.NewCryptoPolicy(opts...)
			// one-second creation stamps, so that a key with a later stamp CAN be created once the interval has passed
			policy.CreateDatePrecision = time.Second

			factory := appencryption.NewSessionFactory(&appencryption.Config{
				Service: "svc",
				Product: "prod",
				Policy:  policy,
			}, metastore, km, crypto)
			defer factory.Close()

			session, err := factory.GetSession("partition-1")
			if err != nil {
				t.Fatal(err)
			}
			defer session.Close()

			// 1. fill the cache
			first, err := session.Encrypt(ctx, []byte("written under IK1"))
			if err != nil {
				t.Fatal(err)
			}

			ik1 := *first.Key.ParentKeyMeta

			// sanity: within the interval the cached key is reused
			again, err := session.Encrypt(ctx, []byte("also under IK1"))
			if err != nil {
				t.Fatal(err)
			}

			if again.Key.ParentKeyMeta.Created != ik1.Created {
				t.Fatalf("setup: expected the cached IK to be reused, got %v then %v", ik1, *again.Key.ParentKeyMeta)
			}

			// 2. revoke IK1 in the metastore
			revokeInMetastore(t, metastore, ik1.ID, ik1.Created)

			for round := 1; round <= 3; round++ {
				// 3. let (more than) one revoke-check interval pass
				time.Sleep(demoWait)

				// 4. read a record written under the revoked key: must still work
				plain, err := session.Decrypt(ctx, *first)
				if err != nil {
					t.Fatalf("round %d: record written under the revoked key is no longer decryptable: %v", round, err)
				}

				if string(plain) != "written under IK1" {
					t.Fatalf("round %d: unexpected plaintext %q", round, plain)
				}

				// 5. write a new record: must not use the revoked key any more
				drr, err := session.Encrypt(ctx, []byte("new record"))
				if err != nil {
					t.Fatalf("round %d: encrypt failed: %v", round, err)
				}

				used := *drr.Key.ParentKeyMeta
				if used.Created == ik1.Created {
					// keep going: shows that the revoked key is not merely late but stays in use round after round
					t.Errorf("round %d: %d revoke-check interval(s) after IK %v was revoked in the metastore, "+
						"a new record was still written under it", round, round, ik1)

					continue
				}

				if used.Created < ik1.Created {
					t.Fatalf("round %d: new record written under an older key %v (revoked: %v)", round, used, ik1)
				}

				// the replacement key must be persisted and not revoked
				rec, err := metastore.Load(ctx, used.ID, used.Created)
				if err != nil || rec == nil {
					t.Fatalf("round %d: replacement IK %v is not in the metastore (err=%v)", round, used, err)
				}

				if rec.Revoked {
					t.Fatalf("round %d: replacement IK %v is itself revoked", round, used)
				}

				// and the new record is readable too
				if _, err := session.Decrypt(ctx, *drr); err != nil {
					t.Fatalf("round %d: cannot decrypt the new record: %v", round, err)
				}
			}
		})
	}
}
