package appencryption_test

// Replay for (*keyCache).load/post:reflects-loaded-key (property C05).

import (
	"context"
	"testing"
	"time"

	"github.com/godaddy/asherah/go/appencryption"
	"github.com/godaddy/asherah/go/appencryption/pkg/crypto/aead"
	"github.com/godaddy/asherah/go/appencryption/pkg/kms"
	"github.com/godaddy/asherah/go/appencryption/pkg/persistence"
)

func TestGocvReplay_RevokedLatestKeyIsReplaced(t *testing.T) {
	crypto := aead.NewAES256GCM()
	k, err := kms.NewStatic("thisIsAStaticMasterKeyForTesting", crypto)
	if err != nil {
		t.Fatal(err)
	}
	defer k.Close()
	store := persistence.NewMemoryMetastore()
	policy := appencryption.NewCryptoPolicy(appencryption.WithRevokeCheckInterval(time.Second))
	policy.CreateDatePrecision = time.Second
	f := appencryption.NewSessionFactory(&appencryption.Config{Service: "svc", Product: "prod", Policy: policy}, store, k, crypto)
	defer f.Close()
	s, err := f.GetSession("p")
	if err != nil {
		t.Fatal(err)
	}
	defer s.Close()
	ctx := context.Background()
	first, err := s.Encrypt(ctx, []byte("x"))
	if err != nil {
		t.Fatal(err)
	}
	revoked := *first.Key.ParentKeyMeta
	row, _ := store.Load(ctx, revoked.ID, revoked.Created)
	if row == nil {
		t.Fatal("ik row not found")
	}
	row.Revoked = true
	// a later creation stamp is creatable and more than one interval elapses
	time.Sleep(2200 * time.Millisecond)
	var last appencryption.KeyMeta
	for i := 0; i < 4; i++ { // well beyond "one interval for the intermediate key"
		drr, err := s.Encrypt(ctx, []byte("y"))
		if err != nil {
			t.Fatal(err)
		}
		last = *drr.Key.ParentKeyMeta
		if last != revoked {
			// old records stay decryptable
			if got, err := s.Decrypt(ctx, *first); err != nil || string(got) != "x" {
				t.Fatalf("CONTRACT VIOLATED (C05): record under the revoked key no longer decrypts: %v", err)
			}
			return
		}
		time.Sleep(1100 * time.Millisecond)
	}
	t.Fatalf("CONTRACT VIOLATED (C05): %d revoke-check intervals after the intermediate key %v was flagged revoked in the metastore, a long-lived session still encrypts under it", 5, revoked)
}
