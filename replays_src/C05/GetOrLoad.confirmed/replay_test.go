// Demonstration for seed C05-a.
//
// Placement: go/appencryption/c05_superseded_sk_revoke_demo_test.go
// Run with:
//   cd go/appencryption && GOPROXY=off GOSUMDB=off GOTOOLCHAIN=local \
//     go test -vet=off -count=1 -run TestC05_RevokedSupersededSystemKey -v .
//
// Scenario (all steps are sequential and deterministic, no goroutines):
//  1. Process F writes a record for partition A: creates SK1 and IK-A1 (parent SK1).
//  2. "Another process" G (separate factory => separate caches, same metastore) rotates the
//     system key: it creates SK2 and an IK for partition B under SK2.
//  3. F reads G's record for partition B, which pulls SK2 into F's system key cache. F's SK cache
//     now holds SK1 (older) and SK2 (latest). IK-A1 (parent SK1) is still the latest IK of partition A.
//  4. SK1 is flagged revoked in the metastore.
//  5. More than two revoke-check intervals later a new session for partition A in F encrypts.
//     Expected: F re-checks SK1, sees the revocation, and writes under a new, persisted IK whose
//     parent is the non-revoked SK2. The record from step 1 must still decrypt.
package appencryption_test

import (
	"context"
	"testing"
	"time"

	"github.com/stretchr/testify/require"

	"github.com/godaddy/asherah/go/appencryption"
	"github.com/godaddy/asherah/go/appencryption/pkg/crypto/aead"
	"github.com/godaddy/asherah/go/appencryption/pkg/kms"
	"github.com/godaddy/asherah/go/appencryption/pkg/persistence"
)

const (
	c05Service = "svc"
	c05Product = "prod"
	c05SKID    = "_SK_svc_prod"
	c05IKIDA   = "_IK_A_svc_prod"

	c05RevokeCheckInterval = 1 * time.Second
)

func c05NewFactory(t *testing.T, ms appencryption.Metastore, expireAfter time.Duration) *appencryption.SessionFactory {
	t.Helper()

	crypto := aead.NewAES256GCM()

	k, err := kms.NewStatic("thisIsAStaticMasterKeyForTesting", crypto)
	require.NoError(t, err)

	policy := appencryption.NewCryptoPolicy(
		appencryption.WithRevokeCheckInterval(c05RevokeCheckInterval),
		appencryption.WithExpireAfterDuration(expireAfter),
	)
	policy.CreateDatePrecision = time.Second

	return appencryption.NewSessionFactory(
		&appencryption.Config{Service: c05Service, Product: c05Product, Policy: policy},
		ms, k, crypto,
	)
}

func c05MarkRevoked(t *testing.T, ms *persistence.MemoryMetastore, id string, created int64) {
	t.Helper()

	ms.Lock()
	defer ms.Unlock()

	ekr, ok := ms.Envelopes[id][created]
	require.True(t, ok, "key %s/%d not in metastore", id, created)

	cp := *ekr
	cp.Revoked = true
	ms.Envelopes[id][created] = &cp
}

func c05Encrypt(t *testing.T, f *appencryption.SessionFactory, partition, payload string) *appencryption.DataRowRecord {
	t.Helper()

	s, err := f.GetSession(partition)
	require.NoError(t, err)

	defer s.Close()

	drr, err := s.Encrypt(context.Background(), []byte(payload))
	require.NoError(t, err)

	return drr
}

func c05Decrypt(t *testing.T, f *appencryption.SessionFactory, partition string, drr *appencryption.DataRowRecord) string {
	t.Helper()

	s, err := f.GetSession(partition)
	require.NoError(t, err)

	defer s.Close()

	out, err := s.Decrypt(context.Background(), *drr)
	require.NoError(t, err)

	return string(out)
}

func TestC05_RevokedSupersededSystemKey(t *testing.T) {
	ctx := context.Background()
	ms := persistence.NewMemoryMetastore()

	// F: the process under test. Keys effectively never expire.
	f := c05NewFactory(t, ms, 24*time.Hour)
	defer f.Close()

	// 1. F creates SK1 and IK-A1.
	drrA1 := c05Encrypt(t, f, "A", "written under IK-A1")
	ikA1 := drrA1.Key.ParentKeyMeta.Created

	ikA1Ekr, err := ms.Load(ctx, c05IKIDA, ikA1)
	require.NoError(t, err)
	require.NotNil(t, ikA1Ekr)

	sk1 := ikA1Ekr.ParentKeyMeta.Created

	// 2. Another process (G) rotates the system key. G considers SK1 expired (scheduled rotation),
	// so it creates SK2 and uses it as the parent of a brand new IK for partition B.
	time.Sleep(2200 * time.Millisecond)

	g := c05NewFactory(t, ms, 2*time.Second)
	drrB := c05Encrypt(t, g, "B", "written by the other process")
	g.Close()

	skLatest, err := ms.LoadLatest(ctx, c05SKID)
	require.NoError(t, err)

	sk2 := skLatest.Created
	require.Greater(t, sk2, sk1, "the other process should have rotated the system key")

	// 3. F reads the other process' record: SK2 enters F's system key cache next to SK1.
	require.Equal(t, "written by the other process", c05Decrypt(t, f, "B", drrB))

	// IK-A1 (parent SK1) is still the latest IK for partition A and still in use by F.
	drrA1b := c05Encrypt(t, f, "A", "still under IK-A1")
	require.Equal(t, ikA1, drrA1b.Key.ParentKeyMeta.Created)

	// 4. SK1 gets revoked in the metastore.
	c05MarkRevoked(t, ms, c05SKID, sk1)

	// 5. Wait (generously) more than two revoke-check intervals, then write with a new session.
	time.Sleep(3 * c05RevokeCheckInterval)

	drrA2 := c05Encrypt(t, f, "A", "written after revocation")
	ikA2 := drrA2.Key.ParentKeyMeta.Created

	require.NotEqual(t, ikA1, ikA2,
		"partition A is still writing under IK-A1 although its parent system key was revoked more than two revoke-check intervals ago")

	ikA2Ekr, err := ms.Load(ctx, c05IKIDA, ikA2)
	require.NoError(t, err)
	require.NotNil(t, ikA2Ekr, "the replacement IK must have been persisted")
	require.False(t, ikA2Ekr.Revoked)
	require.Greater(t, ikA2, ikA1)

	parent, err := ms.Load(ctx, c05SKID, ikA2Ekr.ParentKeyMeta.Created)
	require.NoError(t, err)
	require.NotNil(t, parent)
	require.False(t, parent.Revoked, "the replacement IK must not hang off the revoked system key")
	require.Equal(t, sk2, parent.Created)

	// Records written under the revoked chain stay readable, and so does the new one.
	require.Equal(t, "written under IK-A1", c05Decrypt(t, f, "A", drrA1))
	require.Equal(t, "still under IK-A1", c05Decrypt(t, f, "A", drrA1b))
	require.Equal(t, "written after revocation", c05Decrypt(t, f, "A", drrA2))
}
