// Demonstration for seed C05-c (latest-alias regression in keyCache.write).
//
// PLACE THIS FILE AT:   go/appencryption/c05_rotated_key_resurrected_demo_test.go
// RUN WITH:
//
//	cd go/appencryption && \
//	  GOPROXY=off GOSUMDB=off GOTOOLCHAIN=local \
//	  go test -vet=off -count=1 -run 'TestC05_RotatedAwayKeyIsNotResurrectedByDecrypt' -v .
//
// (do NOT set GOFLAGS=-mod=mod in go/appencryption; it has a go.work)
//
// Expected: PASS on the unchanged tree, FAIL with the seeded change applied.
//
// Scenario (same for every cache configuration exercised below):
//  1. a long-lived session writes record #1                      -> SK1 / IK1 are created and cached
//  2. SK1 is flagged revoked in the metastore
//  3. more than one revoke-check interval passes, the session writes record #2
//     -> the session notices the revoked parent, creates and persists SK2 / IK2 and uses IK2
//     (this part of C05 holds with and without the seeded change)
//  4. the session reads record #1 back (records under a revoked key must stay decryptable)
//  5. the session writes record #3
//     -> must still be written under IK2 (or anything newer), NOT under IK1 whose parent SK1 is revoked
//  6. the same read-old/write-new pair is repeated several check intervals later
//     -> still must not be IK1
//
// The test is deterministic: single goroutine, in-memory metastore, static KMS; the only timing
// dependence is "sleep longer than the revoke-check interval", and the sleeps are ~1.7x the interval.
package appencryption_test

import (
	"context"
	"testing"
	"time"

	"github.com/godaddy/asherah/go/appencryption"
	"github.com/godaddy/asherah/go/appencryption/pkg/crypto/aead"
	"github.com/godaddy/asherah/go/appencryption/pkg/kms"
	"github.com/godaddy/asherah/go/appencryption/pkg/persistence"
)

const (
	c05Interval = 1500 * time.Millisecond
	// long enough for (a) every cached key to be past the revoke-check interval and
	// (b) a newly created key to get a strictly later (1s precision) creation stamp.
	c05Wait = 2600 * time.Millisecond

	c05Service   = "svc"
	c05Product   = "prod"
	c05Partition = "tenant-1"
)

// c05Revoke flags the given key revoked in the metastore (what an operator does out of band).
func c05Revoke(m *persistence.MemoryMetastore, id string, created int64) {
	m.Lock()
	defer m.Unlock()

	old := m.Envelopes[id][created]
	cp := *old
	cp.Revoked = true
	m.Envelopes[id][created] = &cp
}

// c05Parent returns the parent (system) key meta and revoked flag of that parent for the IK (id, created).
func c05Parent(t *testing.T, m *persistence.MemoryMetastore, ikID string, ikCreated int64) (appencryption.KeyMeta, bool) {
	t.Helper()

	m.RLock()
	defer m.RUnlock()

	ik, ok := m.Envelopes[ikID][ikCreated]
	if !ok || ik.ParentKeyMeta == nil {
		t.Fatalf("IK %s/%d not found in metastore (records must be written under persisted keys)", ikID, ikCreated)
	}

	sk, ok := m.Envelopes[ik.ParentKeyMeta.ID][ik.ParentKeyMeta.Created]
	if !ok {
		t.Fatalf("SK %v not found in metastore", ik.ParentKeyMeta)
	}

	return *ik.ParentKeyMeta, sk.Revoked
}

func TestC05_RotatedAwayKeyIsNotResurrectedByDecrypt(t *testing.T) {
	configs := []struct {
		name string
		opts []appencryption.PolicyOption
		// reuse: keep one long-lived *Session for the whole scenario (per-session IK cache);
		// otherwise a session is obtained from the factory for every operation and closed afterwards
		// (the IK cache then lives in the factory: shared IK cache / cached sessions).
		reuse bool
	}{
		{name: "per-session-cache/long-lived-session", reuse: true},
		{name: "shared-ik-cache", opts: []appencryption.PolicyOption{appencryption.WithSharedIntermediateKeyCache(100)}},
		{name: "session-cache", opts: []appencryption.PolicyOption{appencryption.WithSessionCache()}},
	}

	for _, cfg := range configs {
		cfg := cfg

		t.Run(cfg.name, func(t *testing.T) {
			t.Parallel() // the sub-scenarios are independent (own factory/metastore); run them side by side to save wall time

			ctx := context.Background()
			crypto := aead.NewAES256GCM()

			km, err := kms.NewStatic("thisIsAStaticMasterKeyForTesting", crypto)
			if err != nil {
				t.Fatal(err)
			}
			defer km.Close()

			metastore := persistence.NewMemoryMetastore()

			opts := append([]appencryption.PolicyOption{appencryption.WithRevokeCheckInterval(c05Interval)}, cfg.opts...)
			policy := appencryption.NewCryptoPolicy(opts...)
			policy.CreateDatePrecision = time.Second

			factory := appencryption.NewSessionFactory(
				&appencryption.Config{Service: c05Service, Product: c05Product, Policy: policy},
				metastore, km, crypto,
			)
			defer factory.Close()

			var longLived *appencryption.Session
			if cfg.reuse {
				longLived, err = factory.GetSession(c05Partition)
				if err != nil {
					t.Fatal(err)
				}
				defer longLived.Close()
			}

			withSession := func(f func(s *appencryption.Session)) {
				if longLived != nil {
					f(longLived)
					return
				}

				s, err := factory.GetSession(c05Partition)
				if err != nil {
					t.Fatal(err)
				}
				defer s.Close()

				f(s)
			}

			encrypt := func(payload string) *appencryption.DataRowRecord {
				var drr *appencryption.DataRowRecord
				withSession(func(s *appencryption.Session) {
					var err error
					if drr, err = s.Encrypt(ctx, []byte(payload)); err != nil {
						t.Fatalf("encrypt %q: %v", payload, err)
					}
				})

				return drr
			}

			decrypt := func(drr *appencryption.DataRowRecord) string {
				var out []byte
				withSession(func(s *appencryption.Session) {
					var err error
					if out, err = s.Decrypt(ctx, *drr); err != nil {
						t.Fatalf("decrypt: %v", err)
					}
				})

				return string(out)
			}

			// 1. first record: creates SK1/IK1
			drr1 := encrypt("record-1")
			ikID := drr1.Key.ParentKeyMeta.ID
			ik1 := drr1.Key.ParentKeyMeta.Created
			sk1, revoked := c05Parent(t, metastore, ikID, ik1)
			if revoked {
				t.Fatalf("setup: SK1 unexpectedly revoked")
			}

			// 2. SK1 is revoked in the metastore
			c05Revoke(metastore, sk1.ID, sk1.Created)

			// 3. after (more than) one check interval the session must have rotated
			time.Sleep(c05Wait)

			drr2 := encrypt("record-2")
			ik2 := drr2.Key.ParentKeyMeta.Created
			sk2, revoked := c05Parent(t, metastore, ikID, ik2)

			if ik2 <= ik1 || sk2.Created <= sk1.Created || revoked {
				t.Fatalf("precondition (holds with and without the seeded change): after the check interval the session "+
					"should have rotated to a new IK under a new, unrevoked SK; got IK %d (was %d), SK %d (was %d), parent revoked=%v",
					ik2, ik1, sk2.Created, sk1.Created, revoked)
			}

			// 4.+5. and 6.: read an old record, then write a new one -- now, and again several intervals later
			for round := 1; round <= 3; round++ {
				if got := decrypt(drr1); got != "record-1" {
					t.Fatalf("round %d: record written under the (now revoked) hierarchy must remain decryptable, got %q", round, got)
				}

				drr := encrypt("record-after-rotation")
				usedIK := drr.Key.ParentKeyMeta.Created
				usedSK, usedSKRevoked := c05Parent(t, metastore, ikID, usedIK)

				if usedIK == ik1 || usedSKRevoked {
					t.Errorf("round %d (%s after SK1 was revoked, %s after the session had already switched to IK %d): "+
						"NEW record written under IK %d whose parent SK %d is revoked=%v in the metastore (IK1=%d, SK1=%d)",
						round, time.Duration(round-1)*c05Wait+c05Wait, time.Duration(round-1)*c05Wait, ik2,
						usedIK, usedSK.Created, usedSKRevoked, ik1, sk1.Created)
				}

				if round < 3 {
					time.Sleep(c05Wait)
				}
			}
		})
	}
}
