package appencryption_test

// Replay for obligation (*Session).Load/safety/nil-deref@load (property C07).

import (
	"context"
	"testing"

	"github.com/godaddy/asherah/go/appencryption"
	"github.com/godaddy/asherah/go/appencryption/pkg/crypto/aead"
	"github.com/godaddy/asherah/go/appencryption/pkg/kms"
	"github.com/godaddy/asherah/go/appencryption/pkg/persistence"
)

type missingLoader struct{}

// Load reports "record not found" the way many stores do: no record, no error.
func (missingLoader) Load(ctx context.Context, key interface{}) (*appencryption.DataRowRecord, error) {
	return nil, nil
}

func TestGocvReplay_LoaderReturnsNilRecord(t *testing.T) {
	crypto := aead.NewAES256GCM()
	k, err := kms.NewStatic("thisIsAStaticMasterKeyForTesting", crypto)
	if err != nil {
		t.Fatal(err)
	}
	cfg := &appencryption.Config{Service: "svc", Product: "prod", Policy: appencryption.NewCryptoPolicy()}
	f := appencryption.NewSessionFactory(cfg, persistence.NewMemoryMetastore(), k, crypto)
	defer f.Close()
	s, err := f.GetSession("p")
	if err != nil {
		t.Fatal(err)
	}
	defer s.Close()
	missing := missingLoader{}
	defer func() {
		if r := recover(); r != nil {
			t.Fatalf("CONTRACT VIOLATED (C07 no panic): Session.Load panicked when the Loader found no record: %v", r)
		}
	}()
	if got, err := s.Load(context.Background(), "k", missing); err == nil {
		t.Fatalf("CONTRACT VIOLATED (C07): Load returned %q without error for a missing record", got)
	}
}
