// C07 seed demonstration (out3).
//
// PLACEMENT: copy this file to  go/appencryption/c07_suffix_keyid_demo_test.go
//            (module github.com/godaddy/asherah/go/appencryption, external test package appencryption_test).
//
// RUN:
//   export GOPROXY=off GOSUMDB=off GOTOOLCHAIN=local
//   cd go/appencryption && go test -vet=off -count=1 -run 'TestC07Demo' -v .
//
// With the seeded change in partition.go applied the test FAILS (Decrypt/Load panic with
// "slice bounds out of range [:-1]"); on the unchanged tree it PASSES (every malformed record is
// answered with an error).
//
// The test is deterministic: no timing, no concurrency, no network. The only "unusual" ingredients are
//   (1) a metastore that reports a region suffix (what the DynamoDB metastores do when the
//       "region suffix" / global-tables option is switched on), and
//   (2) a data row record whose parent key ID contains no underscore at all - most naturally a record whose
//       JSON simply lacks "KeyId" inside "ParentKeyMeta" (it unmarshals to the empty string).
package appencryption_test

import (
	"context"
	"encoding/json"
	"fmt"
	"strings"
	"testing"

	"github.com/godaddy/asherah/go/appencryption"
	"github.com/godaddy/asherah/go/appencryption/pkg/crypto/aead"
	"github.com/godaddy/asherah/go/appencryption/pkg/kms"
	"github.com/godaddy/asherah/go/appencryption/pkg/persistence"
)

// regionalMemoryMetastore is the in-memory metastore plus the optional GetRegionSuffix method that
// SessionFactory looks for (exactly what the DynamoDB metastores expose when region suffixing is enabled).
type regionalMemoryMetastore struct {
	*persistence.MemoryMetastore
	suffix string
}

func (m regionalMemoryMetastore) GetRegionSuffix() string { return m.suffix }

// outcome of one decrypt attempt.
type c07Outcome struct {
	data     []byte
	err      error
	panicked interface{}
}

func c07Decrypt(sess *appencryption.Session, drr appencryption.DataRowRecord) (o c07Outcome) {
	defer func() {
		if r := recover(); r != nil {
			o.panicked = r
		}
	}()

	o.data, o.err = sess.Decrypt(context.Background(), drr)

	return o
}

func c07Load(sess *appencryption.Session, drr *appencryption.DataRowRecord) (o c07Outcome) {
	defer func() {
		if r := recover(); r != nil {
			o.panicked = r
		}
	}()

	loader := persistence.LoaderFunc(func(context.Context, interface{}) (*appencryption.DataRowRecord, error) {
		return drr, nil
	})

	o.data, o.err = sess.Load(context.Background(), "some-row-key", loader)

	return o
}

func TestC07Demo_MalformedParentKeyID_WithRegionSuffix(t *testing.T) {
	crypto := aead.NewAES256GCM()

	km, err := kms.NewStatic("thisIsAStaticMasterKeyForTesting", crypto)
	if err != nil {
		t.Fatal(err)
	}
	defer km.Close()

	store := regionalMemoryMetastore{MemoryMetastore: persistence.NewMemoryMetastore(), suffix: "us-west-2"}

	factory := appencryption.NewSessionFactory(
		&appencryption.Config{Service: "svc", Product: "prod", Policy: appencryption.NewCryptoPolicy()},
		store, km, crypto,
	)
	defer factory.Close()

	sess, err := factory.GetSession("shopper123")
	if err != nil {
		t.Fatal(err)
	}
	defer sess.Close()

	payload := []byte("the original payload")

	genuine, err := sess.Encrypt(context.Background(), payload)
	if err != nil {
		t.Fatal(err)
	}

	genuineID := genuine.Key.ParentKeyMeta.ID
	if !strings.HasSuffix(genuineID, "_us-west-2") {
		t.Fatalf("precondition: expected a region-suffixed IK id, got %q", genuineID)
	}

	// Sanity: the genuine record, and the same record addressed by the legacy un-suffixed / other-region ID forms,
	// behave the same with and without the seeded change.
	if o := c07Decrypt(sess, *genuine); o.panicked != nil || o.err != nil || string(o.data) != string(payload) {
		t.Fatalf("genuine record: data=%q err=%v panic=%v", o.data, o.err, o.panicked)
	}

	// The malformed records: genuine in every respect except the parent key ID.
	ids := map[string]string{
		"empty KeyId":                     "",
		"KeyId without any underscore":    "garbage",
		"genuine KeyId, underscores lost": strings.ReplaceAll(genuineID, "_", ""),
		"one-character KeyId":             "x",
	}

	// every truncation of the genuine ID (the property quantifies over truncated fields); those that contain no
	// underscore are the interesting ones, the others are controls.
	for n := 0; n < len(genuineID); n++ {
		ids[fmt.Sprintf("genuine KeyId truncated to %d bytes", n)] = genuineID[:n]
	}

	for name, id := range ids {
		drr := appencryption.DataRowRecord{
			Key: &appencryption.EnvelopeKeyRecord{
				Created:      genuine.Key.Created,
				EncryptedKey: genuine.Key.EncryptedKey,
				ParentKeyMeta: &appencryption.KeyMeta{
					ID:      id,
					Created: genuine.Key.ParentKeyMeta.Created,
				},
			},
			Data: genuine.Data,
		}

		for what, o := range map[string]c07Outcome{"Decrypt": c07Decrypt(sess, drr), "Load": c07Load(sess, &drr)} {
			switch {
			case o.panicked != nil:
				t.Errorf("%s of record with %s (%q): PANIC: %v", what, name, id, o.panicked)
			case o.err == nil && string(o.data) != string(payload):
				t.Errorf("%s of record with %s (%q): returned other bytes %q without error", what, name, id, o.data)
			case o.err == nil:
				t.Errorf("%s of record with %s (%q): unexpectedly succeeded", what, name, id)
			}
		}
	}

	// The most natural way to meet such a record: a stored JSON document whose ParentKeyMeta lacks "KeyId".
	raw, err := json.Marshal(genuine)
	if err != nil {
		t.Fatal(err)
	}

	var doc map[string]interface{}
	if err := json.Unmarshal(raw, &doc); err != nil {
		t.Fatal(err)
	}

	delete(doc["Key"].(map[string]interface{})["ParentKeyMeta"].(map[string]interface{}), "KeyId")

	raw, err = json.Marshal(doc)
	if err != nil {
		t.Fatal(err)
	}

	var fromJSON appencryption.DataRowRecord
	if err := json.Unmarshal(raw, &fromJSON); err != nil {
		t.Fatal(err)
	}

	if o := c07Decrypt(sess, fromJSON); o.panicked != nil {
		t.Errorf("Decrypt of JSON record without KeyId: PANIC: %v", o.panicked)
	} else if o.err == nil {
		t.Errorf("Decrypt of JSON record without KeyId: expected an error, got data %q", o.data)
	}
}
