package appencryption_test

// Replay for obligation loadIntermediateKey/safety/nil-deref (property C07): corrupted key record in the metastore.

import (
	"context"
	"testing"

	"github.com/godaddy/asherah/go/appencryption"
	"github.com/godaddy/asherah/go/appencryption/pkg/crypto/aead"
	"github.com/godaddy/asherah/go/appencryption/pkg/kms"
	"github.com/godaddy/asherah/go/appencryption/pkg/persistence"
)

func TestGocvReplay_IKRowWithoutParentMeta(t *testing.T) {
	crypto := aead.NewAES256GCM()
	k, err := kms.NewStatic("thisIsAStaticMasterKeyForTesting", crypto)
	if err != nil {
		t.Fatal(err)
	}
	store := persistence.NewMemoryMetastore()
	pol := appencryption.NewCryptoPolicy(appencryption.WithNoCache())
	cfg := &appencryption.Config{Service: "svc", Product: "prod", Policy: pol}
	f := appencryption.NewSessionFactory(cfg, store, k, crypto)
	defer f.Close()
	s, err := f.GetSession("p")
	if err != nil {
		t.Fatal(err)
	}
	defer s.Close()
	drr, err := s.Encrypt(context.Background(), []byte("payload"))
	if err != nil {
		t.Fatal(err)
	}
	// corrupt the stored intermediate key record: drop its parent key meta
	row, err := store.Load(context.Background(), drr.Key.ParentKeyMeta.ID, drr.Key.ParentKeyMeta.Created)
	if err != nil || row == nil {
		t.Fatalf("row not found: %v", err)
	}
	row.ParentKeyMeta = nil
	defer func() {
		if r := recover(); r != nil {
			t.Fatalf("CONTRACT VIOLATED (C07 no panic): decrypt panicked on a key record without ParentKeyMeta: %v", r)
		}
	}()
	if got, err := s.Decrypt(context.Background(), *drr); err == nil && string(got) != "payload" {
		t.Fatalf("CONTRACT VIOLATED (C07): decrypt returned other bytes %q", got)
	}
}
