package aead

// Replay for the safety obligations of cryptoFunc.Decrypt (property C07): no input length may panic.

import (
	"encoding/json"
	"os"
	"regexp"
	"strconv"
	"testing"
)

func modelLen(t *testing.T) (int, bool) {
	var m map[string]string
	if json.Unmarshal([]byte(os.Getenv("GOCV_MODEL_JSON")), &m) != nil {
		return 0, false
	}
	// Decrypt.data = (mk_slice arr off len cap)
	v, ok := m["Decrypt.data"]
	if !ok {
		return 0, false
	}
	f := regexp.MustCompile(`mk_slice\s+\S+\s+\S+\s+(\d+)\s+\S+`).FindStringSubmatch(v)
	if f == nil {
		return 0, false
	}
	n, err := strconv.Atoi(f[1])
	if err != nil || n > 1<<20 {
		return 0, false
	}
	return n, true
}

func tryLen(t *testing.T, c interface {
	Decrypt(data, key []byte) ([]byte, error)
}, data, key []byte, what string) {
	defer func() {
		if r := recover(); r != nil {
			t.Fatalf("CONTRACT VIOLATED (C07 no panic): Decrypt panicked on %s of length %d: %v", what, len(data), r)
		}
	}()
	c.Decrypt(data, key)
}

func TestGocvReplay_DecryptAnyLength(t *testing.T) {
	c := NewAES256GCM()
	key := make([]byte, 32)
	for i := range key {
		key[i] = byte(i)
	}
	genuine, err := c.Encrypt(make([]byte, 64), key)
	if err != nil {
		t.Fatal(err)
	}
	if n, ok := modelLen(t); ok {
		buf := make([]byte, n)
		tryLen(t, c, buf, key, "solver-model input")
	}
	for n := 0; n <= 96 && n <= len(genuine); n++ {
		tryLen(t, c, genuine[:n], key, "truncated genuine ciphertext")
		tryLen(t, c, make([]byte, n), key, "zero bytes")
	}
}
