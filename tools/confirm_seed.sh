#!/bin/sh
# tools/confirm_seed.sh <worktree> <module-dir-rel> <pkg> <test-regex> <patch>
# In the agent's worktree (change applied, demo in place): demo must FAIL with the change, PASS without; package tests (excluding the demo) must pass with the change.
wt=$1; mod=$2; pkg=$3; re=$4; patch=$5
export GOPROXY=off GOSUMDB=off GOTOOLCHAIN=local
case "$mod" in go/appencryption*) ;; *) export GOFLAGS=-mod=mod;; esac
cd $wt/$mod || exit 2
echo "-- demo with change (expect FAIL)"; go test -vet=off -count=1 -timeout 10m -run "$re" $pkg 2>&1 | tail -3
echo "-- package tests with change, demo excluded (expect ok)"; go test -vet=off -count=1 -timeout 15m -skip "$re" $pkg 2>&1 | tail -3
git -C $wt apply -R $patch || { echo cannot reverse; exit 2; }
echo "-- demo without change (expect ok)"; go test -vet=off -count=1 -timeout 10m -run "$re" $pkg 2>&1 | tail -3
git -C $wt apply $patch
