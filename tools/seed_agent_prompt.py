import json,sys
pid=sys.argv[1]; wt=sys.argv[2]
for l in open('/verif/properties.jsonl'):
    p=json.loads(l)
    if p['id']==pid: break
print(f"""You are helping to test a verification effort for the Go library godaddy/asherah (application-layer envelope encryption SDK). You have your own scratch git worktree of the repository at {wt} (detached HEAD). Work ONLY inside {wt} (and scratch files under /tmp/seed/{pid}-out/). Never touch /repo or /verif, never read anything under /verif.

The property under study ({pid}: {p['title']}):

  {p['statement']}

  Quantified over: {p['quantifier']['text']}

Your task: produce ONE realistic change (a bug a developer could plausibly introduce in a refactor or 'optimisation') to the non-test Go source in {wt} that BREAKS this property, while
  (a) the code still compiles, and
  (b) the repository's existing test suites still pass with the change (run them: see below), and
  (c) the breakage needs something specific to manifest — a particular interleaving, a crash or fault at a particular point, a multi-step sequence of operations, an unusual input, or two cooperating sites that each look fine alone — NOT something ordinary use would expose at once.
Also write a demonstration: a Go test file (or small program) that FAILS with your change applied and PASSES on the unchanged code. The demonstration must be deterministic (if it needs an interleaving, force it with hooks/fakes/sleeps generously, or inject faults with fake Metastore/KMS/etc. implementations).

Deliver, under /tmp/seed/{pid}-out/ :
  - patch.diff : `git -C {wt} diff` of your source change ONLY (not including the demonstration test file),
  - the demonstration file(s), with a comment at the top saying where in the tree it must be placed and the exact command to run it,
  - notes.md : what the change is, why existing tests miss it, what it needs in order to manifest, the commands you ran and their outcomes (tests with change: pass; demo with change: fail; demo without change: pass).

Environment facts (sandbox is offline):
  - Every shell call needs: export GOPROXY=off GOSUMDB=off GOTOOLCHAIN=local
  - Go modules in the tree: go/appencryption (has a go.work: do NOT set GOFLAGS=-mod=mod there), go/appencryption/integrationtest, go/securememory (use GOFLAGS=-mod=mod), server/go (use GOFLAGS=-mod=mod), tests/cross-language/go.
  - IMPORTANT: server/go builds against module-cache copies of its sibling modules (appencryption@v0.7.1, securememory@v0.1.6), not the sibling directories: a change in go/appencryption or go/securememory is NOT seen by tests in server/go. go/appencryption (through its go.work) builds against the sibling directory go/securememory, so a change in go/securememory is seen by the tests of go/securememory AND of go/appencryption: run both suites if you touch go/securememory. Keep your change and your demo within one module.
  - Skip the integrationtest module entirely (it needs docker and its traces package takes 20 minutes). Run the existing tests of the module(s) you touched with: (cd {wt}/<module> && go test -vet=off -count=1 -timeout 20m ./...)  — some integration tests that need docker/network are skipped or fail identically on the unchanged tree; compare against the unchanged tree if something fails (do NOT use git stash - it is shared between worktrees; use `git diff > x.diff; git apply -R x.diff; ...; git apply x.diff`) to make sure your change is not the cause.
  - Do not commit anything. Leave the worktree with your change applied (uncommitted) plus the demo file in place.
Keep the change small (a few lines). Prefer subtle semantic changes over deletions of whole features. Finish by printing the contents of notes.md.
""")
