#!/bin/sh
# Re-runs every claimed check on the (clean) tree so that the committed evidence comes from /repo as it is.
cd /verif
test -z "$(git -C /repo status --short)" || { echo "/repo has uncommitted changes:"; git -C /repo status --short; exit 2; }
rc=0
for p in $(python3 -c "import json;print(' '.join(c['property_id'] for c in json.load(open('MANIFEST.json'))['checks']))"); do
  out=$(./check $p ${1:-quick} 2>&1); r=$?
  echo "$out" | grep -E "^(gocv: property|VIOLATION|KNOWN-FINDING|gocv: TOOL|OUTSIDE)" | cut -c1-220
  [ $r -eq 0 ] || { echo "!! $p exit $r"; rc=1; }
done
python3-vt - <<'PY'
import json,jsonschema,glob
sch=json.load(open('/root/.vp/EVIDENCE.schema.json'))
for c in json.load(open('/verif/MANIFEST.json'))['checks']:
    e=json.load(open(c['evidence_file'])); jsonschema.validate(e,sch)
    cov=e['coverage']; assert cov['obligations']==cov['discharged'], (c['property_id'],cov['obligations'],cov['discharged'])
    assert not cov.get('unreachable_return_sites'), (c['property_id'], cov.get('unreachable_return_sites'))
    a,b=cov['covers_sat'].split('/'); assert a==b, (c['property_id'], cov['covers_sat'])
jsonschema.validate(json.load(open('/verif/MANIFEST.json')),json.load(open('/root/.vp/MANIFEST.schema.json')))
print('evidence + manifest valid')
PY
exit $rc
