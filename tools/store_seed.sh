#!/bin/sh
# tools/store_seed.sh <P> <id> <outdir> <demo-file> <place-at> <cmd> <breaks> <needs>
P=$1; id=$2; out=$3; demo=$4; place=$5; cmd=$6; breaks=$7; needs=$8
d=/verif/seeded/$id; mkdir -p $d; cp $out/patch.diff $d/patch.diff; cp $out/$demo $d/demo_test.go; cp $out/notes.md $d/agent_notes.md
python3 - "$id" "$P" "$place" "$cmd" "$breaks" "$needs" <<'PY'
import json,sys
id,P,place,cmd,breaks,needs=sys.argv[1:7]
json.dump({"id":id,"property":P,"breaks":breaks,"needs":needs,"demo":{"place_at":place,"cmd":cmd},"confirmed":"2026-10-02: demo FAILS with patch, PASSES without; the touched package's own tests pass with the patch (confirmed by tools/confirm_seed.sh)","detected_by":[]}, open(f"/verif/seeded/{id}/meta.json","w"), indent=1)
PY
