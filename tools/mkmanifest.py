#!/usr/bin/env python3
"""Regenerates /verif/MANIFEST.json from tools/claims.json (claimed properties) and properties.jsonl."""
import json, subprocess, os
root = os.path.dirname(os.path.dirname(os.path.abspath(__file__)))
props = [json.loads(l) for l in open(os.path.join(root, 'properties.jsonl'))]
claims = json.load(open(os.path.join(root, 'tools', 'claims.json')))
baseline = json.load(open('/root/.vp/BASELINE.json'))['cmd'] if os.path.exists('/root/.vp/BASELINE.json') else claims['_baseline_cmd']
hooks = subprocess.run(['git', '-C', '/repo', 'log', '--format=%H %s'], capture_output=True, text=True).stdout.splitlines()
hook_commits = [l.split()[0] for l in hooks if l.split(' ', 1)[1].startswith('verif:')]
TECH = "contract-based deductive verification: weakest-precondition VCs generated from go/ssa of /repo against //@ contracts, discharged by z3/cvc5"
checks, na = [], []
for p in props:
    pid = p['id']
    c = claims.get(pid)
    if c and c.get('claimed'):
        checks.append({
            "property_id": pid,
            "quick_cmd": f"./check {pid} quick",
            "thorough_cmd": f"./check {pid} thorough",
            "evidence_file": f"/verif/evidence/{pid}.json",
            "replay_cmd_template": "./check --replay {path}",
            "engine": "gocv",
            "level_claimed": {"category": "proof", "text": c['text'], "design_ref": c.get('design_ref', 'DESIGN.md section 3 ' + pid)},
            "level_note": c['note'],
            "technique": c.get('technique', TECH),
        })
    else:
        na.append({"property_id": pid, "reason": (c or {}).get('reason', 'contracts for this property are not completed (engine and contract files are being extended); not claimed rather than claimed on weaker grounds')})
m = {
    "version": 1,
    "setup_cmd": "./setup.sh",
    "hooks": {"guard": "verif", "enable": "-tags verif (comment-only contract files zz_contracts_verif.go next to the code; no executable hooks: replays inject tests with go test -overlay)",
              "baseline_off_cmd": baseline, "source_commits": hook_commits, "add_only": True},
    "engines": [{"name": "gocv", "path": "/verif/gocv", "serves_properties": [c['property_id'] for c in checks],
                 "kind_free_text": "self-written weakest-precondition / VC generator over go/ssa (x/tools v0.29.0) of /repo's working tree; contracts are //@ comments in build-tag-guarded files in /repo plus assumed contracts for dependencies in /verif/contracts/assumed; one SMT query per named obligation, raced on z3 4.8.12, z3 5.1.0 and cvc5 1.0; failed obligations are replayed on the real code with go test -overlay where a scripted scenario exists"}],
    "checks": checks,
    "notes": "see DESIGN.md; obligations.lock.json lists the obligations proved on the unchanged tree; known_findings.jsonl lists genuine defects (fixed ones suppress nothing)",
    "not_applicable": na,
}
json.dump(m, open(os.path.join(root, 'MANIFEST.json'), 'w'), indent=1)
print(len(checks), 'claimed;', len(na), 'not applicable')
