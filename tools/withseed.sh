#!/bin/sh
# tools/withseed.sh <seed-id> <property>... : apply a seeded change to /repo, run the quick checks, undo the change (reverse patch).
set -u
seed="$1"; shift
patch="/verif/seeded/$seed/patch.diff"
git -C /repo apply "$patch" || { echo "cannot apply $patch"; exit 2; }
rc=0
for p in "$@"; do
  (cd /verif && GOCV_EVIDENCE_DIR=/verif/.work/evidence-seed ./check "$p" quick 2>&1 | grep -E "^(VIOLATION|KNOWN-FINDING|gocv: property|OUTSIDE|gocv: TOOL)" | cut -c1-260) || rc=$?
done
git -C /repo apply -R "$patch" || echo "WARNING: could not reverse $patch"
git -C /repo status --short
