#!/bin/sh
# Runs the repository's baseline test command (from /root/.vp/BASELINE.json) and compares with stable_pass.
out=${1:-/var/tmp/baseline_run.json}
: > $out
for m in $(cat /w/out/gomods.txt); do MF=$(cd /repo/$m && . /w/out/goenv.sh && gomodflag); (cd /repo/$m && go test $MF -json -vet=off -count=1 -timeout 45m ./... >> $out 2>/dev/null); done
python3 - "$out" <<'PY'
import json,sys
base=json.load(open('/root/.vp/BASELINE.json'))
want=set(base['stable_pass'])
res={}
for l in open(sys.argv[1]):
    try: e=json.loads(l)
    except: continue
    if e.get('Test') and e.get('Action') in('pass','fail','skip'):
        res[e['Package']+'::'+e['Test']]=e['Action']
bad=[t for t in want if res.get(t)!='pass']
print('stable_pass:',len(want),'passing now:',len(want)-len(bad))
for t in bad[:40]: print('  NOT PASSING:',t,res.get(t))
PY
